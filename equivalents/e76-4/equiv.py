"""Equivalence check for refactoring 4 (date and data-location sub-structures of the
signal data and processed data records hoisted to module level).

Run as a script (`python equiv.py`) or through pytest. The expected observations
were recorded from the unchanged code with `python equiv.py --record`.
"""

import hashlib
import io
import pathlib
import pprint
import random
import struct
import sys

import construct
from construct import Bytes, Int8ub, Struct

from ceos_alos2 import common, datatypes
from ceos_alos2.sar_image import enums
from ceos_alos2.sar_image import io as sar_io
from ceos_alos2.sar_image import processed_data, signal_data

def canon(value):
    if isinstance(value, dict):
        items = ", ".join(f"{k}={canon(v)}" for k, v in value.items() if k != "_io")
        return f"{type(value).__name__}({items})"
    if isinstance(value, (list, tuple)):
        return f"{type(value).__name__}[{', '.join(canon(v) for v in value)}]"
    return f"{type(value).__name__}:{value!r}"


def outcome(func, *args, **kwargs):
    try:
        result = func(*args, **kwargs)
    except BaseException as e:  # noqa: B902
        return (
            f"raise {type(e).__module__}.{type(e).__qualname__} args={e.args!r} str={str(e)!r}"
            f" cause={type(e.__cause__).__name__} context={type(e.__context__).__name__}"
            f" suppress={e.__suppress_context__}"
        )
    return "ok " + canon(result)


def digest(text):
    return hashlib.sha256(text.encode()).hexdigest()[:16]


def summarized(func, *args, **kwargs):
    """outcome, but successful record parses are reduced to a digest plus the derived fields"""
    try:
        result = func(*args, **kwargs)
    except BaseException as e:  # noqa: B902
        return outcome(lambda: (_ for _ in ()).throw(e))

    records = result if isinstance(result, list) else [result]
    parts = []
    for record in records:
        parts.append(
            f"digest={digest(canon(record))}"
            f" record_start={canon(record['record_start'])}"
            f" length={canon(record['preamble']['record_length'])}"
            f" date={canon(record['sensor_acquisition_date'])}"
            f" data={canon(record['data'])}"
        )
    return f"ok {type(result).__name__} " + " | ".join(parts)


def describe(con, depth=0):
    """structural fingerprint of a construct"""
    kind = type(con).__name__
    details = []
    for attribute in ["name", "fmtstr", "length", "factor", "attrs", "encmapping", "func", "at"]:
        if attribute in vars(con):
            value = vars(con)[attribute]
            if attribute == "encmapping":
                value = sorted(value.items())
            details.append(f"{attribute}={value!r}")
    if "reference_date" in vars(con):
        details.append(f"reference_date={con.reference_date!r}")
    text = f"{kind}({', '.join(details)})"
    children = []
    if "subcons" in vars(con):
        children = list(con.subcons)
    elif "subcon" in vars(con):
        children = [con.subcon]
    if not children:
        return text
    return text + "[" + "; ".join(describe(child, depth + 1) for child in children) + "]"


RECORDS = {
    "signal": (signal_data.signal_data_record, 10),
    "processed": (processed_data.processed_data_record, 11),
}

# offsets of the fields the checks manipulate (both records share the first 80 bytes)
YEAR, DAY, MILLISECONDS = 36, 40, 44
CHANNEL_ID, CHANNEL_CODE, TX_POLARIZATION, RX_POLARIZATION = 48, 50, 52, 54
# only in the signal data record
MICROSECONDS = 84


def header_size(record):
    probe = bytearray(4096)
    probe[8:12] = struct.pack(">I", 4096)
    probe[YEAR:YEAR + 12] = struct.pack(">III", 2020, 1, 0)
    return record.parse(bytes(probe)).data.start


def make_record(
    kind, *, seed, length, payload=None, year=2020, day=60, ms=12345, us=None, sequence=1
):
    """deterministic pseudo-random bytes for a record header followed by the payload"""
    record, type_code = RECORDS[kind]
    size = header_size(record)
    rng = random.Random(seed)
    raw = bytearray(rng.getrandbits(8) for _ in range(size))
    raw[0:12] = struct.pack(">IBBBBI", sequence, 50, type_code, 18, 20, length)
    raw[YEAR:YEAR + 12] = struct.pack(">III", year, day, ms)
    if kind == "signal":
        if us is None:
            us = 3_600_000_000 + 1001 * seed
        raw[MICROSECONDS:MICROSECONDS + 8] = struct.pack(">Q", us)
    if payload is None:
        payload = max(length - size, 0)
    raw += bytes(rng.getrandbits(8) for _ in range(payload))
    return bytes(raw)


def make_descriptor(n_records, record_length):
    raw = bytearray(b" " * 720)
    raw[0:12] = struct.pack(">IBBBBI", 1, 50, 192, 18, 18, 720)
    raw[180:186] = b"%6d" % n_records
    raw[186:192] = b"%6d" % record_length
    return bytes(raw)


class LoggingFile(io.BytesIO):
    def __init__(self, data):
        super().__init__(data)
        self.requests = []

    def read(self, size=-1):
        self.requests.append(("read", self.tell(), size))
        return super().read(size)

    def seek(self, offset, whence=0):
        self.requests.append(("seek", offset, whence))
        return super().seek(offset, whence)


def observe():
    obs = {}

    # --- structure -----------------------------------------------------------
    for kind, (record, _) in RECORDS.items():
        obs[f"{kind}: type"] = canon(type(record).__name__)
        names = [sc.name for sc in record.subcons]
        obs[f"{kind}: field names"] = canon(names)
        obs[f"{kind}: structure digest"] = canon(digest(describe(record)))
        obs[f"{kind}: date structure"] = canon(describe(record.sensor_acquisition_date))
        obs[f"{kind}: data structure"] = canon(describe(record.data))
        obs[f"{kind}: first fields"] = canon(describe(Struct(*record.subcons[:9])))
        obs[f"{kind}: last fields"] = canon(describe(Struct(*record.subcons[-3:])))
        obs[f"{kind}: header size"] = outcome(header_size, record)
        obs[f"{kind}: sizeof"] = outcome(record.sizeof)
        obs[f"{kind}: date sizeof"] = outcome(record.sensor_acquisition_date.sizeof)
        obs[f"{kind}: preamble is the common one"] = canon(
            record.preamble.subcon is common.record_preamble
        )
        obs[f"{kind}: date field type"] = canon(
            type(record.sensor_acquisition_date.subcon) is datatypes.DatetimeYdms
        )
        obs[f"{kind}: position of date and data"] = canon(
            [names.index("sensor_acquisition_date"), names.index("data"), len(names)]
        )

    signal, processed = RECORDS["signal"][0], RECORDS["processed"][0]
    obs["records do not share the date field"] = canon(
        signal.sensor_acquisition_date.subcon is not processed.sensor_acquisition_date.subcon
    )
    obs["records do not share the data field"] = canon(
        signal.data.subcon is not processed.data.subcon
    )
    obs["record types table"] = canon(
        [
            sorted(sar_io.record_types),
            sar_io.record_types[10] is signal,
            sar_io.record_types[11] is processed,
        ]
    )
    for module in (signal_data, processed_data):
        short = module.__name__.rsplit(".", 1)[-1]
        obs[f"{short}: public names"] = canon(
            sorted(
                name
                for name, value in vars(module).items()
                if not name.startswith("_") and not isinstance(value, type(sys))
            )
        )
    obs["signal flag fields"] = canon(
        [
            type(signal.onboard_range_compressed_flag.subcon) is enums.Flag,
            type(signal.invalid_line_flag.subcon) is enums.Flag,
        ]
    )

    # --- single records ---------------------------------------------------------
    for kind, (record, _) in RECORDS.items():
        size = header_size(record)

        raw = make_record(kind, seed=1, length=size + 40)
        obs[f"{kind}: typical record"] = outcome(record.parse, raw)
        obs[f"{kind}: typical record summary"] = summarized(record.parse, raw)

        for label, length in [
            ("length == header", size),
            ("length == header + 1", size + 1),
            ("length < header", 12),
            ("length == 0", 0),
            ("length == 2**32 - 1", 2**32 - 1),
            ("length beyond the stream", size + 10_000),
        ]:
            raw = make_record(kind, seed=2, length=length, payload=16)
            stream = io.BytesIO(raw)
            obs[f"{kind}: {label}"] = summarized(record.parse_stream, stream)
            obs[f"{kind}: {label}: stream position"] = canon(stream.tell())

        # dates
        for label, (year, day, ms) in {
            "new year": (2020, 1, 0),
            "leap day": (2020, 60, 86_399_999),
            "day 366 of a common year": (2021, 366, 1),
            "day 0": (2021, 0, 0),
            "year 1": (1, 1, 0),
            "year 9999 overflowing": (9999, 366, 0),
            "year 0": (0, 1, 0),
            "year 10000": (10000, 1, 0),
            "largest milliseconds": (2000, 1, 2**32 - 1),
            "largest day": (2000, 2**32 - 1, 0),
            "everything at the maximum": (2**32 - 1, 2**32 - 1, 2**32 - 1),
        }.items():
            raw = make_record(kind, seed=3, length=size + 8, year=year, day=day, ms=ms)
            stream = io.BytesIO(raw)
            obs[f"{kind}: date {label}"] = summarized(record.parse_stream, stream)
            obs[f"{kind}: date {label}: stream position"] = canon(stream.tell())

        if kind == "signal":
            for label, us in {
                "0": 0,
                "last of the day": 86_399_999_999,
                "next day": 86_400_000_000,
                "2**40": 2**40,
                "2**63": 2**63,
                "2**64 - 1": 2**64 - 1,
            }.items():
                for date_label, (year, day, ms) in {
                    "leap day": (2020, 60, 86_399_999),
                    "last day": (9999, 365, 0),
                    "year 0": (0, 1, 0),
                }.items():
                    raw = make_record(
                        kind, seed=3, length=size + 8, year=year, day=day, ms=ms, us=us
                    )
                    obs[f"{kind}: microseconds {label} on {date_label}"] = outcome(
                        lambda: [
                            record.parse(raw)[name]
                            for name in ["sensor_acquisition_date", "sensor_acquisition_date_microseconds"]
                        ]
                    )

        # truncated headers: the error names the field that could not be read
        raw = make_record(kind, seed=4, length=size + 8)
        for cut in [0, 3, 11, 12, 35, 36, 39, 40, 47, 48, 49, 80, size - 4, size - 1, size]:
            stream = io.BytesIO(raw[:cut])
            obs[f"{kind}: truncated at {cut}"] = summarized(record.parse_stream, stream)
            obs[f"{kind}: truncated at {cut}: stream position"] = canon(stream.tell())
        obs[f"{kind}: header only"] = summarized(record.parse, raw[:size])

        # enumerations
        for label, values in {
            "known": (1, 0, 0, 1),
            "other known": (4, 5, 1, 0),
            "unknown": (3, 6, 2, 65535),
        }.items():
            patched = bytearray(make_record(kind, seed=5, length=size + 8))
            patched[CHANNEL_ID:CHANNEL_ID + 8] = struct.pack(">HHHH", *values)
            obs[f"{kind}: enums {label}"] = outcome(
                lambda: [
                    canon(record.parse(bytes(patched))[name])
                    for name in [
                        "sar_channel_id",
                        "sar_channel_code",
                        "transmitted_pulse_polarization",
                        "received_pulse_polarization",
                    ]
                ]
            )

        # records that do not start at the beginning of the stream
        raw = make_record(kind, seed=6, length=size + 24)
        stream = io.BytesIO(b"\xaa" * 7 + raw + b"\xbb" * 5)
        stream.seek(7)
        obs[f"{kind}: offset stream"] = summarized(record.parse_stream, stream)
        obs[f"{kind}: offset stream: stream position"] = canon(stream.tell())
        outer = Struct("pad" / Bytes(7), "record" / record, "next" / Int8ub)
        obs[f"{kind}: embedded"] = outcome(
            lambda: summarized(lambda: outer.parse(b"\xaa" * 7 + raw + b"\xbb" * 5)["record"])
        )
        obs[f"{kind}: embedded next"] = outcome(
            lambda: outer.parse(b"\xaa" * 7 + raw + b"\xbb" * 5)["next"]
        )
        obs[f"{kind}: embedded short"] = outcome(outer.parse, b"\xaa" * 7 + raw)

        # arrays of records, as used for chunks
        lengths = [size + 8, size, size + 32]
        chunk = b"".join(
            make_record(kind, seed=7 + index, length=length, sequence=index + 2, day=index + 1)
            for index, length in enumerate(lengths)
        )
        obs[f"{kind}: array of records"] = summarized(lambda: list(record[3].parse(chunk)))
        obs[f"{kind}: array of records, one too many"] = summarized(
            lambda: list(record[4].parse(chunk))
        )
        short = b"".join(
            make_record(kind, seed=9, length=size + 16, payload=8, sequence=index)
            for index in range(3)
        )
        obs[f"{kind}: array of records with short payloads"] = summarized(
            lambda: list(record[3].parse(short))
        )
        lying = b"".join(
            make_record(kind, seed=9, length=size - 20, payload=0, sequence=index)
            for index in range(2)
        )
        obs[f"{kind}: array of records with too small lengths"] = summarized(
            lambda: list(record[2].parse(lying))
        )

        # building is refused (the date field is parse-only)
        obs[f"{kind}: build"] = outcome(lambda: record.build(dict(record.parse(raw))))

        # through the io layer
        element = size + 16
        uniform = b"".join(
            make_record(kind, seed=20 + index, length=element, sequence=index + 2, ms=1000 * index)
            for index in range(5)
        )
        obs[f"{kind}: parse_chunk"] = summarized(sar_io.parse_chunk, uniform, element)
        obs[f"{kind}: parse_chunk, two records"] = summarized(
            sar_io.parse_chunk, uniform[: 2 * element], element
        )
        obs[f"{kind}: parse_chunk, size mismatch"] = summarized(
            sar_io.parse_chunk, uniform[:-1], element
        )
        obs[f"{kind}: parse_chunk, empty"] = summarized(sar_io.parse_chunk, b"", element)
        obs[f"{kind}: parse_chunk, wrong element size"] = summarized(
            sar_io.parse_chunk, uniform[: 4 * element], 2 * element
        )
        unknown = bytearray(uniform)
        unknown[5] = 12
        obs[f"{kind}: parse_chunk, unknown record type"] = summarized(
            sar_io.parse_chunk, bytes(unknown), element
        )
        mixed = bytearray(uniform)
        mixed[element + 5] = 21 - RECORDS[kind][1]
        obs[f"{kind}: parse_chunk, type taken from the first record"] = summarized(
            sar_io.parse_chunk, bytes(mixed), element
        )

        for records_per_chunk in [1, 2, 5, 1024]:
            f = LoggingFile(make_descriptor(5, element) + uniform)
            label = f"{kind}: read_metadata, {records_per_chunk} per chunk"
            obs[label] = outcome(
                lambda: [
                    digest(canon(sar_io.read_metadata(f, records_per_chunk=records_per_chunk)))
                ]
            )
            f.seek(0)
            del f.requests[:]
            obs[label + ": records"] = outcome(
                lambda: [
                    (r["record_start"], r["data"], r["sensor_acquisition_date"])
                    for r in sar_io.read_metadata(f, records_per_chunk=records_per_chunk)[1]
                ]
            )
            obs[label + ": requests"] = canon(f.requests)

        f = LoggingFile(make_descriptor(5, element) + uniform[:-3])
        obs[f"{kind}: read_metadata, file too short"] = outcome(
            lambda: digest(canon(sar_io.read_metadata(f, records_per_chunk=2)))
        )
        obs[f"{kind}: read_metadata, file too short: requests"] = canon(f.requests)
        f = LoggingFile(make_descriptor(3, element) + uniform)
        obs[f"{kind}: read_metadata, fewer records announced"] = outcome(
            lambda: digest(canon(sar_io.read_metadata(f, records_per_chunk=2)))
        )
        obs[f"{kind}: read_metadata, fewer records announced: requests"] = canon(f.requests)

    # the metadata dictionaries of the fields are those of the field, for every record
    for kind, (record, _) in RECORDS.items():
        size = header_size(record)
        first = record.parse(make_record(kind, seed=30, length=size))
        second = record.parse(make_record(kind, seed=31, length=size))
        obs[f"{kind}: field metadata is per field"] = canon(
            [
                first["prf"][1] is second["prf"][1],
                first["latitude_of_first_pixel"][1] is first["latitude_of_last_pixel"][1],
                first["prf"][1],
            ]
        )
        obs[f"{kind}: parsed dates are new objects"] = canon(
            first["sensor_acquisition_date"] is not second["sensor_acquisition_date"]
        )

    obs["construct version"] = canon(construct.__version__)

    return obs


# --- recorded from the unchanged code -----------------------------------------
# EXPECTED-BEGIN
EXPECTED = {'construct version': "str:'2.10.70'",
 'processed: array of records': 'ok list digest=0705bb012f9e0a85 record_start=int:0 length=int:200 '
                                'date=datetime:datetime.datetime(2020, 1, 1, 0, 0, 12, 345000) '
                                'data=Container(start=int:192, size=int:8, stop=int:200) | '
                                'digest=b0a7503f124240bf record_start=int:200 length=int:192 '
                                'date=datetime:datetime.datetime(2020, 1, 2, 0, 0, 12, 345000) '
                                'data=Container(start=int:392, size=int:0, stop=int:392) | '
                                'digest=e3acf476a178f0f9 record_start=int:392 length=int:224 '
                                'date=datetime:datetime.datetime(2020, 1, 3, 0, 0, 12, 345000) '
                                'data=Container(start=int:584, size=int:32, stop=int:616)',
 'processed: array of records with short payloads': "raise builtins.ValueError args=('year 12345 "
                                                    "is out of range',) str='year 12345 is out of "
                                                    "range' cause=NoneType context=NoneType "
                                                    'suppress=False',
 'processed: array of records with too small lengths': "raise builtins.OverflowError args=('signed "
                                                       "integer is greater than maximum',) "
                                                       "str='signed integer is greater than "
                                                       "maximum' cause=NoneType context=NoneType "
                                                       'suppress=False',
 'processed: array of records, one too many': "raise construct.core.StreamError args=('Error in "
                                              'path (parsing) -> preamble -> '
                                              'record_sequence_number\\nstream read less than '
                                              "specified amount, expected 4, found 0',) str='Error "
                                              'in path (parsing) -> preamble -> '
                                              'record_sequence_number\\nstream read less than '
                                              "specified amount, expected 4, found 0' "
                                              'cause=NoneType context=NoneType suppress=False',
 'processed: build': "raise builtins.NotImplementedError args=() str='' cause=NoneType "
                     'context=NoneType suppress=False',
 'processed: data structure': 'str:"Renamed(name=\'data\')[Struct(name=None)[Renamed(name=\'start\')[Tell(name=None)]; '
                              "Renamed(name='size')[Computed(name=None, "
                              "func=(this['_']['preamble']['record_length'] - (this['start'] - "
                              "this['_']['record_start'])))]; Renamed(name='stop')[Seek(name=None, "
                              "at=(this['_']['record_start'] + "
                              'this[\'_\'][\'preamble\'][\'record_length\']))]]]"',
 'processed: date day 0': 'ok Container digest=ad3a49b0e42ce6dc record_start=int:0 length=int:200 '
                          'date=datetime:datetime.datetime(2020, 12, 31, 0, 0) '
                          'data=Container(start=int:192, size=int:8, stop=int:200)',
 'processed: date day 0: stream position': 'int:200',
 'processed: date day 366 of a common year': 'ok Container digest=41a904fa29d5b4a4 '
                                             'record_start=int:0 length=int:200 '
                                             'date=datetime:datetime.datetime(2022, 1, 1, 0, 0, 0, '
                                             '1000) data=Container(start=int:192, size=int:8, '
                                             'stop=int:200)',
 'processed: date day 366 of a common year: stream position': 'int:200',
 'processed: date everything at the maximum': "raise builtins.OverflowError args=('signed integer "
                                              "is greater than maximum',) str='signed integer is "
                                              "greater than maximum' cause=NoneType "
                                              'context=NoneType suppress=False',
 'processed: date everything at the maximum: stream position': 'int:48',
 'processed: date field type': 'bool:True',
 'processed: date largest day': "raise builtins.OverflowError args=('Python int too large to "
                                "convert to C int',) str='Python int too large to convert to C "
                                "int' cause=NoneType context=NoneType suppress=False",
 'processed: date largest day: stream position': 'int:48',
 'processed: date largest milliseconds': 'ok Container digest=027283d00cb71a70 record_start=int:0 '
                                         'length=int:200 date=datetime:datetime.datetime(2000, 2, '
                                         '19, 17, 2, 47, 295000) data=Container(start=int:192, '
                                         'size=int:8, stop=int:200)',
 'processed: date largest milliseconds: stream position': 'int:200',
 'processed: date leap day': 'ok Container digest=2ccf5a99d6b112d7 record_start=int:0 '
                             'length=int:200 date=datetime:datetime.datetime(2020, 2, 29, 23, 59, '
                             '59, 999000) data=Container(start=int:192, size=int:8, stop=int:200)',
 'processed: date leap day: stream position': 'int:200',
 'processed: date new year': 'ok Container digest=7cdaec20cefdbffe record_start=int:0 '
                             'length=int:200 date=datetime:datetime.datetime(2020, 1, 1, 0, 0) '
                             'data=Container(start=int:192, size=int:8, stop=int:200)',
 'processed: date new year: stream position': 'int:200',
 'processed: date sizeof': 'ok int:12',
 'processed: date structure': 'str:"Renamed(name=\'sensor_acquisition_date\')[DatetimeYdms(name=None)[Struct(name=None)[Renamed(name=\'year\')[FormatField(name=None, '
                              "fmtstr='>L', length=4)]; "
                              "Renamed(name='day_of_year')[FormatField(name=None, fmtstr='>L', "
                              "length=4)]; Renamed(name='milliseconds')[FormatField(name=None, "
                              'fmtstr=\'>L\', length=4)]]]]"',
 'processed: date year 0': "raise builtins.ValueError args=('year 0 is out of range',) str='year 0 "
                           "is out of range' cause=NoneType context=NoneType suppress=False",
 'processed: date year 0: stream position': 'int:48',
 'processed: date year 1': 'ok Container digest=cb7958989e330267 record_start=int:0 length=int:200 '
                           'date=datetime:datetime.datetime(1, 1, 1, 0, 0) '
                           'data=Container(start=int:192, size=int:8, stop=int:200)',
 'processed: date year 10000': "raise builtins.ValueError args=('year 10000 is out of range',) "
                               "str='year 10000 is out of range' cause=NoneType context=NoneType "
                               'suppress=False',
 'processed: date year 10000: stream position': 'int:48',
 'processed: date year 1: stream position': 'int:200',
 'processed: date year 9999 overflowing': "raise builtins.OverflowError args=('date value out of "
                                          "range',) str='date value out of range' cause=NoneType "
                                          'context=NoneType suppress=False',
 'processed: date year 9999 overflowing: stream position': 'int:48',
 'processed: embedded': "ok str:'ok Container digest=a24b1474609254ba record_start=int:7 "
                        'length=int:216 date=datetime:datetime.datetime(2020, 2, 29, 0, 0, 12, '
                        "345000) data=Container(start=int:199, size=int:24, stop=int:223)'",
 'processed: embedded next': 'ok int:187',
 'processed: embedded short': "raise construct.core.StreamError args=('Error in path (parsing) -> "
                              'next\\nstream read less than specified amount, expected 1, found '
                              "0',) str='Error in path (parsing) -> next\\nstream read less than "
                              "specified amount, expected 1, found 0' cause=NoneType "
                              'context=NoneType suppress=False',
 'processed: enums known': 'ok list[str:"EnumIntegerString:EnumIntegerString.new(1, '
                           '\'single_polarization\')", '
                           'str:"EnumIntegerString:EnumIntegerString.new(0, \'L\')", '
                           'str:"EnumIntegerString:EnumIntegerString.new(0, \'horizontal\')", '
                           'str:"EnumIntegerString:EnumIntegerString.new(1, \'vertical\')"]',
 'processed: enums other known': 'ok list[str:"EnumIntegerString:EnumIntegerString.new(4, '
                                 '\'full_polarization\')", '
                                 'str:"EnumIntegerString:EnumIntegerString.new(5, \'KA\')", '
                                 'str:"EnumIntegerString:EnumIntegerString.new(1, \'vertical\')", '
                                 'str:"EnumIntegerString:EnumIntegerString.new(0, '
                                 '\'horizontal\')"]',
 'processed: enums unknown': "ok list[str:'EnumInteger:3', str:'EnumInteger:6', "
                             "str:'EnumInteger:2', str:'EnumInteger:65535']",
 'processed: field metadata is per field': "list[bool:True, bool:False, dict(units=str:'mHz')]",
 'processed: field names': "list[str:'record_start', str:'preamble', "
                           "str:'sar_image_data_line_number', str:'sar_image_data_record_index', "
                           "str:'actual_count_of_left_fill_pixels', "
                           "str:'actual_count_of_data_pixels', "
                           "str:'actual_count_of_right_fill_pixels', "
                           "str:'sensor_parameters_update_flag', str:'sensor_acquisition_date', "
                           "str:'sar_channel_id', str:'sar_channel_code', "
                           "str:'transmitted_pulse_polarization', "
                           "str:'received_pulse_polarization', str:'prf', str:'scan_id', "
                           "str:'slant_range_to_first_pixel', str:'slant_range_to_mid_pixel', "
                           "str:'slant_range_to_last_pixel', "
                           "str:'doppler_centroid_value_at_first_pixel', "
                           "str:'doppler_centroid_value_at_mid_pixel', "
                           "str:'doppler_centroid_value_at_last_pixel', "
                           "str:'azimuth_fm_rate_of_first_pixel', "
                           "str:'azimuth_fm_rate_of_mid_pixel', "
                           "str:'azimuth_fm_rate_of_last_pixel', str:'look_angle_of_nadir', "
                           "str:'azimuth_squint_angle', str:'blanks1', "
                           "str:'geographic_reference_parameter_update_flag', "
                           "str:'latitude_of_first_pixel', str:'latitude_of_center_pixel', "
                           "str:'latitude_of_last_pixel', str:'longitude_of_first_pixel', "
                           "str:'longitude_of_center_pixel', str:'longitude_of_last_pixel', "
                           "str:'northing_of_first_pixel', str:'blanks2', "
                           "str:'northing_of_last_pixel', str:'easting_of_first_pixel', "
                           "str:'blanks3', str:'easting_of_last_pixel', str:'line_heading', "
                           "str:'blanks4', str:'data']",
 'processed: first fields': 'str:"Struct(name=None)[Renamed(name=\'record_start\')[Tell(name=None)]; '
                            "Renamed(name='preamble')[Struct(name=None)[Renamed(name='record_sequence_number')[FormatField(name=None, "
                            "fmtstr='>L', length=4)]; "
                            "Renamed(name='first_record_subtype')[FormatField(name=None, "
                            "fmtstr='>B', length=1)]; "
                            "Renamed(name='record_type')[FormatField(name=None, fmtstr='>B', "
                            'length=1)]; '
                            "Renamed(name='second_record_subtype')[FormatField(name=None, "
                            "fmtstr='>B', length=1)]; "
                            "Renamed(name='third_record_subtype')[FormatField(name=None, "
                            "fmtstr='>B', length=1)]; "
                            "Renamed(name='record_length')[FormatField(name=None, fmtstr='>L', "
                            'length=4)]]]; '
                            "Renamed(name='sar_image_data_line_number')[FormatField(name=None, "
                            "fmtstr='>L', length=4)]; "
                            "Renamed(name='sar_image_data_record_index')[FormatField(name=None, "
                            "fmtstr='>L', length=4)]; "
                            "Renamed(name='actual_count_of_left_fill_pixels')[FormatField(name=None, "
                            "fmtstr='>L', length=4)]; "
                            "Renamed(name='actual_count_of_data_pixels')[FormatField(name=None, "
                            "fmtstr='>L', length=4)]; "
                            "Renamed(name='actual_count_of_right_fill_pixels')[FormatField(name=None, "
                            "fmtstr='>L', length=4)]; "
                            "Renamed(name='sensor_parameters_update_flag')[FormatField(name=None, "
                            "fmtstr='>L', length=4)]; "
                            "Renamed(name='sensor_acquisition_date')[DatetimeYdms(name=None)[Struct(name=None)[Renamed(name='year')[FormatField(name=None, "
                            "fmtstr='>L', length=4)]; "
                            "Renamed(name='day_of_year')[FormatField(name=None, fmtstr='>L', "
                            "length=4)]; Renamed(name='milliseconds')[FormatField(name=None, "
                            'fmtstr=\'>L\', length=4)]]]]]"',
 'processed: header only': 'ok Container digest=8d009f9b6a6c7b79 record_start=int:0 length=int:200 '
                           'date=datetime:datetime.datetime(2020, 2, 29, 0, 0, 12, 345000) '
                           'data=Container(start=int:192, size=int:8, stop=int:200)',
 'processed: header size': 'ok int:192',
 'processed: last fields': 'str:"Struct(name=None)[Renamed(name=\'line_heading\')[Metadata(name=None, '
                           "attrs={'units': 'deg'})[Factor(name=None, "
                           "factor=1e-06)[FormatField(name=None, fmtstr='>L', length=4)]]]; "
                           "Renamed(name='blanks4')[StripNullBytes(name=None)[Bytes(name=None, "
                           'length=8)]]; '
                           "Renamed(name='data')[Struct(name=None)[Renamed(name='start')[Tell(name=None)]; "
                           "Renamed(name='size')[Computed(name=None, "
                           "func=(this['_']['preamble']['record_length'] - (this['start'] - "
                           "this['_']['record_start'])))]; Renamed(name='stop')[Seek(name=None, "
                           "at=(this['_']['record_start'] + "
                           'this[\'_\'][\'preamble\'][\'record_length\']))]]]]"',
 'processed: length < header': 'ok Container digest=72b673b97fd9f199 record_start=int:0 '
                               'length=int:12 date=datetime:datetime.datetime(2020, 2, 29, 0, 0, '
                               '12, 345000) data=Container(start=int:192, size=int:-180, '
                               'stop=int:12)',
 'processed: length < header: stream position': 'int:12',
 'processed: length == 0': 'ok Container digest=699b220ee7b40a95 record_start=int:0 length=int:0 '
                           'date=datetime:datetime.datetime(2020, 2, 29, 0, 0, 12, 345000) '
                           'data=Container(start=int:192, size=int:-192, stop=int:0)',
 'processed: length == 0: stream position': 'int:0',
 'processed: length == 2**32 - 1': 'ok Container digest=24a015e99725d00a record_start=int:0 '
                                   'length=int:4294967295 date=datetime:datetime.datetime(2020, 2, '
                                   '29, 0, 0, 12, 345000) data=Container(start=int:192, '
                                   'size=int:4294967103, stop=int:4294967295)',
 'processed: length == 2**32 - 1: stream position': 'int:4294967295',
 'processed: length == header': 'ok Container digest=f736783a619898e0 record_start=int:0 '
                                'length=int:192 date=datetime:datetime.datetime(2020, 2, 29, 0, 0, '
                                '12, 345000) data=Container(start=int:192, size=int:0, '
                                'stop=int:192)',
 'processed: length == header + 1': 'ok Container digest=e828ccccbc00655d record_start=int:0 '
                                    'length=int:193 date=datetime:datetime.datetime(2020, 2, 29, '
                                    '0, 0, 12, 345000) data=Container(start=int:192, size=int:1, '
                                    'stop=int:193)',
 'processed: length == header + 1: stream position': 'int:193',
 'processed: length == header: stream position': 'int:192',
 'processed: length beyond the stream': 'ok Container digest=636924173a203d06 record_start=int:0 '
                                        'length=int:10192 date=datetime:datetime.datetime(2020, 2, '
                                        '29, 0, 0, 12, 345000) data=Container(start=int:192, '
                                        'size=int:10000, stop=int:10192)',
 'processed: length beyond the stream: stream position': 'int:10192',
 'processed: offset stream': 'ok Container digest=a24b1474609254ba record_start=int:7 '
                             'length=int:216 date=datetime:datetime.datetime(2020, 2, 29, 0, 0, '
                             '12, 345000) data=Container(start=int:199, size=int:24, stop=int:223)',
 'processed: offset stream: stream position': 'int:223',
 'processed: parse_chunk': 'ok list digest=23df7cba14148a47 record_start=int:0 length=int:208 '
                           'date=datetime:datetime.datetime(2020, 2, 29, 0, 0) '
                           'data=Container(start=int:192, size=int:16, stop=int:208) | '
                           'digest=0a30e18e47dd7456 record_start=int:208 length=int:208 '
                           'date=datetime:datetime.datetime(2020, 2, 29, 0, 0, 1) '
                           'data=Container(start=int:400, size=int:16, stop=int:416) | '
                           'digest=f037a87f741b0aa1 record_start=int:416 length=int:208 '
                           'date=datetime:datetime.datetime(2020, 2, 29, 0, 0, 2) '
                           'data=Container(start=int:608, size=int:16, stop=int:624) | '
                           'digest=3d5972557fde8ff9 record_start=int:624 length=int:208 '
                           'date=datetime:datetime.datetime(2020, 2, 29, 0, 0, 3) '
                           'data=Container(start=int:816, size=int:16, stop=int:832) | '
                           'digest=9697ea897397f019 record_start=int:832 length=int:208 '
                           'date=datetime:datetime.datetime(2020, 2, 29, 0, 0, 4) '
                           'data=Container(start=int:1024, size=int:16, stop=int:1040)',
 'processed: parse_chunk, empty': "raise construct.core.StreamError args=('Error in path (parsing) "
                                  '-> record_sequence_number\\nstream read less than specified '
                                  "amount, expected 4, found 0',) str='Error in path (parsing) -> "
                                  'record_sequence_number\\nstream read less than specified '
                                  "amount, expected 4, found 0' cause=NoneType context=NoneType "
                                  'suppress=False',
 'processed: parse_chunk, size mismatch': "raise builtins.ValueError args=('sizes mismatch: "
                                          "chunksize is 832 but got 1039 bytes',) str='sizes "
                                          "mismatch: chunksize is 832 but got 1039 bytes' "
                                          'cause=NoneType context=NoneType suppress=False',
 'processed: parse_chunk, two records': 'ok list digest=23df7cba14148a47 record_start=int:0 '
                                        'length=int:208 date=datetime:datetime.datetime(2020, 2, '
                                        '29, 0, 0) data=Container(start=int:192, size=int:16, '
                                        'stop=int:208) | digest=0a30e18e47dd7456 '
                                        'record_start=int:208 length=int:208 '
                                        'date=datetime:datetime.datetime(2020, 2, 29, 0, 0, 1) '
                                        'data=Container(start=int:400, size=int:16, stop=int:416)',
 'processed: parse_chunk, type taken from the first record': 'ok list digest=23df7cba14148a47 '
                                                             'record_start=int:0 length=int:208 '
                                                             'date=datetime:datetime.datetime(2020, '
                                                             '2, 29, 0, 0) '
                                                             'data=Container(start=int:192, '
                                                             'size=int:16, stop=int:208) | '
                                                             'digest=fc52de94e0b03112 '
                                                             'record_start=int:208 length=int:208 '
                                                             'date=datetime:datetime.datetime(2020, '
                                                             '2, 29, 0, 0, 1) '
                                                             'data=Container(start=int:400, '
                                                             'size=int:16, stop=int:416) | '
                                                             'digest=f037a87f741b0aa1 '
                                                             'record_start=int:416 length=int:208 '
                                                             'date=datetime:datetime.datetime(2020, '
                                                             '2, 29, 0, 0, 2) '
                                                             'data=Container(start=int:608, '
                                                             'size=int:16, stop=int:624) | '
                                                             'digest=3d5972557fde8ff9 '
                                                             'record_start=int:624 length=int:208 '
                                                             'date=datetime:datetime.datetime(2020, '
                                                             '2, 29, 0, 0, 3) '
                                                             'data=Container(start=int:816, '
                                                             'size=int:16, stop=int:832) | '
                                                             'digest=9697ea897397f019 '
                                                             'record_start=int:832 length=int:208 '
                                                             'date=datetime:datetime.datetime(2020, '
                                                             '2, 29, 0, 0, 4) '
                                                             'data=Container(start=int:1024, '
                                                             'size=int:16, stop=int:1040)',
 'processed: parse_chunk, unknown record type': "raise builtins.ValueError args=('unknown record "
                                                "type code: 12',) str='unknown record type code: "
                                                "12' cause=NoneType context=NoneType "
                                                'suppress=False',
 'processed: parse_chunk, wrong element size': 'ok list digest=23df7cba14148a47 record_start=int:0 '
                                               'length=int:208 '
                                               'date=datetime:datetime.datetime(2020, 2, 29, 0, 0) '
                                               'data=Container(start=int:192, size=int:16, '
                                               'stop=int:208) | digest=0a30e18e47dd7456 '
                                               'record_start=int:208 length=int:208 '
                                               'date=datetime:datetime.datetime(2020, 2, 29, 0, 0, '
                                               '1) data=Container(start=int:400, size=int:16, '
                                               'stop=int:416)',
 'processed: parsed dates are new objects': 'bool:True',
 'processed: position of date and data': 'list[int:8, int:42, int:43]',
 'processed: preamble is the common one': 'bool:True',
 'processed: read_metadata, 1 per chunk': "ok list[str:'ae7d82ebbac173a9']",
 'processed: read_metadata, 1 per chunk: records': 'ok list[tuple[int:720, dict(start=int:912, '
                                                   'size=int:16, stop=int:928), '
                                                   'datetime:datetime.datetime(2020, 2, 29, 0, '
                                                   '0)], tuple[int:928, dict(start=int:1120, '
                                                   'size=int:16, stop=int:1136), '
                                                   'datetime:datetime.datetime(2020, 2, 29, 0, 0, '
                                                   '1)], tuple[int:1136, dict(start=int:1328, '
                                                   'size=int:16, stop=int:1344), '
                                                   'datetime:datetime.datetime(2020, 2, 29, 0, 0, '
                                                   '2)], tuple[int:1344, dict(start=int:1536, '
                                                   'size=int:16, stop=int:1552), '
                                                   'datetime:datetime.datetime(2020, 2, 29, 0, 0, '
                                                   '3)], tuple[int:1552, dict(start=int:1744, '
                                                   'size=int:16, stop=int:1760), '
                                                   'datetime:datetime.datetime(2020, 2, 29, 0, 0, '
                                                   '4)]]',
 'processed: read_metadata, 1 per chunk: requests': "list[tuple[str:'read', int:0, int:720], "
                                                    "tuple[str:'read', int:720, int:208], "
                                                    "tuple[str:'read', int:928, int:208], "
                                                    "tuple[str:'read', int:1136, int:208], "
                                                    "tuple[str:'read', int:1344, int:208], "
                                                    "tuple[str:'read', int:1552, int:208]]",
 'processed: read_metadata, 1024 per chunk': "ok list[str:'ae7d82ebbac173a9']",
 'processed: read_metadata, 1024 per chunk: records': 'ok list[tuple[int:720, dict(start=int:912, '
                                                      'size=int:16, stop=int:928), '
                                                      'datetime:datetime.datetime(2020, 2, 29, 0, '
                                                      '0)], tuple[int:928, dict(start=int:1120, '
                                                      'size=int:16, stop=int:1136), '
                                                      'datetime:datetime.datetime(2020, 2, 29, 0, '
                                                      '0, 1)], tuple[int:1136, '
                                                      'dict(start=int:1328, size=int:16, '
                                                      'stop=int:1344), '
                                                      'datetime:datetime.datetime(2020, 2, 29, 0, '
                                                      '0, 2)], tuple[int:1344, '
                                                      'dict(start=int:1536, size=int:16, '
                                                      'stop=int:1552), '
                                                      'datetime:datetime.datetime(2020, 2, 29, 0, '
                                                      '0, 3)], tuple[int:1552, '
                                                      'dict(start=int:1744, size=int:16, '
                                                      'stop=int:1760), '
                                                      'datetime:datetime.datetime(2020, 2, 29, 0, '
                                                      '0, 4)]]',
 'processed: read_metadata, 1024 per chunk: requests': "list[tuple[str:'read', int:0, int:720], "
                                                       "tuple[str:'read', int:720, int:1040]]",
 'processed: read_metadata, 2 per chunk': "ok list[str:'ae7d82ebbac173a9']",
 'processed: read_metadata, 2 per chunk: records': 'ok list[tuple[int:720, dict(start=int:912, '
                                                   'size=int:16, stop=int:928), '
                                                   'datetime:datetime.datetime(2020, 2, 29, 0, '
                                                   '0)], tuple[int:928, dict(start=int:1120, '
                                                   'size=int:16, stop=int:1136), '
                                                   'datetime:datetime.datetime(2020, 2, 29, 0, 0, '
                                                   '1)], tuple[int:1136, dict(start=int:1328, '
                                                   'size=int:16, stop=int:1344), '
                                                   'datetime:datetime.datetime(2020, 2, 29, 0, 0, '
                                                   '2)], tuple[int:1344, dict(start=int:1536, '
                                                   'size=int:16, stop=int:1552), '
                                                   'datetime:datetime.datetime(2020, 2, 29, 0, 0, '
                                                   '3)], tuple[int:1552, dict(start=int:1744, '
                                                   'size=int:16, stop=int:1760), '
                                                   'datetime:datetime.datetime(2020, 2, 29, 0, 0, '
                                                   '4)]]',
 'processed: read_metadata, 2 per chunk: requests': "list[tuple[str:'read', int:0, int:720], "
                                                    "tuple[str:'read', int:720, int:416], "
                                                    "tuple[str:'read', int:1136, int:416], "
                                                    "tuple[str:'read', int:1552, int:208]]",
 'processed: read_metadata, 5 per chunk': "ok list[str:'ae7d82ebbac173a9']",
 'processed: read_metadata, 5 per chunk: records': 'ok list[tuple[int:720, dict(start=int:912, '
                                                   'size=int:16, stop=int:928), '
                                                   'datetime:datetime.datetime(2020, 2, 29, 0, '
                                                   '0)], tuple[int:928, dict(start=int:1120, '
                                                   'size=int:16, stop=int:1136), '
                                                   'datetime:datetime.datetime(2020, 2, 29, 0, 0, '
                                                   '1)], tuple[int:1136, dict(start=int:1328, '
                                                   'size=int:16, stop=int:1344), '
                                                   'datetime:datetime.datetime(2020, 2, 29, 0, 0, '
                                                   '2)], tuple[int:1344, dict(start=int:1536, '
                                                   'size=int:16, stop=int:1552), '
                                                   'datetime:datetime.datetime(2020, 2, 29, 0, 0, '
                                                   '3)], tuple[int:1552, dict(start=int:1744, '
                                                   'size=int:16, stop=int:1760), '
                                                   'datetime:datetime.datetime(2020, 2, 29, 0, 0, '
                                                   '4)]]',
 'processed: read_metadata, 5 per chunk: requests': "list[tuple[str:'read', int:0, int:720], "
                                                    "tuple[str:'read', int:720, int:1040]]",
 'processed: read_metadata, fewer records announced': "ok str:'8813ce161ccd1b7b'",
 'processed: read_metadata, fewer records announced: requests': "list[tuple[str:'read', int:0, "
                                                                "int:720], tuple[str:'read', "
                                                                'int:720, int:416], '
                                                                "tuple[str:'read', int:1136, "
                                                                'int:208]]',
 'processed: read_metadata, file too short': "raise builtins.ValueError args=('sizes mismatch: "
                                             "chunksize is 0 but got 205 bytes',) str='sizes "
                                             "mismatch: chunksize is 0 but got 205 bytes' "
                                             'cause=NoneType context=NoneType suppress=False',
 'processed: read_metadata, file too short: requests': "list[tuple[str:'read', int:0, int:720], "
                                                       "tuple[str:'read', int:720, int:416], "
                                                       "tuple[str:'read', int:1136, int:416], "
                                                       "tuple[str:'read', int:1552, int:208]]",
 'processed: sizeof': "raise construct.core.SizeofError args=('Error in path (sizeof) -> data -> "
                      "stop\\nSeek only moves the stream, size is not meaningful',) str='Error in "
                      'path (sizeof) -> data -> stop\\nSeek only moves the stream, size is not '
                      "meaningful' cause=NoneType context=NoneType suppress=False",
 'processed: structure digest': "str:'fb44a406ae1f1406'",
 'processed: truncated at 0': "raise construct.core.StreamError args=('Error in path (parsing) -> "
                              'preamble -> record_sequence_number\\nstream read less than '
                              "specified amount, expected 4, found 0',) str='Error in path "
                              '(parsing) -> preamble -> record_sequence_number\\nstream read less '
                              "than specified amount, expected 4, found 0' cause=NoneType "
                              'context=NoneType suppress=False',
 'processed: truncated at 0: stream position': 'int:0',
 'processed: truncated at 11': "raise construct.core.StreamError args=('Error in path (parsing) -> "
                               'preamble -> record_length\\nstream read less than specified '
                               "amount, expected 4, found 3',) str='Error in path (parsing) -> "
                               'preamble -> record_length\\nstream read less than specified '
                               "amount, expected 4, found 3' cause=NoneType context=NoneType "
                               'suppress=False',
 'processed: truncated at 11: stream position': 'int:11',
 'processed: truncated at 12': "raise construct.core.StreamError args=('Error in path (parsing) -> "
                               'sar_image_data_line_number\\nstream read less than specified '
                               "amount, expected 4, found 0',) str='Error in path (parsing) -> "
                               'sar_image_data_line_number\\nstream read less than specified '
                               "amount, expected 4, found 0' cause=NoneType context=NoneType "
                               'suppress=False',
 'processed: truncated at 12: stream position': 'int:12',
 'processed: truncated at 188': "raise construct.core.StreamError args=('Error in path (parsing) "
                                '-> blanks4\\nstream read less than specified amount, expected 8, '
                                "found 4',) str='Error in path (parsing) -> blanks4\\nstream read "
                                "less than specified amount, expected 8, found 4' cause=NoneType "
                                'context=NoneType suppress=False',
 'processed: truncated at 188: stream position': 'int:188',
 'processed: truncated at 191': "raise construct.core.StreamError args=('Error in path (parsing) "
                                '-> blanks4\\nstream read less than specified amount, expected 8, '
                                "found 7',) str='Error in path (parsing) -> blanks4\\nstream read "
                                "less than specified amount, expected 8, found 7' cause=NoneType "
                                'context=NoneType suppress=False',
 'processed: truncated at 191: stream position': 'int:191',
 'processed: truncated at 192': 'ok Container digest=8d009f9b6a6c7b79 record_start=int:0 '
                                'length=int:200 date=datetime:datetime.datetime(2020, 2, 29, 0, 0, '
                                '12, 345000) data=Container(start=int:192, size=int:8, '
                                'stop=int:200)',
 'processed: truncated at 192: stream position': 'int:200',
 'processed: truncated at 3': "raise construct.core.StreamError args=('Error in path (parsing) -> "
                              'preamble -> record_sequence_number\\nstream read less than '
                              "specified amount, expected 4, found 3',) str='Error in path "
                              '(parsing) -> preamble -> record_sequence_number\\nstream read less '
                              "than specified amount, expected 4, found 3' cause=NoneType "
                              'context=NoneType suppress=False',
 'processed: truncated at 35': "raise construct.core.StreamError args=('Error in path (parsing) -> "
                               'sensor_parameters_update_flag\\nstream read less than specified '
                               "amount, expected 4, found 3',) str='Error in path (parsing) -> "
                               'sensor_parameters_update_flag\\nstream read less than specified '
                               "amount, expected 4, found 3' cause=NoneType context=NoneType "
                               'suppress=False',
 'processed: truncated at 35: stream position': 'int:35',
 'processed: truncated at 36': "raise construct.core.StreamError args=('Error in path (parsing) -> "
                               'sensor_acquisition_date -> year\\nstream read less than specified '
                               "amount, expected 4, found 0',) str='Error in path (parsing) -> "
                               'sensor_acquisition_date -> year\\nstream read less than specified '
                               "amount, expected 4, found 0' cause=NoneType context=NoneType "
                               'suppress=False',
 'processed: truncated at 36: stream position': 'int:36',
 'processed: truncated at 39': "raise construct.core.StreamError args=('Error in path (parsing) -> "
                               'sensor_acquisition_date -> year\\nstream read less than specified '
                               "amount, expected 4, found 3',) str='Error in path (parsing) -> "
                               'sensor_acquisition_date -> year\\nstream read less than specified '
                               "amount, expected 4, found 3' cause=NoneType context=NoneType "
                               'suppress=False',
 'processed: truncated at 39: stream position': 'int:39',
 'processed: truncated at 3: stream position': 'int:3',
 'processed: truncated at 40': "raise construct.core.StreamError args=('Error in path (parsing) -> "
                               'sensor_acquisition_date -> day_of_year\\nstream read less than '
                               "specified amount, expected 4, found 0',) str='Error in path "
                               '(parsing) -> sensor_acquisition_date -> day_of_year\\nstream read '
                               "less than specified amount, expected 4, found 0' cause=NoneType "
                               'context=NoneType suppress=False',
 'processed: truncated at 40: stream position': 'int:40',
 'processed: truncated at 47': "raise construct.core.StreamError args=('Error in path (parsing) -> "
                               'sensor_acquisition_date -> milliseconds\\nstream read less than '
                               "specified amount, expected 4, found 3',) str='Error in path "
                               '(parsing) -> sensor_acquisition_date -> milliseconds\\nstream read '
                               "less than specified amount, expected 4, found 3' cause=NoneType "
                               'context=NoneType suppress=False',
 'processed: truncated at 47: stream position': 'int:47',
 'processed: truncated at 48': "raise construct.core.StreamError args=('Error in path (parsing) -> "
                               'sar_channel_id\\nstream read less than specified amount, expected '
                               "2, found 0',) str='Error in path (parsing) -> "
                               'sar_channel_id\\nstream read less than specified amount, expected '
                               "2, found 0' cause=NoneType context=NoneType suppress=False",
 'processed: truncated at 48: stream position': 'int:48',
 'processed: truncated at 49': "raise construct.core.StreamError args=('Error in path (parsing) -> "
                               'sar_channel_id\\nstream read less than specified amount, expected '
                               "2, found 1',) str='Error in path (parsing) -> "
                               'sar_channel_id\\nstream read less than specified amount, expected '
                               "2, found 1' cause=NoneType context=NoneType suppress=False",
 'processed: truncated at 49: stream position': 'int:49',
 'processed: truncated at 80': "raise construct.core.StreamError args=('Error in path (parsing) -> "
                               'doppler_centroid_value_at_mid_pixel\\nstream read less than '
                               "specified amount, expected 4, found 0',) str='Error in path "
                               '(parsing) -> doppler_centroid_value_at_mid_pixel\\nstream read '
                               "less than specified amount, expected 4, found 0' cause=NoneType "
                               'context=NoneType suppress=False',
 'processed: truncated at 80: stream position': 'int:80',
 'processed: type': "str:'Struct'",
 'processed: typical record': 'ok Container(record_start=int:0, '
                              'preamble=Container(record_sequence_number=int:1, '
                              'first_record_subtype=int:50, record_type=int:11, '
                              'second_record_subtype=int:18, third_record_subtype=int:20, '
                              'record_length=int:232), sar_image_data_line_number=int:2791426357, '
                              'sar_image_data_record_index=int:410781668, '
                              'actual_count_of_left_fill_pixels=int:3580063387, '
                              'actual_count_of_data_pixels=int:3284402354, '
                              'actual_count_of_right_fill_pixels=int:1917106381, '
                              'sensor_parameters_update_flag=int:983036186, '
                              'sensor_acquisition_date=datetime:datetime.datetime(2020, 2, 29, 0, '
                              '0, 12, 345000), sar_channel_id=EnumInteger:14328, '
                              'sar_channel_code=EnumInteger:27833, '
                              'transmitted_pulse_polarization=EnumInteger:1927, '
                              'received_pulse_polarization=EnumInteger:14531, '
                              "prf=tuple[int:1894809229, dict(units=str:'mHz')], "
                              'scan_id=int:995638189, '
                              'slant_range_to_first_pixel=tuple[int:952268275, '
                              "dict(units=str:'m')], "
                              'slant_range_to_mid_pixel=tuple[int:1257047402, '
                              "dict(units=str:'m')], "
                              'slant_range_to_last_pixel=tuple[int:3605696236, '
                              "dict(units=str:'m')], "
                              'doppler_centroid_value_at_first_pixel=tuple[float:2753114.017, '
                              "dict(units=str:'Hz')], "
                              'doppler_centroid_value_at_mid_pixel=tuple[float:4273593.419, '
                              "dict(units=str:'Hz')], "
                              'doppler_centroid_value_at_last_pixel=tuple[float:515790.309, '
                              "dict(units=str:'Hz')], "
                              'azimuth_fm_rate_of_first_pixel=tuple[int:3103372928, '
                              "dict(units=str:'Hz/ms')], "
                              'azimuth_fm_rate_of_mid_pixel=tuple[int:4025969793, '
                              "dict(units=str:'Hz/ms')], "
                              'azimuth_fm_rate_of_last_pixel=tuple[int:3572083504, '
                              "dict(units=str:'Hz/ms')], "
                              'look_angle_of_nadir=tuple[float:1296.602873, '
                              "dict(units=str:'deg')], "
                              'azimuth_squint_angle=tuple[float:3783.252208, '
                              "dict(units=str:'deg')], "
                              "blanks1=bytes:b'\\x81d\\x96\\xda\\x08z>\\xbe\\xccgj\\xaa,]\\x8c\\xe1\\xb3\\xc6\\xac\\xbc', "
                              'geographic_reference_parameter_update_flag=int:1595306153, '
                              'latitude_of_first_pixel=tuple[float:2182.858537, '
                              "dict(units=str:'deg')], "
                              'latitude_of_center_pixel=tuple[float:2245.485662, '
                              "dict(units=str:'deg')], "
                              'latitude_of_last_pixel=tuple[float:2109.4091439999997, '
                              "dict(units=str:'deg')], "
                              'longitude_of_first_pixel=tuple[float:189.707481, '
                              "dict(units=str:'deg')], "
                              'longitude_of_center_pixel=tuple[float:4221.409172, '
                              "dict(units=str:'deg')], "
                              'longitude_of_last_pixel=tuple[float:1688.546091, '
                              "dict(units=str:'deg')], "
                              "northing_of_first_pixel=tuple[int:2151348995, dict(units=str:'m')], "
                              "blanks2=bytes:b'\\xc53\\x8a\\xeb', "
                              "northing_of_last_pixel=tuple[int:3700177767, dict(units=str:'m')], "
                              "easting_of_first_pixel=tuple[int:2203644888, dict(units=str:'m')], "
                              "blanks3=bytes:b'\\x93Zu\\xe8', "
                              "easting_of_last_pixel=tuple[int:1151896731, dict(units=str:'m')], "
                              "line_heading=tuple[float:4122.60797, dict(units=str:'deg')], "
                              "blanks4=bytes:b'\\xc8\\xdb\\xd2\\xf4\\xe2\\xf0\\xbd\\x83', "
                              'data=Container(start=int:192, size=int:40, stop=int:232))',
 'processed: typical record summary': 'ok Container digest=c3aeb5c5ed561f00 record_start=int:0 '
                                      'length=int:232 date=datetime:datetime.datetime(2020, 2, 29, '
                                      '0, 0, 12, 345000) data=Container(start=int:192, '
                                      'size=int:40, stop=int:232)',
 'processed_data: public names': "list[str:'Bytes', str:'Computed', str:'DatetimeYdms', "
                                 "str:'Factor', str:'Int32ub', str:'Metadata', str:'Seek', "
                                 "str:'StripNullBytes', str:'Struct', str:'Tell', "
                                 "str:'processed_data_record', str:'pulse_polarization', "
                                 "str:'record_preamble', str:'sar_channel_code', "
                                 "str:'sar_channel_id', str:'this']",
 'record types table': 'list[list[int:10, int:11], bool:True, bool:True]',
 'records do not share the data field': 'bool:True',
 'records do not share the date field': 'bool:True',
 'signal flag fields': 'list[bool:True, bool:True]',
 'signal: array of records': 'ok list digest=c3df9a512fae680a record_start=int:0 length=int:552 '
                             'date=datetime:datetime.datetime(2020, 1, 1, 0, 0, 12, 345000) '
                             'data=Container(start=int:544, size=int:8, stop=int:552) | '
                             'digest=eafba12adc7408b6 record_start=int:552 length=int:544 '
                             'date=datetime:datetime.datetime(2020, 1, 2, 0, 0, 12, 345000) '
                             'data=Container(start=int:1096, size=int:0, stop=int:1096) | '
                             'digest=0d3637b0df47ab33 record_start=int:1096 length=int:576 '
                             'date=datetime:datetime.datetime(2020, 1, 3, 0, 0, 12, 345000) '
                             'data=Container(start=int:1640, size=int:32, stop=int:1672)',
 'signal: array of records with short payloads': "raise builtins.ValueError args=('year 12345 is "
                                                 "out of range',) str='year 12345 is out of range' "
                                                 'cause=NoneType context=NoneType suppress=False',
 'signal: array of records with too small lengths': "raise builtins.OverflowError args=('signed "
                                                    "integer is greater than maximum',) "
                                                    "str='signed integer is greater than maximum' "
                                                    'cause=NoneType context=NoneType '
                                                    'suppress=False',
 'signal: array of records, one too many': "raise construct.core.StreamError args=('Error in path "
                                           '(parsing) -> preamble -> '
                                           'record_sequence_number\\nstream read less than '
                                           "specified amount, expected 4, found 0',) str='Error in "
                                           'path (parsing) -> preamble -> '
                                           'record_sequence_number\\nstream read less than '
                                           "specified amount, expected 4, found 0' cause=NoneType "
                                           'context=NoneType suppress=False',
 'signal: build': "raise builtins.NotImplementedError args=() str='' cause=NoneType "
                  'context=NoneType suppress=False',
 'signal: data structure': 'str:"Renamed(name=\'data\')[Struct(name=None)[Renamed(name=\'start\')[Tell(name=None)]; '
                           "Renamed(name='size')[Computed(name=None, "
                           "func=(this['_']['preamble']['record_length'] - (this['start'] - "
                           "this['_']['record_start'])))]; Renamed(name='stop')[Seek(name=None, "
                           "at=(this['_']['record_start'] + "
                           'this[\'_\'][\'preamble\'][\'record_length\']))]]]"',
 'signal: date day 0': 'ok Container digest=d113b32eb83086e3 record_start=int:0 length=int:552 '
                       'date=datetime:datetime.datetime(2020, 12, 31, 0, 0) '
                       'data=Container(start=int:544, size=int:8, stop=int:552)',
 'signal: date day 0: stream position': 'int:552',
 'signal: date day 366 of a common year': 'ok Container digest=1f0a8ac599c71f99 record_start=int:0 '
                                          'length=int:552 date=datetime:datetime.datetime(2022, 1, '
                                          '1, 0, 0, 0, 1000) data=Container(start=int:544, '
                                          'size=int:8, stop=int:552)',
 'signal: date day 366 of a common year: stream position': 'int:552',
 'signal: date everything at the maximum': "raise builtins.OverflowError args=('signed integer is "
                                           "greater than maximum',) str='signed integer is greater "
                                           "than maximum' cause=NoneType context=NoneType "
                                           'suppress=False',
 'signal: date everything at the maximum: stream position': 'int:48',
 'signal: date field type': 'bool:True',
 'signal: date largest day': "raise builtins.OverflowError args=('Python int too large to convert "
                             "to C int',) str='Python int too large to convert to C int' "
                             'cause=NoneType context=NoneType suppress=False',
 'signal: date largest day: stream position': 'int:48',
 'signal: date largest milliseconds': 'ok Container digest=32421815ea388ead record_start=int:0 '
                                      'length=int:552 date=datetime:datetime.datetime(2000, 2, 19, '
                                      '17, 2, 47, 295000) data=Container(start=int:544, '
                                      'size=int:8, stop=int:552)',
 'signal: date largest milliseconds: stream position': 'int:552',
 'signal: date leap day': 'ok Container digest=e451c78d646450a8 record_start=int:0 length=int:552 '
                          'date=datetime:datetime.datetime(2020, 2, 29, 23, 59, 59, 999000) '
                          'data=Container(start=int:544, size=int:8, stop=int:552)',
 'signal: date leap day: stream position': 'int:552',
 'signal: date new year': 'ok Container digest=0c4788387bf1b17e record_start=int:0 length=int:552 '
                          'date=datetime:datetime.datetime(2020, 1, 1, 0, 0) '
                          'data=Container(start=int:544, size=int:8, stop=int:552)',
 'signal: date new year: stream position': 'int:552',
 'signal: date sizeof': 'ok int:12',
 'signal: date structure': 'str:"Renamed(name=\'sensor_acquisition_date\')[DatetimeYdms(name=None)[Struct(name=None)[Renamed(name=\'year\')[FormatField(name=None, '
                           "fmtstr='>L', length=4)]; "
                           "Renamed(name='day_of_year')[FormatField(name=None, fmtstr='>L', "
                           "length=4)]; Renamed(name='milliseconds')[FormatField(name=None, "
                           'fmtstr=\'>L\', length=4)]]]]"',
 'signal: date year 0': "raise builtins.ValueError args=('year 0 is out of range',) str='year 0 is "
                        "out of range' cause=NoneType context=NoneType suppress=False",
 'signal: date year 0: stream position': 'int:48',
 'signal: date year 1': 'ok Container digest=de65f51988525bac record_start=int:0 length=int:552 '
                        'date=datetime:datetime.datetime(1, 1, 1, 0, 0) '
                        'data=Container(start=int:544, size=int:8, stop=int:552)',
 'signal: date year 10000': "raise builtins.ValueError args=('year 10000 is out of range',) "
                            "str='year 10000 is out of range' cause=NoneType context=NoneType "
                            'suppress=False',
 'signal: date year 10000: stream position': 'int:48',
 'signal: date year 1: stream position': 'int:552',
 'signal: date year 9999 overflowing': "raise builtins.OverflowError args=('date value out of "
                                       "range',) str='date value out of range' cause=NoneType "
                                       'context=NoneType suppress=False',
 'signal: date year 9999 overflowing: stream position': 'int:48',
 'signal: embedded': "ok str:'ok Container digest=deabe1f519f7cc69 record_start=int:7 "
                     'length=int:568 date=datetime:datetime.datetime(2020, 2, 29, 0, 0, 12, '
                     "345000) data=Container(start=int:551, size=int:24, stop=int:575)'",
 'signal: embedded next': 'ok int:187',
 'signal: embedded short': "raise construct.core.StreamError args=('Error in path (parsing) -> "
                           "next\\nstream read less than specified amount, expected 1, found 0',) "
                           "str='Error in path (parsing) -> next\\nstream read less than specified "
                           "amount, expected 1, found 0' cause=NoneType context=NoneType "
                           'suppress=False',
 'signal: enums known': 'ok list[str:"EnumIntegerString:EnumIntegerString.new(1, '
                        '\'single_polarization\')", '
                        'str:"EnumIntegerString:EnumIntegerString.new(0, \'L\')", '
                        'str:"EnumIntegerString:EnumIntegerString.new(0, \'horizontal\')", '
                        'str:"EnumIntegerString:EnumIntegerString.new(1, \'vertical\')"]',
 'signal: enums other known': 'ok list[str:"EnumIntegerString:EnumIntegerString.new(4, '
                              '\'full_polarization\')", '
                              'str:"EnumIntegerString:EnumIntegerString.new(5, \'KA\')", '
                              'str:"EnumIntegerString:EnumIntegerString.new(1, \'vertical\')", '
                              'str:"EnumIntegerString:EnumIntegerString.new(0, \'horizontal\')"]',
 'signal: enums unknown': "ok list[str:'EnumInteger:3', str:'EnumInteger:6', str:'EnumInteger:2', "
                          "str:'EnumInteger:65535']",
 'signal: field metadata is per field': "list[bool:True, bool:False, dict(units=str:'mHz')]",
 'signal: field names': "list[str:'record_start', str:'preamble', "
                        "str:'sar_image_data_line_number', str:'sar_image_data_record_index', "
                        "str:'actual_count_of_left_fill_pixels', "
                        "str:'actual_count_of_data_pixels', "
                        "str:'actual_count_of_right_fill_pixels', "
                        "str:'sensor_parameters_update_flag', str:'sensor_acquisition_date', "
                        "str:'sar_channel_id', str:'sar_channel_code', "
                        "str:'transmitted_pulse_polarization', str:'received_pulse_polarization', "
                        "str:'prf', str:'scan_id', str:'onboard_range_compressed_flag', "
                        "str:'chirp_type_designator', str:'chirp_length', "
                        "str:'chirp_constant_coefficient', str:'chirp_linear_coefficient', "
                        "str:'chirp_quadratic_coefficient', "
                        "str:'sensor_acquisition_date_microseconds', str:'receiver_gain', "
                        "str:'invalid_line_flag', str:'elevation_angle_at_nadir_of_antenna', "
                        "str:'antenna_squint_angle', str:'slant_range_to_first_data_sample', "
                        "str:'data_record_window_position', str:'blanks1', "
                        "str:'platform_position_parameters_update_flag', str:'platform_latitude', "
                        "str:'platform_longitude', str:'platform_altitude', "
                        "str:'platform_ground_speed', str:'platform_velocity', "
                        "str:'platform_acceleration', str:'platform_track_angle', "
                        "str:'platform_true_track_angle', str:'platform_attitude', "
                        "str:'latitude_of_first_pixel', str:'latitude_of_center_pixel', "
                        "str:'latitude_of_last_pixel', str:'longitude_of_first_pixel', "
                        "str:'longitude_of_center_pixel', str:'longitude_of_last_pixel', "
                        "str:'burst_number', str:'line_number_in_this_burst', str:'blanks2', "
                        "str:'alos2_frame_number', str:'palsar_auxiliary_data', str:'data']",
 'signal: first fields': 'str:"Struct(name=None)[Renamed(name=\'record_start\')[Tell(name=None)]; '
                         "Renamed(name='preamble')[Struct(name=None)[Renamed(name='record_sequence_number')[FormatField(name=None, "
                         "fmtstr='>L', length=4)]; "
                         "Renamed(name='first_record_subtype')[FormatField(name=None, fmtstr='>B', "
                         "length=1)]; Renamed(name='record_type')[FormatField(name=None, "
                         "fmtstr='>B', length=1)]; "
                         "Renamed(name='second_record_subtype')[FormatField(name=None, "
                         "fmtstr='>B', length=1)]; "
                         "Renamed(name='third_record_subtype')[FormatField(name=None, fmtstr='>B', "
                         "length=1)]; Renamed(name='record_length')[FormatField(name=None, "
                         "fmtstr='>L', length=4)]]]; "
                         "Renamed(name='sar_image_data_line_number')[FormatField(name=None, "
                         "fmtstr='>L', length=4)]; "
                         "Renamed(name='sar_image_data_record_index')[FormatField(name=None, "
                         "fmtstr='>L', length=4)]; "
                         "Renamed(name='actual_count_of_left_fill_pixels')[FormatField(name=None, "
                         "fmtstr='>L', length=4)]; "
                         "Renamed(name='actual_count_of_data_pixels')[FormatField(name=None, "
                         "fmtstr='>L', length=4)]; "
                         "Renamed(name='actual_count_of_right_fill_pixels')[FormatField(name=None, "
                         "fmtstr='>L', length=4)]; "
                         "Renamed(name='sensor_parameters_update_flag')[FormatField(name=None, "
                         "fmtstr='>L', length=4)]; "
                         "Renamed(name='sensor_acquisition_date')[DatetimeYdms(name=None)[Struct(name=None)[Renamed(name='year')[FormatField(name=None, "
                         "fmtstr='>L', length=4)]; "
                         "Renamed(name='day_of_year')[FormatField(name=None, fmtstr='>L', "
                         "length=4)]; Renamed(name='milliseconds')[FormatField(name=None, "
                         'fmtstr=\'>L\', length=4)]]]]]"',
 'signal: header only': 'ok Container digest=46ad21dd5461b17b record_start=int:0 length=int:552 '
                        'date=datetime:datetime.datetime(2020, 2, 29, 0, 0, 12, 345000) '
                        'data=Container(start=int:544, size=int:8, stop=int:552)',
 'signal: header size': 'ok int:544',
 'signal: last fields': 'str:"Struct(name=None)[Renamed(name=\'alos2_frame_number\')[FormatField(name=None, '
                        "fmtstr='>L', length=4)]; "
                        "Renamed(name='palsar_auxiliary_data')[StripNullBytes(name=None)[Bytes(name=None, "
                        'length=256)]]; '
                        "Renamed(name='data')[Struct(name=None)[Renamed(name='start')[Tell(name=None)]; "
                        "Renamed(name='size')[Computed(name=None, "
                        "func=(this['_']['preamble']['record_length'] - (this['start'] - "
                        "this['_']['record_start'])))]; Renamed(name='stop')[Seek(name=None, "
                        "at=(this['_']['record_start'] + "
                        'this[\'_\'][\'preamble\'][\'record_length\']))]]]]"',
 'signal: length < header': 'ok Container digest=423eae57d3adf1ad record_start=int:0 length=int:12 '
                            'date=datetime:datetime.datetime(2020, 2, 29, 0, 0, 12, 345000) '
                            'data=Container(start=int:544, size=int:-532, stop=int:12)',
 'signal: length < header: stream position': 'int:12',
 'signal: length == 0': 'ok Container digest=8f22dc49db2a46e0 record_start=int:0 length=int:0 '
                        'date=datetime:datetime.datetime(2020, 2, 29, 0, 0, 12, 345000) '
                        'data=Container(start=int:544, size=int:-544, stop=int:0)',
 'signal: length == 0: stream position': 'int:0',
 'signal: length == 2**32 - 1': 'ok Container digest=f85aed4dba38559b record_start=int:0 '
                                'length=int:4294967295 date=datetime:datetime.datetime(2020, 2, '
                                '29, 0, 0, 12, 345000) data=Container(start=int:544, '
                                'size=int:4294966751, stop=int:4294967295)',
 'signal: length == 2**32 - 1: stream position': 'int:4294967295',
 'signal: length == header': 'ok Container digest=6cd9755c61c7da48 record_start=int:0 '
                             'length=int:544 date=datetime:datetime.datetime(2020, 2, 29, 0, 0, '
                             '12, 345000) data=Container(start=int:544, size=int:0, stop=int:544)',
 'signal: length == header + 1': 'ok Container digest=d86362d47951f682 record_start=int:0 '
                                 'length=int:545 date=datetime:datetime.datetime(2020, 2, 29, 0, '
                                 '0, 12, 345000) data=Container(start=int:544, size=int:1, '
                                 'stop=int:545)',
 'signal: length == header + 1: stream position': 'int:545',
 'signal: length == header: stream position': 'int:544',
 'signal: length beyond the stream': 'ok Container digest=7b58345131f3aba8 record_start=int:0 '
                                     'length=int:10544 date=datetime:datetime.datetime(2020, 2, '
                                     '29, 0, 0, 12, 345000) data=Container(start=int:544, '
                                     'size=int:10000, stop=int:10544)',
 'signal: length beyond the stream: stream position': 'int:10544',
 'signal: microseconds 0 on last day': 'ok list[datetime:datetime.datetime(9999, 12, 31, 0, 0), '
                                       'datetime:datetime.datetime(9999, 12, 31, 0, 0)]',
 'signal: microseconds 0 on leap day': 'ok list[datetime:datetime.datetime(2020, 2, 29, 23, 59, '
                                       '59, 999000), datetime:datetime.datetime(2020, 2, 29, 0, '
                                       '0)]',
 'signal: microseconds 0 on year 0': "raise builtins.ValueError args=('year 0 is out of range',) "
                                     "str='year 0 is out of range' cause=NoneType context=NoneType "
                                     'suppress=False',
 'signal: microseconds 2**40 on last day': "raise builtins.OverflowError args=('date value out of "
                                           "range',) str='date value out of range' cause=NoneType "
                                           'context=NoneType suppress=False',
 'signal: microseconds 2**40 on leap day': 'ok list[datetime:datetime.datetime(2020, 2, 29, 23, '
                                           '59, 59, 999000), datetime:datetime.datetime(2020, 3, '
                                           '12, 17, 25, 11, 627776)]',
 'signal: microseconds 2**40 on year 0': "raise builtins.ValueError args=('year 0 is out of "
                                         "range',) str='year 0 is out of range' cause=NoneType "
                                         'context=NoneType suppress=False',
 'signal: microseconds 2**63 on last day': "raise builtins.OverflowError args=('date value out of "
                                           "range',) str='date value out of range' cause=NoneType "
                                           'context=NoneType suppress=False',
 'signal: microseconds 2**63 on leap day': "raise builtins.OverflowError args=('date value out of "
                                           "range',) str='date value out of range' cause=NoneType "
                                           'context=NoneType suppress=False',
 'signal: microseconds 2**63 on year 0': "raise builtins.ValueError args=('year 0 is out of "
                                         "range',) str='year 0 is out of range' cause=NoneType "
                                         'context=NoneType suppress=False',
 'signal: microseconds 2**64 - 1 on last day': "raise builtins.OverflowError args=('date value out "
                                               "of range',) str='date value out of range' "
                                               'cause=NoneType context=NoneType suppress=False',
 'signal: microseconds 2**64 - 1 on leap day': "raise builtins.OverflowError args=('date value out "
                                               "of range',) str='date value out of range' "
                                               'cause=NoneType context=NoneType suppress=False',
 'signal: microseconds 2**64 - 1 on year 0': "raise builtins.ValueError args=('year 0 is out of "
                                             "range',) str='year 0 is out of range' cause=NoneType "
                                             'context=NoneType suppress=False',
 'signal: microseconds last of the day on last day': 'ok list[datetime:datetime.datetime(9999, 12, '
                                                     '31, 0, 0), datetime:datetime.datetime(9999, '
                                                     '12, 31, 23, 59, 59, 999999)]',
 'signal: microseconds last of the day on leap day': 'ok list[datetime:datetime.datetime(2020, 2, '
                                                     '29, 23, 59, 59, 999000), '
                                                     'datetime:datetime.datetime(2020, 2, 29, 23, '
                                                     '59, 59, 999999)]',
 'signal: microseconds last of the day on year 0': "raise builtins.ValueError args=('year 0 is out "
                                                   "of range',) str='year 0 is out of range' "
                                                   'cause=NoneType context=NoneType suppress=False',
 'signal: microseconds next day on last day': "raise builtins.OverflowError args=('date value out "
                                              "of range',) str='date value out of range' "
                                              'cause=NoneType context=NoneType suppress=False',
 'signal: microseconds next day on leap day': 'ok list[datetime:datetime.datetime(2020, 2, 29, 23, '
                                              '59, 59, 999000), datetime:datetime.datetime(2020, '
                                              '3, 1, 0, 0)]',
 'signal: microseconds next day on year 0': "raise builtins.ValueError args=('year 0 is out of "
                                            "range',) str='year 0 is out of range' cause=NoneType "
                                            'context=NoneType suppress=False',
 'signal: offset stream': 'ok Container digest=deabe1f519f7cc69 record_start=int:7 length=int:568 '
                          'date=datetime:datetime.datetime(2020, 2, 29, 0, 0, 12, 345000) '
                          'data=Container(start=int:551, size=int:24, stop=int:575)',
 'signal: offset stream: stream position': 'int:575',
 'signal: parse_chunk': 'ok list digest=516b81f1f85bd678 record_start=int:0 length=int:560 '
                        'date=datetime:datetime.datetime(2020, 2, 29, 0, 0) '
                        'data=Container(start=int:544, size=int:16, stop=int:560) | '
                        'digest=b48fe23a1c793eeb record_start=int:560 length=int:560 '
                        'date=datetime:datetime.datetime(2020, 2, 29, 0, 0, 1) '
                        'data=Container(start=int:1104, size=int:16, stop=int:1120) | '
                        'digest=8ad10734c1546676 record_start=int:1120 length=int:560 '
                        'date=datetime:datetime.datetime(2020, 2, 29, 0, 0, 2) '
                        'data=Container(start=int:1664, size=int:16, stop=int:1680) | '
                        'digest=3456fcc5a7bd290a record_start=int:1680 length=int:560 '
                        'date=datetime:datetime.datetime(2020, 2, 29, 0, 0, 3) '
                        'data=Container(start=int:2224, size=int:16, stop=int:2240) | '
                        'digest=eaf2d745ddb6eb4a record_start=int:2240 length=int:560 '
                        'date=datetime:datetime.datetime(2020, 2, 29, 0, 0, 4) '
                        'data=Container(start=int:2784, size=int:16, stop=int:2800)',
 'signal: parse_chunk, empty': "raise construct.core.StreamError args=('Error in path (parsing) -> "
                               'record_sequence_number\\nstream read less than specified amount, '
                               "expected 4, found 0',) str='Error in path (parsing) -> "
                               'record_sequence_number\\nstream read less than specified amount, '
                               "expected 4, found 0' cause=NoneType context=NoneType "
                               'suppress=False',
 'signal: parse_chunk, size mismatch': "raise builtins.ValueError args=('sizes mismatch: chunksize "
                                       "is 2240 but got 2799 bytes',) str='sizes mismatch: "
                                       "chunksize is 2240 but got 2799 bytes' cause=NoneType "
                                       'context=NoneType suppress=False',
 'signal: parse_chunk, two records': 'ok list digest=516b81f1f85bd678 record_start=int:0 '
                                     'length=int:560 date=datetime:datetime.datetime(2020, 2, 29, '
                                     '0, 0) data=Container(start=int:544, size=int:16, '
                                     'stop=int:560) | digest=b48fe23a1c793eeb record_start=int:560 '
                                     'length=int:560 date=datetime:datetime.datetime(2020, 2, 29, '
                                     '0, 0, 1) data=Container(start=int:1104, size=int:16, '
                                     'stop=int:1120)',
 'signal: parse_chunk, type taken from the first record': 'ok list digest=516b81f1f85bd678 '
                                                          'record_start=int:0 length=int:560 '
                                                          'date=datetime:datetime.datetime(2020, '
                                                          '2, 29, 0, 0) '
                                                          'data=Container(start=int:544, '
                                                          'size=int:16, stop=int:560) | '
                                                          'digest=478c8c35b0770338 '
                                                          'record_start=int:560 length=int:560 '
                                                          'date=datetime:datetime.datetime(2020, '
                                                          '2, 29, 0, 0, 1) '
                                                          'data=Container(start=int:1104, '
                                                          'size=int:16, stop=int:1120) | '
                                                          'digest=8ad10734c1546676 '
                                                          'record_start=int:1120 length=int:560 '
                                                          'date=datetime:datetime.datetime(2020, '
                                                          '2, 29, 0, 0, 2) '
                                                          'data=Container(start=int:1664, '
                                                          'size=int:16, stop=int:1680) | '
                                                          'digest=3456fcc5a7bd290a '
                                                          'record_start=int:1680 length=int:560 '
                                                          'date=datetime:datetime.datetime(2020, '
                                                          '2, 29, 0, 0, 3) '
                                                          'data=Container(start=int:2224, '
                                                          'size=int:16, stop=int:2240) | '
                                                          'digest=eaf2d745ddb6eb4a '
                                                          'record_start=int:2240 length=int:560 '
                                                          'date=datetime:datetime.datetime(2020, '
                                                          '2, 29, 0, 0, 4) '
                                                          'data=Container(start=int:2784, '
                                                          'size=int:16, stop=int:2800)',
 'signal: parse_chunk, unknown record type': "raise builtins.ValueError args=('unknown record type "
                                             "code: 12',) str='unknown record type code: 12' "
                                             'cause=NoneType context=NoneType suppress=False',
 'signal: parse_chunk, wrong element size': 'ok list digest=516b81f1f85bd678 record_start=int:0 '
                                            'length=int:560 date=datetime:datetime.datetime(2020, '
                                            '2, 29, 0, 0) data=Container(start=int:544, '
                                            'size=int:16, stop=int:560) | digest=b48fe23a1c793eeb '
                                            'record_start=int:560 length=int:560 '
                                            'date=datetime:datetime.datetime(2020, 2, 29, 0, 0, 1) '
                                            'data=Container(start=int:1104, size=int:16, '
                                            'stop=int:1120)',
 'signal: parsed dates are new objects': 'bool:True',
 'signal: position of date and data': 'list[int:8, int:50, int:51]',
 'signal: preamble is the common one': 'bool:True',
 'signal: read_metadata, 1 per chunk': "ok list[str:'d556974ead4f0d5a']",
 'signal: read_metadata, 1 per chunk: records': 'ok list[tuple[int:720, dict(start=int:1264, '
                                                'size=int:16, stop=int:1280), '
                                                'datetime:datetime.datetime(2020, 2, 29, 0, 0)], '
                                                'tuple[int:1280, dict(start=int:1824, size=int:16, '
                                                'stop=int:1840), datetime:datetime.datetime(2020, '
                                                '2, 29, 0, 0, 1)], tuple[int:1840, '
                                                'dict(start=int:2384, size=int:16, stop=int:2400), '
                                                'datetime:datetime.datetime(2020, 2, 29, 0, 0, '
                                                '2)], tuple[int:2400, dict(start=int:2944, '
                                                'size=int:16, stop=int:2960), '
                                                'datetime:datetime.datetime(2020, 2, 29, 0, 0, '
                                                '3)], tuple[int:2960, dict(start=int:3504, '
                                                'size=int:16, stop=int:3520), '
                                                'datetime:datetime.datetime(2020, 2, 29, 0, 0, '
                                                '4)]]',
 'signal: read_metadata, 1 per chunk: requests': "list[tuple[str:'read', int:0, int:720], "
                                                 "tuple[str:'read', int:720, int:560], "
                                                 "tuple[str:'read', int:1280, int:560], "
                                                 "tuple[str:'read', int:1840, int:560], "
                                                 "tuple[str:'read', int:2400, int:560], "
                                                 "tuple[str:'read', int:2960, int:560]]",
 'signal: read_metadata, 1024 per chunk': "ok list[str:'d556974ead4f0d5a']",
 'signal: read_metadata, 1024 per chunk: records': 'ok list[tuple[int:720, dict(start=int:1264, '
                                                   'size=int:16, stop=int:1280), '
                                                   'datetime:datetime.datetime(2020, 2, 29, 0, '
                                                   '0)], tuple[int:1280, dict(start=int:1824, '
                                                   'size=int:16, stop=int:1840), '
                                                   'datetime:datetime.datetime(2020, 2, 29, 0, 0, '
                                                   '1)], tuple[int:1840, dict(start=int:2384, '
                                                   'size=int:16, stop=int:2400), '
                                                   'datetime:datetime.datetime(2020, 2, 29, 0, 0, '
                                                   '2)], tuple[int:2400, dict(start=int:2944, '
                                                   'size=int:16, stop=int:2960), '
                                                   'datetime:datetime.datetime(2020, 2, 29, 0, 0, '
                                                   '3)], tuple[int:2960, dict(start=int:3504, '
                                                   'size=int:16, stop=int:3520), '
                                                   'datetime:datetime.datetime(2020, 2, 29, 0, 0, '
                                                   '4)]]',
 'signal: read_metadata, 1024 per chunk: requests': "list[tuple[str:'read', int:0, int:720], "
                                                    "tuple[str:'read', int:720, int:2800]]",
 'signal: read_metadata, 2 per chunk': "ok list[str:'d556974ead4f0d5a']",
 'signal: read_metadata, 2 per chunk: records': 'ok list[tuple[int:720, dict(start=int:1264, '
                                                'size=int:16, stop=int:1280), '
                                                'datetime:datetime.datetime(2020, 2, 29, 0, 0)], '
                                                'tuple[int:1280, dict(start=int:1824, size=int:16, '
                                                'stop=int:1840), datetime:datetime.datetime(2020, '
                                                '2, 29, 0, 0, 1)], tuple[int:1840, '
                                                'dict(start=int:2384, size=int:16, stop=int:2400), '
                                                'datetime:datetime.datetime(2020, 2, 29, 0, 0, '
                                                '2)], tuple[int:2400, dict(start=int:2944, '
                                                'size=int:16, stop=int:2960), '
                                                'datetime:datetime.datetime(2020, 2, 29, 0, 0, '
                                                '3)], tuple[int:2960, dict(start=int:3504, '
                                                'size=int:16, stop=int:3520), '
                                                'datetime:datetime.datetime(2020, 2, 29, 0, 0, '
                                                '4)]]',
 'signal: read_metadata, 2 per chunk: requests': "list[tuple[str:'read', int:0, int:720], "
                                                 "tuple[str:'read', int:720, int:1120], "
                                                 "tuple[str:'read', int:1840, int:1120], "
                                                 "tuple[str:'read', int:2960, int:560]]",
 'signal: read_metadata, 5 per chunk': "ok list[str:'d556974ead4f0d5a']",
 'signal: read_metadata, 5 per chunk: records': 'ok list[tuple[int:720, dict(start=int:1264, '
                                                'size=int:16, stop=int:1280), '
                                                'datetime:datetime.datetime(2020, 2, 29, 0, 0)], '
                                                'tuple[int:1280, dict(start=int:1824, size=int:16, '
                                                'stop=int:1840), datetime:datetime.datetime(2020, '
                                                '2, 29, 0, 0, 1)], tuple[int:1840, '
                                                'dict(start=int:2384, size=int:16, stop=int:2400), '
                                                'datetime:datetime.datetime(2020, 2, 29, 0, 0, '
                                                '2)], tuple[int:2400, dict(start=int:2944, '
                                                'size=int:16, stop=int:2960), '
                                                'datetime:datetime.datetime(2020, 2, 29, 0, 0, '
                                                '3)], tuple[int:2960, dict(start=int:3504, '
                                                'size=int:16, stop=int:3520), '
                                                'datetime:datetime.datetime(2020, 2, 29, 0, 0, '
                                                '4)]]',
 'signal: read_metadata, 5 per chunk: requests': "list[tuple[str:'read', int:0, int:720], "
                                                 "tuple[str:'read', int:720, int:2800]]",
 'signal: read_metadata, fewer records announced': "ok str:'b13e040f3c1a5993'",
 'signal: read_metadata, fewer records announced: requests': "list[tuple[str:'read', int:0, "
                                                             "int:720], tuple[str:'read', int:720, "
                                                             "int:1120], tuple[str:'read', "
                                                             'int:1840, int:560]]',
 'signal: read_metadata, file too short': "raise builtins.ValueError args=('sizes mismatch: "
                                          "chunksize is 0 but got 557 bytes',) str='sizes "
                                          "mismatch: chunksize is 0 but got 557 bytes' "
                                          'cause=NoneType context=NoneType suppress=False',
 'signal: read_metadata, file too short: requests': "list[tuple[str:'read', int:0, int:720], "
                                                    "tuple[str:'read', int:720, int:1120], "
                                                    "tuple[str:'read', int:1840, int:1120], "
                                                    "tuple[str:'read', int:2960, int:560]]",
 'signal: sizeof': "raise construct.core.SizeofError args=('Error in path (sizeof) -> data -> "
                   "stop\\nSeek only moves the stream, size is not meaningful',) str='Error in "
                   'path (sizeof) -> data -> stop\\nSeek only moves the stream, size is not '
                   "meaningful' cause=NoneType context=NoneType suppress=False",
 'signal: structure digest': "str:'1936f50cb92133ad'",
 'signal: truncated at 0': "raise construct.core.StreamError args=('Error in path (parsing) -> "
                           'preamble -> record_sequence_number\\nstream read less than specified '
                           "amount, expected 4, found 0',) str='Error in path (parsing) -> "
                           'preamble -> record_sequence_number\\nstream read less than specified '
                           "amount, expected 4, found 0' cause=NoneType context=NoneType "
                           'suppress=False',
 'signal: truncated at 0: stream position': 'int:0',
 'signal: truncated at 11': "raise construct.core.StreamError args=('Error in path (parsing) -> "
                            'preamble -> record_length\\nstream read less than specified amount, '
                            "expected 4, found 3',) str='Error in path (parsing) -> preamble -> "
                            'record_length\\nstream read less than specified amount, expected 4, '
                            "found 3' cause=NoneType context=NoneType suppress=False",
 'signal: truncated at 11: stream position': 'int:11',
 'signal: truncated at 12': "raise construct.core.StreamError args=('Error in path (parsing) -> "
                            'sar_image_data_line_number\\nstream read less than specified amount, '
                            "expected 4, found 0',) str='Error in path (parsing) -> "
                            'sar_image_data_line_number\\nstream read less than specified amount, '
                            "expected 4, found 0' cause=NoneType context=NoneType suppress=False",
 'signal: truncated at 12: stream position': 'int:12',
 'signal: truncated at 3': "raise construct.core.StreamError args=('Error in path (parsing) -> "
                           'preamble -> record_sequence_number\\nstream read less than specified '
                           "amount, expected 4, found 3',) str='Error in path (parsing) -> "
                           'preamble -> record_sequence_number\\nstream read less than specified '
                           "amount, expected 4, found 3' cause=NoneType context=NoneType "
                           'suppress=False',
 'signal: truncated at 35': "raise construct.core.StreamError args=('Error in path (parsing) -> "
                            'sensor_parameters_update_flag\\nstream read less than specified '
                            "amount, expected 4, found 3',) str='Error in path (parsing) -> "
                            'sensor_parameters_update_flag\\nstream read less than specified '
                            "amount, expected 4, found 3' cause=NoneType context=NoneType "
                            'suppress=False',
 'signal: truncated at 35: stream position': 'int:35',
 'signal: truncated at 36': "raise construct.core.StreamError args=('Error in path (parsing) -> "
                            'sensor_acquisition_date -> year\\nstream read less than specified '
                            "amount, expected 4, found 0',) str='Error in path (parsing) -> "
                            'sensor_acquisition_date -> year\\nstream read less than specified '
                            "amount, expected 4, found 0' cause=NoneType context=NoneType "
                            'suppress=False',
 'signal: truncated at 36: stream position': 'int:36',
 'signal: truncated at 39': "raise construct.core.StreamError args=('Error in path (parsing) -> "
                            'sensor_acquisition_date -> year\\nstream read less than specified '
                            "amount, expected 4, found 3',) str='Error in path (parsing) -> "
                            'sensor_acquisition_date -> year\\nstream read less than specified '
                            "amount, expected 4, found 3' cause=NoneType context=NoneType "
                            'suppress=False',
 'signal: truncated at 39: stream position': 'int:39',
 'signal: truncated at 3: stream position': 'int:3',
 'signal: truncated at 40': "raise construct.core.StreamError args=('Error in path (parsing) -> "
                            'sensor_acquisition_date -> day_of_year\\nstream read less than '
                            "specified amount, expected 4, found 0',) str='Error in path (parsing) "
                            '-> sensor_acquisition_date -> day_of_year\\nstream read less than '
                            "specified amount, expected 4, found 0' cause=NoneType "
                            'context=NoneType suppress=False',
 'signal: truncated at 40: stream position': 'int:40',
 'signal: truncated at 47': "raise construct.core.StreamError args=('Error in path (parsing) -> "
                            'sensor_acquisition_date -> milliseconds\\nstream read less than '
                            "specified amount, expected 4, found 3',) str='Error in path (parsing) "
                            '-> sensor_acquisition_date -> milliseconds\\nstream read less than '
                            "specified amount, expected 4, found 3' cause=NoneType "
                            'context=NoneType suppress=False',
 'signal: truncated at 47: stream position': 'int:47',
 'signal: truncated at 48': "raise construct.core.StreamError args=('Error in path (parsing) -> "
                            'sar_channel_id\\nstream read less than specified amount, expected 2, '
                            "found 0',) str='Error in path (parsing) -> sar_channel_id\\nstream "
                            "read less than specified amount, expected 2, found 0' cause=NoneType "
                            'context=NoneType suppress=False',
 'signal: truncated at 48: stream position': 'int:48',
 'signal: truncated at 49': "raise construct.core.StreamError args=('Error in path (parsing) -> "
                            'sar_channel_id\\nstream read less than specified amount, expected 2, '
                            "found 1',) str='Error in path (parsing) -> sar_channel_id\\nstream "
                            "read less than specified amount, expected 2, found 1' cause=NoneType "
                            'context=NoneType suppress=False',
 'signal: truncated at 49: stream position': 'int:49',
 'signal: truncated at 540': "raise construct.core.StreamError args=('Error in path (parsing) -> "
                             'palsar_auxiliary_data\\nstream read less than specified amount, '
                             "expected 256, found 252',) str='Error in path (parsing) -> "
                             'palsar_auxiliary_data\\nstream read less than specified amount, '
                             "expected 256, found 252' cause=NoneType context=NoneType "
                             'suppress=False',
 'signal: truncated at 540: stream position': 'int:540',
 'signal: truncated at 543': "raise construct.core.StreamError args=('Error in path (parsing) -> "
                             'palsar_auxiliary_data\\nstream read less than specified amount, '
                             "expected 256, found 255',) str='Error in path (parsing) -> "
                             'palsar_auxiliary_data\\nstream read less than specified amount, '
                             "expected 256, found 255' cause=NoneType context=NoneType "
                             'suppress=False',
 'signal: truncated at 543: stream position': 'int:543',
 'signal: truncated at 544': 'ok Container digest=46ad21dd5461b17b record_start=int:0 '
                             'length=int:552 date=datetime:datetime.datetime(2020, 2, 29, 0, 0, '
                             '12, 345000) data=Container(start=int:544, size=int:8, stop=int:552)',
 'signal: truncated at 544: stream position': 'int:552',
 'signal: truncated at 80': "raise construct.core.StreamError args=('Error in path (parsing) -> "
                            'chirp_quadratic_coefficient\\nstream read less than specified amount, '
                            "expected 4, found 0',) str='Error in path (parsing) -> "
                            'chirp_quadratic_coefficient\\nstream read less than specified amount, '
                            "expected 4, found 0' cause=NoneType context=NoneType suppress=False",
 'signal: truncated at 80: stream position': 'int:80',
 'signal: type': "str:'Struct'",
 'signal: typical record': 'ok Container(record_start=int:0, '
                           'preamble=Container(record_sequence_number=int:1, '
                           'first_record_subtype=int:50, record_type=int:10, '
                           'second_record_subtype=int:18, third_record_subtype=int:20, '
                           'record_length=int:584), sar_image_data_line_number=int:2791426357, '
                           'sar_image_data_record_index=int:410781668, '
                           'actual_count_of_left_fill_pixels=int:3580063387, '
                           'actual_count_of_data_pixels=int:3284402354, '
                           'actual_count_of_right_fill_pixels=int:1917106381, '
                           'sensor_parameters_update_flag=int:983036186, '
                           'sensor_acquisition_date=datetime:datetime.datetime(2020, 2, 29, 0, 0, '
                           '12, 345000), sar_channel_id=EnumInteger:14328, '
                           'sar_channel_code=EnumInteger:27833, '
                           'transmitted_pulse_polarization=EnumInteger:1927, '
                           'received_pulse_polarization=EnumInteger:14531, '
                           "prf=tuple[int:1894809229, dict(units=str:'mHz')], "
                           'scan_id=int:995638189, onboard_range_compressed_flag=bool:True, '
                           'chirp_type_designator=EnumInteger:30195, '
                           "chirp_length=tuple[int:1257047402, dict(units=str:'ns')], "
                           'chirp_constant_coefficient=tuple[int:3605696236, '
                           "dict(units=str:'Hz')], chirp_linear_coefficient=tuple[int:2753114017, "
                           "dict(units=str:'Hz/µs')], "
                           'chirp_quadratic_coefficient=tuple[int:4273593419, '
                           "dict(units=str:'Hz/µs^2')], "
                           'sensor_acquisition_date_microseconds=datetime:datetime.datetime(2020, '
                           '2, 29, 1, 0, 0, 1001), receiver_gain=tuple[int:4025969793, '
                           "dict(units=str:'dB')], invalid_line_flag=bool:True, "
                           'elevation_angle_at_nadir_of_antenna=Container(electronic=tuple[int:1296602873, '
                           "dict(units=str:'deg')], mechanic=tuple[int:3783252208, "
                           "dict(units=str:'deg')]), "
                           'antenna_squint_angle=Container(electronic=tuple[int:2170853082, '
                           "dict(units=str:'deg')], mechanic=tuple[int:142229182, "
                           "dict(units=str:'deg')]), "
                           'slant_range_to_first_data_sample=tuple[int:3429329578, '
                           "dict(units=str:'m')], data_record_window_position=tuple[int:744328417, "
                           "dict(units=str:'ns')], blanks1=int:3016142012, "
                           'platform_position_parameters_update_flag=EnumInteger:1595306153, '
                           "platform_latitude=tuple[float:2182.858537, dict(units=str:'deg')], "
                           "platform_longitude=tuple[float:2245.485662, dict(units=str:'deg')], "
                           "platform_altitude=tuple[int:2109409144, dict(units=str:'deg')], "
                           "platform_ground_speed=tuple[int:189707481, dict(units=str:'cm/s')], "
                           'platform_velocity=Container(x=tuple[int:4221409172, '
                           "dict(units=str:'cm/s')], y=tuple[int:1688546091, "
                           "dict(units=str:'cm/s')], z=tuple[int:2151348995, "
                           "dict(units=str:'cm/s')]), "
                           'platform_acceleration=Container(x=tuple[int:3308489451, '
                           "dict(units=str:'cm/s^2')], y=tuple[int:3700177767, "
                           "dict(units=str:'cm/s^2')], z=tuple[int:2203644888, "
                           "dict(units=str:'cm/s^2')]), "
                           "platform_track_angle=tuple[float:2472.179176, dict(units=str:'deg')], "
                           'platform_true_track_angle=tuple[float:1151.896731, '
                           "dict(units=str:'deg')], "
                           'platform_attitude=Container(pitch=tuple[float:4122.60797, '
                           "dict(units=str:'deg')], roll=tuple[float:3369.849588, "
                           "dict(units=str:'deg')], yaw=tuple[float:3807.4279709999996, "
                           "dict(units=str:'deg')]), "
                           'latitude_of_first_pixel=tuple[float:3475.080391, '
                           "dict(units=str:'deg')], "
                           'latitude_of_center_pixel=tuple[float:2402.577907, '
                           "dict(units=str:'deg')], latitude_of_last_pixel=tuple[float:242.998877, "
                           "dict(units=str:'deg')], "
                           'longitude_of_first_pixel=tuple[float:2441.950192, '
                           "dict(units=str:'deg')], "
                           'longitude_of_center_pixel=tuple[float:2171.1740959999997, '
                           "dict(units=str:'deg')], longitude_of_last_pixel=tuple[float:1533.696, "
                           "dict(units=str:'deg')], burst_number=int:2307563465, "
                           'line_number_in_this_burst=int:2622780825, '
                           "blanks2=bytes:b'\\x07\\xcd:\\xa2-\\x8c\\x95.\\xdc\\x17\\xcc\\x8d\\xcc\\xd9\\xd1\\xeeA\\x08\\xd7\\xf1\\xac\\x12\\x15\\xde\\x04s\\x03\\xc1\\xc1G?D\\x1c\\xcc\\x9f/XJ\\x11*(A\\x87\\xf3+\\xa8E\\xa5\\xb6Kt\\xb3R\\x7fy\\x1d\\x06ObW', "
                           'alos2_frame_number=int:1808478274, '
                           "palsar_auxiliary_data=bytes:b'\\x1b@\\xe6\\xba\\x82\\xfa5\\xf7\\x9bn\\xd1\\xf9\\x059\\x04e%\\t\\xb8\\xf5)r\\xb4\\x81\\xadm\\x8b\\xd58\\xfa\\xf9\\xa1\\xcc\\xb1\\x84s9\\x86\\xa6\\x07e\\xac\\x93\\xcdR\\xa8\\xa1m\\x0f\\xbcL "
                           '\\xf76\\xe0\\x0cN\\x12\\xdb\\x13O\\xea\\xf0L\\xbe(j\\x90@!\\x02\\x8f\\xe0\\xd9\\t\\x97\\xd17\\xf6\\xe6\\x91u+\\xd3\\xde\\xde\\xf9\\xc7\\xb4\\x9f\\x82\\t`3X\\x194\\x92\\xac\\xe5n\\x971~\\x1a\\xf0\\xaacK\\x81\\x7f\\x04S\\x9c\\xdff\\xe6H\\x04(3\\xdbS\\xcf\\xfc\\x90\\xc8"Vm6D\\xac\\x18\\xd6a\\xee\\x8cX\\xea\\xe1\\xd6\\xaf\\x88|\\xc4\\xfc\\x88<\\x10\\xb9\\n\\x15"+*\\xe9\\x896D\\xc2U\\x99\\x81\\xd7A^VW\\x1dJ<\\xde\\xf1\\x9a\\xc7\\xf4\\xb7\\xe3}"\\x94\\x8d\\xc5\\x1aR\\nh\\x12a\\xdd\\xfd\\xc9%\\xd4 '
                           "W\\x1d\\x9d\\x96\\xc8\\xed`\\x13\\x92\\x8c9\\x90\\x14\\xf3D]\\xe4K\\x90\\x88\\xec\\x1du\\xe5F\\x1b\\xc9\\x0b\\xd3K\\x03\\x9d\\xab\\x03\\x17i\\x1d\\xd3\\xe2\\xca\\n0=\\xc9\\xfc\\x96k)\\x1ds*\\xae=(\\xbe\\xd8\\x1ao\\xe9\\xf6', "
                           'data=Container(start=int:544, size=int:40, stop=int:584))',
 'signal: typical record summary': 'ok Container digest=b6ca43700106adb2 record_start=int:0 '
                                   'length=int:584 date=datetime:datetime.datetime(2020, 2, 29, 0, '
                                   '0, 12, 345000) data=Container(start=int:544, size=int:40, '
                                   'stop=int:584)',
 'signal_data: public names': "list[str:'Bytes', str:'Computed', str:'DatetimeYdms', "
                              "str:'DatetimeYdus', str:'Factor', str:'Flag', str:'Int32ub', "
                              "str:'Int64ub', str:'Metadata', str:'Seek', str:'StripNullBytes', "
                              "str:'Struct', str:'Tell', str:'chirp_type_designator', "
                              "str:'platform_position_parameters_update', "
                              "str:'pulse_polarization', str:'record_preamble', "
                              "str:'sar_channel_code', str:'sar_channel_id', "
                              "str:'signal_data_record', str:'this']"}
# EXPECTED-END


def compare():
    actual = observe()
    problems = []
    for key in sorted(set(actual) | set(EXPECTED)):
        if key not in actual:
            problems.append(f"missing observation {key!r}")
        elif key not in EXPECTED:
            problems.append(f"unexpected observation {key!r}: {actual[key]}")
        elif actual[key] != EXPECTED[key]:
            problems.append(f"{key!r}:\n    expected {EXPECTED[key]}\n    actual   {actual[key]}")
    return actual, problems


def test_equivalence():
    actual, problems = compare()
    assert len(actual) > 50
    assert not problems, "\n".join(problems)


def record():
    path = pathlib.Path(__file__)
    source = path.read_text()
    head, rest = source.split("# EXPECTED-BEGIN\n", 1)
    _, tail = rest.split("# EXPECTED-END\n", 1)
    body = "EXPECTED = " + pprint.pformat(observe(), width=100, sort_dicts=True) + "\n"
    path.write_text(head + "# EXPECTED-BEGIN\n" + body + "# EXPECTED-END\n" + tail)


if __name__ == "__main__":
    if "--record" in sys.argv[1:]:
        record()
        print("recorded", len(observe()), "observations")
        sys.exit(0)

    actual, problems = compare()
    if problems:
        print("\n".join(problems))
        print(f"FAILED: {len(problems)} of {len(actual)} observations differ")
        sys.exit(1)
    print(f"OK: {len(actual)} observations identical to the recorded ones")
