"""Equivalence check for refactoring 4 (ceos_alos2/hierarchy.py).

Run: cd /tmp/wt4/e26 && PYTHONPATH=/tmp/wt4/e26 /venv/bin/python _eq/4/equiv.py

EXPECTED was recorded from the unchanged code (HEAD).
"""

import copy
import pprint
import sys

import fsspec
import numpy as np

from ceos_alos2 import hierarchy
from ceos_alos2.array import Array
from ceos_alos2.hierarchy import Group, Variable


def outcome(func, *args, **kwargs):
    try:
        result = func(*args, **kwargs)
    except BaseException as e:  # noqa: B902
        return ("raise", type(e).__name__, str(e))
    return ("ok", type(result).__qualname__, repr(result))


LOG = []


class TracingVariable(Variable):
    """variable recording every comparison; the result is configured through ``attrs``"""

    def __eq__(self, other):
        LOG.append((self.attrs["label"], getattr(other, "attrs", {}).get("label", type(other).__name__)))
        result = self.attrs["result"]
        if isinstance(result, Exception):
            raise result
        return result

    __hash__ = None


class TracingGroup(Group):
    def __eq__(self, other):
        LOG.append((self.attrs["label"], getattr(other, "attrs", {}).get("label", type(other).__name__)))
        return self.attrs["result"]

    __hash__ = None


def tvar(label, result):
    return TracingVariable("x", np.arange(2), {"label": label, "result": result})


def tgroup(label, result):
    return TracingGroup(path=None, url=None, data={}, attrs={"label": label, "result": result})


def var(data=None, dims="x", attrs=None):
    if data is None:
        data = np.arange(3)
    return Variable(dims, data, {} if attrs is None else attrs)


def array(url="memory://image", shape=(4, 3), rpc=2):
    fs = fsspec.filesystem("memory")
    byte_ranges = [(i * 10, i * 10 + 6) for i in range(shape[0])]
    return Array(fs=fs, url=url, byte_ranges=byte_ranges, shape=shape, dtype="uint16",
                 type_code="IU2", records_per_chunk=rpc)


def make_groups():
    def leaf(**kwargs):
        params = {"path": None, "url": None, "data": {}, "attrs": {}}
        params.update(kwargs)
        return Group(**params)

    groups = {
        "empty": leaf(),
        "empty_root_path": leaf(path="/"),
        "empty_other_path": leaf(path="/a"),
        "empty_relative_path": leaf(path="a"),
        "empty_url": leaf(url="s3://bucket/x"),
        "empty_url2": leaf(url="s3://bucket/y"),
        "attrs": leaf(attrs={"a": 1}),
        "attrs_other": leaf(attrs={"a": 2}),
        "attrs_more": leaf(attrs={"a": 1, "b": 2}),
        "attrs_float_equal": leaf(attrs={"a": 1.0}),
        "attrs_array": leaf(attrs={"a": np.arange(2)}),
        "one_var": leaf(data={"v": var()}),
        "one_var_copy": leaf(data={"v": var()}),
        "one_var_other_data": leaf(data={"v": var(np.arange(3) + 1)}),
        "one_var_other_shape": leaf(data={"v": var(np.arange(4))}),
        "one_var_other_dims": leaf(data={"v": var(dims="y")}),
        "one_var_other_attrs": leaf(data={"v": var(attrs={"u": "m"})}),
        "one_var_list_data": leaf(data={"v": var([0, 1, 2])}),
        "one_var_other_name": leaf(data={"w": var()}),
        "two_vars": leaf(data={"v": var(), "w": var()}),
        "two_vars_reordered": leaf(data={"w": var(), "v": var()}),
        "array_var": leaf(data={"v": Variable(["rows", "cols"], array(), {})}),
        "array_var_copy": leaf(data={"v": Variable(["rows", "cols"], array(), {})}),
        "array_var_other_url": leaf(data={"v": Variable(["rows", "cols"], array(url="memory://o"), {})}),
        "array_var_other_chunks": leaf(data={"v": Variable(["rows", "cols"], array(rpc=1), {})}),
        "one_group": leaf(data={"g": leaf()}),
        "one_group_copy": leaf(data={"g": leaf()}),
        "one_group_attrs": leaf(data={"g": leaf(attrs={"a": 1})}),
        "one_group_other_name": leaf(data={"h": leaf()}),
        "one_group_with_url": leaf(data={"g": leaf(url="s3://bucket/x")}),
        "one_group_parent_url": leaf(url="s3://bucket/x", data={"g": leaf()}),
        "one_group_both_url": leaf(url="s3://bucket/x", data={"g": leaf(url="s3://bucket/x")}),
        "name_clash_var_vs_group": leaf(data={"g": var()}),
        "mixed": leaf(data={"v": var(), "g": leaf(data={"w": var()}), "u": var(dims="y"), "h": leaf()}),
        "mixed_interleaved_differently": leaf(
            data={"g": leaf(data={"w": var()}), "h": leaf(), "v": var(), "u": var(dims="y")}
        ),
        "mixed_groups_reordered": leaf(
            data={"v": var(), "h": leaf(), "u": var(dims="y"), "g": leaf(data={"w": var()})}
        ),
        "mixed_deep_difference": leaf(
            data={"v": var(), "g": leaf(data={"w": var(np.arange(3) * 2)}), "u": var(dims="y"), "h": leaf()}
        ),
        "deep": leaf(
            url="file:///data",
            path="/root",
            data={
                "a": leaf(data={"b": leaf(data={"c": leaf(data={"v": var()}, attrs={"k": 1})})}),
                "x": leaf(url="http://elsewhere", data={"y": leaf(), "z": leaf(url="ftp://third")}),
                "v": var(),
            },
            attrs={"top": True},
        ),
        "foreign_value": leaf(data={"n": 1, "s": "text", "v": var(), "g": leaf()}),
        "foreign_value_other": leaf(data={"n": 2, "s": "other", "v": var(), "g": leaf()}),
    }
    return groups


def describe(group):
    return [
        (path, type(g).__name__, g.url, g.name, list(g.data), list(g.attrs), len(g), list(g))
        for path, g in group.subtree
    ]


def walk(group):
    yield group.path, group.url, group.name, list(group.groups), list(group.variables)
    for child in group.data.values():
        if isinstance(child, Group):
            yield from walk(child)


def compute():
    results = {}
    groups = make_groups()
    others = {"none": None, "int": 1, "dict": {}, "variable": var(), "str": "/"}

    for name, group in groups.items():
        results[f"repr[{name}]"] = repr(group)
        results[f"walk[{name}]"] = repr(list(walk(group)))
        results[f"subtree[{name}]"] = outcome(describe, group)
        results[f"decouple[{name}]"] = outcome(group.decouple)
        results[f"groups[{name}]"] = (type(group.groups).__name__, repr(group.groups))
        results[f"variables[{name}]"] = (type(group.variables).__name__, repr(group.variables))
        results[f"groups_is_fresh[{name}]"] = group.groups is not group.groups and group.groups is not group.data
        for oname, other in others.items():
            results[f"eq_other[{name}-{oname}]"] = (outcome(group.__eq__, other), outcome(group.__ne__, other))

    names = list(groups)
    matrix = {}
    for a in names:
        row = []
        for b in names:
            res = outcome(lambda a=a, b=b: groups[a] == groups[b])
            if res[0] == "ok":
                row.append("T" if res[2] == "True" else "F" if res[2] == "False" else res[2])
                assert res[1] == "bool", res
            else:
                row.append(f"!{res[1]}:{res[2]}")
        matrix[a] = row
    for a in names:
        row = matrix[a]
        compact = "".join(r if len(r) == 1 else "?" for r in row)
        results[f"eq_row[{a}]"] = compact
        details = {names[i]: r for i, r in enumerate(row) if len(r) != 1}
        if details:
            results[f"eq_row_details[{a}]"] = details

    # order and short-circuiting of the member comparisons
    scenarios = {
        "all_equal": dict(v1=True, v2=True, g1=True, g2=True),
        "first_var_differs": dict(v1=False, v2=True, g1=True, g2=True),
        "second_var_differs": dict(v1=True, v2=False, g1=True, g2=True),
        "first_group_differs": dict(v1=True, v2=True, g1=False, g2=True),
        "second_group_differs": dict(v1=True, v2=True, g1=True, g2=False),
        "numpy_bools": dict(v1=np.True_, v2=np.bool_(True), g1=np.True_, g2=np.False_),
        "truthy_objects": dict(v1=1, v2="yes", g1=[0], g2=2.5),
        "falsy_objects": dict(v1=1, v2="", g1=True, g2=True),
        "none_result": dict(v1=True, v2=True, g1=None, g2=True),
        "zero_dim_array": dict(v1=np.array(True), v2=np.array(0), g1=True, g2=True),
        "ambiguous_array": dict(v1=True, v2=np.array([True, True]), g1=True, g2=True),
        "raises": dict(v1=True, v2=RuntimeError("boom"), g1=True, g2=True),
        "not_implemented": dict(v1=NotImplemented, v2=True, g1=True, g2=True),
    }
    for sname, res in scenarios.items():
        def build(side):
            # interleave variables and groups on purpose
            return Group(
                path=None,
                url=None,
                data={
                    "g1": tgroup(f"{side}.g1", res["g1"]),
                    "v1": tvar(f"{side}.v1", res["v1"]),
                    "g2": tgroup(f"{side}.g2", res["g2"]),
                    "v2": tvar(f"{side}.v2", res["v2"]),
                },
                attrs={},
            )

        left, right = build("L"), build("R")
        del LOG[:]
        import warnings

        with warnings.catch_warnings():
            warnings.simplefilter("ignore")
            res_ = outcome(lambda: left == right)
        results[f"eq_trace[{sname}]"] = (res_, list(LOG))

    # construction / __setitem__ adjust paths and urls on copies
    child = Group(path="/ignored", url=None, data={"gc": Group(None, None, {"v": var()}, {})}, attrs={"c": 1})
    child_var = var()
    parent = Group(path="/p", url="s3://b", data={"c": child, "v": child_var}, attrs={})
    results["adjust_construct"] = repr(list(walk(parent)))
    results["adjust_construct_copies"] = (
        parent["c"] is child,
        parent["c"].data is child.data,
        parent["c"].attrs is child.attrs,
        parent["c"]["gc"] is child["gc"],
        parent["c"]["gc"]["v"] is child["gc"]["v"],
        parent["c"]["gc"]["v"].data is child["gc"]["v"].data,
        parent["v"] is child_var,
        parent["v"].data is child_var.data,
        parent["v"].attrs is child_var.attrs,
    )
    results["adjust_construct_original_untouched"] = repr(list(walk(child)))

    new_child = Group(path=None, url="http://own", data={"k": Group(None, None, {}, {})}, attrs={})
    parent["n"] = new_child
    parent["c"]["late"] = Group(path="whatever", url=None, data={"deep": Group("x", None, {}, {})}, attrs={})
    parent["w"] = var(dims=["a", "b"], data=np.zeros((2, 2)))
    parent["scalar"] = 5
    parent["text"] = "abc"
    parent["none"] = None
    parent["lst"] = [1, 2]
    results["adjust_setitem"] = repr(list(walk(parent)))
    results["adjust_setitem_repr"] = repr(parent)
    results["adjust_setitem_copies"] = (parent["n"] is new_child, parent["n"]["k"] is new_child["k"])
    results["adjust_setitem_original_untouched"] = repr(list(walk(new_child)))
    results["adjust_setitem_subtree"] = outcome(describe, parent)
    results["getitem_missing"] = outcome(parent.__getitem__, "missing")
    results["len_iter"] = (len(parent), list(parent), "c" in parent, "zz" in parent, list(parent.keys()))

    lst = [1, 2]
    holder = Group(None, None, {"lst": lst}, {})
    results["adjust_foreign_copy"] = (holder["lst"] is lst, holder["lst"] == lst)
    results["adjust_uncopyable"] = outcome(lambda: Group(None, None, {"gen": (i for i in range(2))}, {}))
    results["adjust_data_not_mapping"] = outcome(lambda: Group(None, None, [("a", 1)], {}))
    results["adjust_child_name_int"] = outcome(lambda: Group(None, None, {1: Group(None, None, {}, {})}, {}))
    results["adjust_child_name_abs"] = outcome(
        lambda: list(walk(Group("/p", None, {"/abs": Group(None, None, {"x": Group(None, None, {}, {})}, {})}, {})))
    )
    results["adjust_child_data_none"] = outcome(lambda: Group(None, None, {"c": Group(None, None, {}, {})}, {}))

    # name for odd paths
    for path in ("/", "", "a", "/a", "/a/b", "/a/b/", "a/b", "//", "/a//b", None, 5, b"/a/b"):
        g = Group(path="/tmp", url=None, data={}, attrs={})
        g.path = path
        results[f"name[{path!r}]"] = outcome(lambda g=g: g.name)

    # Variable is untouched, but compared through Group.__eq__
    results["variable_props"] = [
        (v.dims, outcome(lambda v=v: v.ndim), outcome(lambda v=v: v.shape), outcome(lambda v=v: v.dtype),
         outcome(lambda v=v: v.chunks), outcome(lambda v=v: v.sizes))
        for v in (var(), var(dims=["x"]), Variable(["rows", "cols"], array(), {}), var([1, 2]))
    ]

    deep = copy.deepcopy(groups["deep"])
    results["deepcopy_equal"] = (deep == groups["deep"], groups["deep"] == deep)
    results["hashable"] = outcome(hash, groups["empty"])
    results["public"] = [name for name in ("Group", "Variable", "Array", "valfilter", "posixpath", "copy", "np")
                         if hasattr(hierarchy, name)]
    results["group_members"] = sorted(
        name for name in vars(Group) if not (name.startswith("__") and name.endswith("__")) and name != "_abc_impl"
    )
    return results


def main():
    results = compute()
    if "--record" in sys.argv:
        pprint.pprint(results, width=110, sort_dicts=False)
        return 0

    failures = []
    for key in sorted(set(results) | set(EXPECTED)):
        if results.get(key, "<missing>") != EXPECTED.get(key, "<missing>"):
            failures.append((key, EXPECTED.get(key, "<missing>"), results.get(key, "<missing>")))
    for key, expected, actual in failures:
        print(f"MISMATCH {key}\n  expected: {expected!r}\n  actual:   {actual!r}")
    print(f"{len(results) - len(failures)} / {len(results)} checks passed")
    return 1 if failures else 0


def test_equivalence():
    assert compute() == EXPECTED


# --- EXPECTED (recorded from HEAD) ---
EXPECTED = {'repr[empty]': "Group(path='/', url=None, data={}, attrs={})",
 'walk[empty]': "[('/', None, '/', [], [])]",
 'subtree[empty]': ('ok', 'list', "[('/', 'Group', None, '/', [], [], 0, [])]"),
 'decouple[empty]': ('ok', 'Group', "Group(path='/', url=None, data={}, attrs={})"),
 'groups[empty]': ('dict', '{}'),
 'variables[empty]': ('dict', '{}'),
 'groups_is_fresh[empty]': True,
 'eq_other[empty-none]': (('ok', 'bool', 'False'), ('ok', 'bool', 'True')),
 'eq_other[empty-int]': (('ok', 'bool', 'False'), ('ok', 'bool', 'True')),
 'eq_other[empty-dict]': (('ok', 'bool', 'False'), ('ok', 'bool', 'True')),
 'eq_other[empty-variable]': (('ok', 'bool', 'False'), ('ok', 'bool', 'True')),
 'eq_other[empty-str]': (('ok', 'bool', 'False'), ('ok', 'bool', 'True')),
 'repr[empty_root_path]': "Group(path='/', url=None, data={}, attrs={})",
 'walk[empty_root_path]': "[('/', None, '/', [], [])]",
 'subtree[empty_root_path]': ('ok', 'list', "[('/', 'Group', None, '/', [], [], 0, [])]"),
 'decouple[empty_root_path]': ('ok', 'Group', "Group(path='/', url=None, data={}, attrs={})"),
 'groups[empty_root_path]': ('dict', '{}'),
 'variables[empty_root_path]': ('dict', '{}'),
 'groups_is_fresh[empty_root_path]': True,
 'eq_other[empty_root_path-none]': (('ok', 'bool', 'False'), ('ok', 'bool', 'True')),
 'eq_other[empty_root_path-int]': (('ok', 'bool', 'False'), ('ok', 'bool', 'True')),
 'eq_other[empty_root_path-dict]': (('ok', 'bool', 'False'), ('ok', 'bool', 'True')),
 'eq_other[empty_root_path-variable]': (('ok', 'bool', 'False'), ('ok', 'bool', 'True')),
 'eq_other[empty_root_path-str]': (('ok', 'bool', 'False'), ('ok', 'bool', 'True')),
 'repr[empty_other_path]': "Group(path='/a', url=None, data={}, attrs={})",
 'walk[empty_other_path]': "[('/a', None, 'a', [], [])]",
 'subtree[empty_other_path]': ('ok', 'list', "[('/a', 'Group', None, 'a', [], [], 0, [])]"),
 'decouple[empty_other_path]': ('ok', 'Group', "Group(path='/a', url=None, data={}, attrs={})"),
 'groups[empty_other_path]': ('dict', '{}'),
 'variables[empty_other_path]': ('dict', '{}'),
 'groups_is_fresh[empty_other_path]': True,
 'eq_other[empty_other_path-none]': (('ok', 'bool', 'False'), ('ok', 'bool', 'True')),
 'eq_other[empty_other_path-int]': (('ok', 'bool', 'False'), ('ok', 'bool', 'True')),
 'eq_other[empty_other_path-dict]': (('ok', 'bool', 'False'), ('ok', 'bool', 'True')),
 'eq_other[empty_other_path-variable]': (('ok', 'bool', 'False'), ('ok', 'bool', 'True')),
 'eq_other[empty_other_path-str]': (('ok', 'bool', 'False'), ('ok', 'bool', 'True')),
 'repr[empty_relative_path]': "Group(path='a', url=None, data={}, attrs={})",
 'walk[empty_relative_path]': "[('a', None, 'a', [], [])]",
 'subtree[empty_relative_path]': ('ok', 'list', "[('a', 'Group', None, 'a', [], [], 0, [])]"),
 'decouple[empty_relative_path]': ('ok', 'Group', "Group(path='a', url=None, data={}, attrs={})"),
 'groups[empty_relative_path]': ('dict', '{}'),
 'variables[empty_relative_path]': ('dict', '{}'),
 'groups_is_fresh[empty_relative_path]': True,
 'eq_other[empty_relative_path-none]': (('ok', 'bool', 'False'), ('ok', 'bool', 'True')),
 'eq_other[empty_relative_path-int]': (('ok', 'bool', 'False'), ('ok', 'bool', 'True')),
 'eq_other[empty_relative_path-dict]': (('ok', 'bool', 'False'), ('ok', 'bool', 'True')),
 'eq_other[empty_relative_path-variable]': (('ok', 'bool', 'False'), ('ok', 'bool', 'True')),
 'eq_other[empty_relative_path-str]': (('ok', 'bool', 'False'), ('ok', 'bool', 'True')),
 'repr[empty_url]': "Group(path='/', url='s3://bucket/x', data={}, attrs={})",
 'walk[empty_url]': "[('/', 's3://bucket/x', '/', [], [])]",
 'subtree[empty_url]': ('ok', 'list', "[('/', 'Group', 's3://bucket/x', '/', [], [], 0, [])]"),
 'decouple[empty_url]': ('ok', 'Group', "Group(path='/', url='s3://bucket/x', data={}, attrs={})"),
 'groups[empty_url]': ('dict', '{}'),
 'variables[empty_url]': ('dict', '{}'),
 'groups_is_fresh[empty_url]': True,
 'eq_other[empty_url-none]': (('ok', 'bool', 'False'), ('ok', 'bool', 'True')),
 'eq_other[empty_url-int]': (('ok', 'bool', 'False'), ('ok', 'bool', 'True')),
 'eq_other[empty_url-dict]': (('ok', 'bool', 'False'), ('ok', 'bool', 'True')),
 'eq_other[empty_url-variable]': (('ok', 'bool', 'False'), ('ok', 'bool', 'True')),
 'eq_other[empty_url-str]': (('ok', 'bool', 'False'), ('ok', 'bool', 'True')),
 'repr[empty_url2]': "Group(path='/', url='s3://bucket/y', data={}, attrs={})",
 'walk[empty_url2]': "[('/', 's3://bucket/y', '/', [], [])]",
 'subtree[empty_url2]': ('ok', 'list', "[('/', 'Group', 's3://bucket/y', '/', [], [], 0, [])]"),
 'decouple[empty_url2]': ('ok', 'Group', "Group(path='/', url='s3://bucket/y', data={}, attrs={})"),
 'groups[empty_url2]': ('dict', '{}'),
 'variables[empty_url2]': ('dict', '{}'),
 'groups_is_fresh[empty_url2]': True,
 'eq_other[empty_url2-none]': (('ok', 'bool', 'False'), ('ok', 'bool', 'True')),
 'eq_other[empty_url2-int]': (('ok', 'bool', 'False'), ('ok', 'bool', 'True')),
 'eq_other[empty_url2-dict]': (('ok', 'bool', 'False'), ('ok', 'bool', 'True')),
 'eq_other[empty_url2-variable]': (('ok', 'bool', 'False'), ('ok', 'bool', 'True')),
 'eq_other[empty_url2-str]': (('ok', 'bool', 'False'), ('ok', 'bool', 'True')),
 'repr[attrs]': "Group(path='/', url=None, data={}, attrs={'a': 1})",
 'walk[attrs]': "[('/', None, '/', [], [])]",
 'subtree[attrs]': ('ok', 'list', "[('/', 'Group', None, '/', [], ['a'], 0, [])]"),
 'decouple[attrs]': ('ok', 'Group', "Group(path='/', url=None, data={}, attrs={'a': 1})"),
 'groups[attrs]': ('dict', '{}'),
 'variables[attrs]': ('dict', '{}'),
 'groups_is_fresh[attrs]': True,
 'eq_other[attrs-none]': (('ok', 'bool', 'False'), ('ok', 'bool', 'True')),
 'eq_other[attrs-int]': (('ok', 'bool', 'False'), ('ok', 'bool', 'True')),
 'eq_other[attrs-dict]': (('ok', 'bool', 'False'), ('ok', 'bool', 'True')),
 'eq_other[attrs-variable]': (('ok', 'bool', 'False'), ('ok', 'bool', 'True')),
 'eq_other[attrs-str]': (('ok', 'bool', 'False'), ('ok', 'bool', 'True')),
 'repr[attrs_other]': "Group(path='/', url=None, data={}, attrs={'a': 2})",
 'walk[attrs_other]': "[('/', None, '/', [], [])]",
 'subtree[attrs_other]': ('ok', 'list', "[('/', 'Group', None, '/', [], ['a'], 0, [])]"),
 'decouple[attrs_other]': ('ok', 'Group', "Group(path='/', url=None, data={}, attrs={'a': 2})"),
 'groups[attrs_other]': ('dict', '{}'),
 'variables[attrs_other]': ('dict', '{}'),
 'groups_is_fresh[attrs_other]': True,
 'eq_other[attrs_other-none]': (('ok', 'bool', 'False'), ('ok', 'bool', 'True')),
 'eq_other[attrs_other-int]': (('ok', 'bool', 'False'), ('ok', 'bool', 'True')),
 'eq_other[attrs_other-dict]': (('ok', 'bool', 'False'), ('ok', 'bool', 'True')),
 'eq_other[attrs_other-variable]': (('ok', 'bool', 'False'), ('ok', 'bool', 'True')),
 'eq_other[attrs_other-str]': (('ok', 'bool', 'False'), ('ok', 'bool', 'True')),
 'repr[attrs_more]': "Group(path='/', url=None, data={}, attrs={'a': 1, 'b': 2})",
 'walk[attrs_more]': "[('/', None, '/', [], [])]",
 'subtree[attrs_more]': ('ok', 'list', "[('/', 'Group', None, '/', [], ['a', 'b'], 0, [])]"),
 'decouple[attrs_more]': ('ok', 'Group', "Group(path='/', url=None, data={}, attrs={'a': 1, 'b': 2})"),
 'groups[attrs_more]': ('dict', '{}'),
 'variables[attrs_more]': ('dict', '{}'),
 'groups_is_fresh[attrs_more]': True,
 'eq_other[attrs_more-none]': (('ok', 'bool', 'False'), ('ok', 'bool', 'True')),
 'eq_other[attrs_more-int]': (('ok', 'bool', 'False'), ('ok', 'bool', 'True')),
 'eq_other[attrs_more-dict]': (('ok', 'bool', 'False'), ('ok', 'bool', 'True')),
 'eq_other[attrs_more-variable]': (('ok', 'bool', 'False'), ('ok', 'bool', 'True')),
 'eq_other[attrs_more-str]': (('ok', 'bool', 'False'), ('ok', 'bool', 'True')),
 'repr[attrs_float_equal]': "Group(path='/', url=None, data={}, attrs={'a': 1.0})",
 'walk[attrs_float_equal]': "[('/', None, '/', [], [])]",
 'subtree[attrs_float_equal]': ('ok', 'list', "[('/', 'Group', None, '/', [], ['a'], 0, [])]"),
 'decouple[attrs_float_equal]': ('ok', 'Group', "Group(path='/', url=None, data={}, attrs={'a': 1.0})"),
 'groups[attrs_float_equal]': ('dict', '{}'),
 'variables[attrs_float_equal]': ('dict', '{}'),
 'groups_is_fresh[attrs_float_equal]': True,
 'eq_other[attrs_float_equal-none]': (('ok', 'bool', 'False'), ('ok', 'bool', 'True')),
 'eq_other[attrs_float_equal-int]': (('ok', 'bool', 'False'), ('ok', 'bool', 'True')),
 'eq_other[attrs_float_equal-dict]': (('ok', 'bool', 'False'), ('ok', 'bool', 'True')),
 'eq_other[attrs_float_equal-variable]': (('ok', 'bool', 'False'), ('ok', 'bool', 'True')),
 'eq_other[attrs_float_equal-str]': (('ok', 'bool', 'False'), ('ok', 'bool', 'True')),
 'repr[attrs_array]': "Group(path='/', url=None, data={}, attrs={'a': array([0, 1])})",
 'walk[attrs_array]': "[('/', None, '/', [], [])]",
 'subtree[attrs_array]': ('ok', 'list', "[('/', 'Group', None, '/', [], ['a'], 0, [])]"),
 'decouple[attrs_array]': ('ok', 'Group', "Group(path='/', url=None, data={}, attrs={'a': array([0, 1])})"),
 'groups[attrs_array]': ('dict', '{}'),
 'variables[attrs_array]': ('dict', '{}'),
 'groups_is_fresh[attrs_array]': True,
 'eq_other[attrs_array-none]': (('ok', 'bool', 'False'), ('ok', 'bool', 'True')),
 'eq_other[attrs_array-int]': (('ok', 'bool', 'False'), ('ok', 'bool', 'True')),
 'eq_other[attrs_array-dict]': (('ok', 'bool', 'False'), ('ok', 'bool', 'True')),
 'eq_other[attrs_array-variable]': (('ok', 'bool', 'False'), ('ok', 'bool', 'True')),
 'eq_other[attrs_array-str]': (('ok', 'bool', 'False'), ('ok', 'bool', 'True')),
 'repr[one_var]': "Group(path='/', url=None, data={'v': Variable(dims=['x'], data=array([0, 1, 2]), "
                  'attrs={})}, attrs={})',
 'walk[one_var]': "[('/', None, '/', [], ['v'])]",
 'subtree[one_var]': ('ok', 'list', "[('/', 'Group', None, '/', ['v'], [], 1, ['v'])]"),
 'decouple[one_var]': ('ok',
                       'Group',
                       "Group(path='/', url=None, data={'v': Variable(dims=['x'], data=array([0, 1, 2]), "
                       'attrs={})}, attrs={})'),
 'groups[one_var]': ('dict', '{}'),
 'variables[one_var]': ('dict', "{'v': Variable(dims=['x'], data=array([0, 1, 2]), attrs={})}"),
 'groups_is_fresh[one_var]': True,
 'eq_other[one_var-none]': (('ok', 'bool', 'False'), ('ok', 'bool', 'True')),
 'eq_other[one_var-int]': (('ok', 'bool', 'False'), ('ok', 'bool', 'True')),
 'eq_other[one_var-dict]': (('ok', 'bool', 'False'), ('ok', 'bool', 'True')),
 'eq_other[one_var-variable]': (('ok', 'bool', 'False'), ('ok', 'bool', 'True')),
 'eq_other[one_var-str]': (('ok', 'bool', 'False'), ('ok', 'bool', 'True')),
 'repr[one_var_copy]': "Group(path='/', url=None, data={'v': Variable(dims=['x'], data=array([0, 1, 2]), "
                       'attrs={})}, attrs={})',
 'walk[one_var_copy]': "[('/', None, '/', [], ['v'])]",
 'subtree[one_var_copy]': ('ok', 'list', "[('/', 'Group', None, '/', ['v'], [], 1, ['v'])]"),
 'decouple[one_var_copy]': ('ok',
                            'Group',
                            "Group(path='/', url=None, data={'v': Variable(dims=['x'], data=array([0, 1, "
                            '2]), attrs={})}, attrs={})'),
 'groups[one_var_copy]': ('dict', '{}'),
 'variables[one_var_copy]': ('dict', "{'v': Variable(dims=['x'], data=array([0, 1, 2]), attrs={})}"),
 'groups_is_fresh[one_var_copy]': True,
 'eq_other[one_var_copy-none]': (('ok', 'bool', 'False'), ('ok', 'bool', 'True')),
 'eq_other[one_var_copy-int]': (('ok', 'bool', 'False'), ('ok', 'bool', 'True')),
 'eq_other[one_var_copy-dict]': (('ok', 'bool', 'False'), ('ok', 'bool', 'True')),
 'eq_other[one_var_copy-variable]': (('ok', 'bool', 'False'), ('ok', 'bool', 'True')),
 'eq_other[one_var_copy-str]': (('ok', 'bool', 'False'), ('ok', 'bool', 'True')),
 'repr[one_var_other_data]': "Group(path='/', url=None, data={'v': Variable(dims=['x'], data=array([1, 2, "
                             '3]), attrs={})}, attrs={})',
 'walk[one_var_other_data]': "[('/', None, '/', [], ['v'])]",
 'subtree[one_var_other_data]': ('ok', 'list', "[('/', 'Group', None, '/', ['v'], [], 1, ['v'])]"),
 'decouple[one_var_other_data]': ('ok',
                                  'Group',
                                  "Group(path='/', url=None, data={'v': Variable(dims=['x'], data=array([1, "
                                  '2, 3]), attrs={})}, attrs={})'),
 'groups[one_var_other_data]': ('dict', '{}'),
 'variables[one_var_other_data]': ('dict', "{'v': Variable(dims=['x'], data=array([1, 2, 3]), attrs={})}"),
 'groups_is_fresh[one_var_other_data]': True,
 'eq_other[one_var_other_data-none]': (('ok', 'bool', 'False'), ('ok', 'bool', 'True')),
 'eq_other[one_var_other_data-int]': (('ok', 'bool', 'False'), ('ok', 'bool', 'True')),
 'eq_other[one_var_other_data-dict]': (('ok', 'bool', 'False'), ('ok', 'bool', 'True')),
 'eq_other[one_var_other_data-variable]': (('ok', 'bool', 'False'), ('ok', 'bool', 'True')),
 'eq_other[one_var_other_data-str]': (('ok', 'bool', 'False'), ('ok', 'bool', 'True')),
 'repr[one_var_other_shape]': "Group(path='/', url=None, data={'v': Variable(dims=['x'], data=array([0, 1, "
                              '2, 3]), attrs={})}, attrs={})',
 'walk[one_var_other_shape]': "[('/', None, '/', [], ['v'])]",
 'subtree[one_var_other_shape]': ('ok', 'list', "[('/', 'Group', None, '/', ['v'], [], 1, ['v'])]"),
 'decouple[one_var_other_shape]': ('ok',
                                   'Group',
                                   "Group(path='/', url=None, data={'v': Variable(dims=['x'], data=array([0, "
                                   '1, 2, 3]), attrs={})}, attrs={})'),
 'groups[one_var_other_shape]': ('dict', '{}'),
 'variables[one_var_other_shape]': ('dict',
                                    "{'v': Variable(dims=['x'], data=array([0, 1, 2, 3]), attrs={})}"),
 'groups_is_fresh[one_var_other_shape]': True,
 'eq_other[one_var_other_shape-none]': (('ok', 'bool', 'False'), ('ok', 'bool', 'True')),
 'eq_other[one_var_other_shape-int]': (('ok', 'bool', 'False'), ('ok', 'bool', 'True')),
 'eq_other[one_var_other_shape-dict]': (('ok', 'bool', 'False'), ('ok', 'bool', 'True')),
 'eq_other[one_var_other_shape-variable]': (('ok', 'bool', 'False'), ('ok', 'bool', 'True')),
 'eq_other[one_var_other_shape-str]': (('ok', 'bool', 'False'), ('ok', 'bool', 'True')),
 'repr[one_var_other_dims]': "Group(path='/', url=None, data={'v': Variable(dims=['y'], data=array([0, 1, "
                             '2]), attrs={})}, attrs={})',
 'walk[one_var_other_dims]': "[('/', None, '/', [], ['v'])]",
 'subtree[one_var_other_dims]': ('ok', 'list', "[('/', 'Group', None, '/', ['v'], [], 1, ['v'])]"),
 'decouple[one_var_other_dims]': ('ok',
                                  'Group',
                                  "Group(path='/', url=None, data={'v': Variable(dims=['y'], data=array([0, "
                                  '1, 2]), attrs={})}, attrs={})'),
 'groups[one_var_other_dims]': ('dict', '{}'),
 'variables[one_var_other_dims]': ('dict', "{'v': Variable(dims=['y'], data=array([0, 1, 2]), attrs={})}"),
 'groups_is_fresh[one_var_other_dims]': True,
 'eq_other[one_var_other_dims-none]': (('ok', 'bool', 'False'), ('ok', 'bool', 'True')),
 'eq_other[one_var_other_dims-int]': (('ok', 'bool', 'False'), ('ok', 'bool', 'True')),
 'eq_other[one_var_other_dims-dict]': (('ok', 'bool', 'False'), ('ok', 'bool', 'True')),
 'eq_other[one_var_other_dims-variable]': (('ok', 'bool', 'False'), ('ok', 'bool', 'True')),
 'eq_other[one_var_other_dims-str]': (('ok', 'bool', 'False'), ('ok', 'bool', 'True')),
 'repr[one_var_other_attrs]': "Group(path='/', url=None, data={'v': Variable(dims=['x'], data=array([0, 1, "
                              "2]), attrs={'u': 'm'})}, attrs={})",
 'walk[one_var_other_attrs]': "[('/', None, '/', [], ['v'])]",
 'subtree[one_var_other_attrs]': ('ok', 'list', "[('/', 'Group', None, '/', ['v'], [], 1, ['v'])]"),
 'decouple[one_var_other_attrs]': ('ok',
                                   'Group',
                                   "Group(path='/', url=None, data={'v': Variable(dims=['x'], data=array([0, "
                                   "1, 2]), attrs={'u': 'm'})}, attrs={})"),
 'groups[one_var_other_attrs]': ('dict', '{}'),
 'variables[one_var_other_attrs]': ('dict',
                                    "{'v': Variable(dims=['x'], data=array([0, 1, 2]), attrs={'u': 'm'})}"),
 'groups_is_fresh[one_var_other_attrs]': True,
 'eq_other[one_var_other_attrs-none]': (('ok', 'bool', 'False'), ('ok', 'bool', 'True')),
 'eq_other[one_var_other_attrs-int]': (('ok', 'bool', 'False'), ('ok', 'bool', 'True')),
 'eq_other[one_var_other_attrs-dict]': (('ok', 'bool', 'False'), ('ok', 'bool', 'True')),
 'eq_other[one_var_other_attrs-variable]': (('ok', 'bool', 'False'), ('ok', 'bool', 'True')),
 'eq_other[one_var_other_attrs-str]': (('ok', 'bool', 'False'), ('ok', 'bool', 'True')),
 'repr[one_var_list_data]': "Group(path='/', url=None, data={'v': Variable(dims=['x'], data=[0, 1, 2], "
                            'attrs={})}, attrs={})',
 'walk[one_var_list_data]': "[('/', None, '/', [], ['v'])]",
 'subtree[one_var_list_data]': ('ok', 'list', "[('/', 'Group', None, '/', ['v'], [], 1, ['v'])]"),
 'decouple[one_var_list_data]': ('ok',
                                 'Group',
                                 "Group(path='/', url=None, data={'v': Variable(dims=['x'], data=[0, 1, 2], "
                                 'attrs={})}, attrs={})'),
 'groups[one_var_list_data]': ('dict', '{}'),
 'variables[one_var_list_data]': ('dict', "{'v': Variable(dims=['x'], data=[0, 1, 2], attrs={})}"),
 'groups_is_fresh[one_var_list_data]': True,
 'eq_other[one_var_list_data-none]': (('ok', 'bool', 'False'), ('ok', 'bool', 'True')),
 'eq_other[one_var_list_data-int]': (('ok', 'bool', 'False'), ('ok', 'bool', 'True')),
 'eq_other[one_var_list_data-dict]': (('ok', 'bool', 'False'), ('ok', 'bool', 'True')),
 'eq_other[one_var_list_data-variable]': (('ok', 'bool', 'False'), ('ok', 'bool', 'True')),
 'eq_other[one_var_list_data-str]': (('ok', 'bool', 'False'), ('ok', 'bool', 'True')),
 'repr[one_var_other_name]': "Group(path='/', url=None, data={'w': Variable(dims=['x'], data=array([0, 1, "
                             '2]), attrs={})}, attrs={})',
 'walk[one_var_other_name]': "[('/', None, '/', [], ['w'])]",
 'subtree[one_var_other_name]': ('ok', 'list', "[('/', 'Group', None, '/', ['w'], [], 1, ['w'])]"),
 'decouple[one_var_other_name]': ('ok',
                                  'Group',
                                  "Group(path='/', url=None, data={'w': Variable(dims=['x'], data=array([0, "
                                  '1, 2]), attrs={})}, attrs={})'),
 'groups[one_var_other_name]': ('dict', '{}'),
 'variables[one_var_other_name]': ('dict', "{'w': Variable(dims=['x'], data=array([0, 1, 2]), attrs={})}"),
 'groups_is_fresh[one_var_other_name]': True,
 'eq_other[one_var_other_name-none]': (('ok', 'bool', 'False'), ('ok', 'bool', 'True')),
 'eq_other[one_var_other_name-int]': (('ok', 'bool', 'False'), ('ok', 'bool', 'True')),
 'eq_other[one_var_other_name-dict]': (('ok', 'bool', 'False'), ('ok', 'bool', 'True')),
 'eq_other[one_var_other_name-variable]': (('ok', 'bool', 'False'), ('ok', 'bool', 'True')),
 'eq_other[one_var_other_name-str]': (('ok', 'bool', 'False'), ('ok', 'bool', 'True')),
 'repr[two_vars]': "Group(path='/', url=None, data={'v': Variable(dims=['x'], data=array([0, 1, 2]), "
                   "attrs={}), 'w': Variable(dims=['x'], data=array([0, 1, 2]), attrs={})}, attrs={})",
 'walk[two_vars]': "[('/', None, '/', [], ['v', 'w'])]",
 'subtree[two_vars]': ('ok', 'list', "[('/', 'Group', None, '/', ['v', 'w'], [], 2, ['v', 'w'])]"),
 'decouple[two_vars]': ('ok',
                        'Group',
                        "Group(path='/', url=None, data={'v': Variable(dims=['x'], data=array([0, 1, 2]), "
                        "attrs={}), 'w': Variable(dims=['x'], data=array([0, 1, 2]), attrs={})}, attrs={})"),
 'groups[two_vars]': ('dict', '{}'),
 'variables[two_vars]': ('dict',
                         "{'v': Variable(dims=['x'], data=array([0, 1, 2]), attrs={}), 'w': "
                         "Variable(dims=['x'], data=array([0, 1, 2]), attrs={})}"),
 'groups_is_fresh[two_vars]': True,
 'eq_other[two_vars-none]': (('ok', 'bool', 'False'), ('ok', 'bool', 'True')),
 'eq_other[two_vars-int]': (('ok', 'bool', 'False'), ('ok', 'bool', 'True')),
 'eq_other[two_vars-dict]': (('ok', 'bool', 'False'), ('ok', 'bool', 'True')),
 'eq_other[two_vars-variable]': (('ok', 'bool', 'False'), ('ok', 'bool', 'True')),
 'eq_other[two_vars-str]': (('ok', 'bool', 'False'), ('ok', 'bool', 'True')),
 'repr[two_vars_reordered]': "Group(path='/', url=None, data={'w': Variable(dims=['x'], data=array([0, 1, "
                             "2]), attrs={}), 'v': Variable(dims=['x'], data=array([0, 1, 2]), attrs={})}, "
                             'attrs={})',
 'walk[two_vars_reordered]': "[('/', None, '/', [], ['w', 'v'])]",
 'subtree[two_vars_reordered]': ('ok', 'list', "[('/', 'Group', None, '/', ['w', 'v'], [], 2, ['w', 'v'])]"),
 'decouple[two_vars_reordered]': ('ok',
                                  'Group',
                                  "Group(path='/', url=None, data={'w': Variable(dims=['x'], data=array([0, "
                                  "1, 2]), attrs={}), 'v': Variable(dims=['x'], data=array([0, 1, 2]), "
                                  'attrs={})}, attrs={})'),
 'groups[two_vars_reordered]': ('dict', '{}'),
 'variables[two_vars_reordered]': ('dict',
                                   "{'w': Variable(dims=['x'], data=array([0, 1, 2]), attrs={}), 'v': "
                                   "Variable(dims=['x'], data=array([0, 1, 2]), attrs={})}"),
 'groups_is_fresh[two_vars_reordered]': True,
 'eq_other[two_vars_reordered-none]': (('ok', 'bool', 'False'), ('ok', 'bool', 'True')),
 'eq_other[two_vars_reordered-int]': (('ok', 'bool', 'False'), ('ok', 'bool', 'True')),
 'eq_other[two_vars_reordered-dict]': (('ok', 'bool', 'False'), ('ok', 'bool', 'True')),
 'eq_other[two_vars_reordered-variable]': (('ok', 'bool', 'False'), ('ok', 'bool', 'True')),
 'eq_other[two_vars_reordered-str]': (('ok', 'bool', 'False'), ('ok', 'bool', 'True')),
 'repr[array_var]': "Group(path='/', url=None, data={'v': Variable(dims=['rows', 'cols'], "
                    "data=Array(url='memory://image', shape=(4, 3), dtype='uint16', records_per_chunk=2), "
                    'attrs={})}, attrs={})',
 'walk[array_var]': "[('/', None, '/', [], ['v'])]",
 'subtree[array_var]': ('ok', 'list', "[('/', 'Group', None, '/', ['v'], [], 1, ['v'])]"),
 'decouple[array_var]': ('ok',
                         'Group',
                         "Group(path='/', url=None, data={'v': Variable(dims=['rows', 'cols'], "
                         "data=Array(url='memory://image', shape=(4, 3), dtype='uint16', "
                         'records_per_chunk=2), attrs={})}, attrs={})'),
 'groups[array_var]': ('dict', '{}'),
 'variables[array_var]': ('dict',
                          "{'v': Variable(dims=['rows', 'cols'], data=Array(url='memory://image', shape=(4, "
                          "3), dtype='uint16', records_per_chunk=2), attrs={})}"),
 'groups_is_fresh[array_var]': True,
 'eq_other[array_var-none]': (('ok', 'bool', 'False'), ('ok', 'bool', 'True')),
 'eq_other[array_var-int]': (('ok', 'bool', 'False'), ('ok', 'bool', 'True')),
 'eq_other[array_var-dict]': (('ok', 'bool', 'False'), ('ok', 'bool', 'True')),
 'eq_other[array_var-variable]': (('ok', 'bool', 'False'), ('ok', 'bool', 'True')),
 'eq_other[array_var-str]': (('ok', 'bool', 'False'), ('ok', 'bool', 'True')),
 'repr[array_var_copy]': "Group(path='/', url=None, data={'v': Variable(dims=['rows', 'cols'], "
                         "data=Array(url='memory://image', shape=(4, 3), dtype='uint16', "
                         'records_per_chunk=2), attrs={})}, attrs={})',
 'walk[array_var_copy]': "[('/', None, '/', [], ['v'])]",
 'subtree[array_var_copy]': ('ok', 'list', "[('/', 'Group', None, '/', ['v'], [], 1, ['v'])]"),
 'decouple[array_var_copy]': ('ok',
                              'Group',
                              "Group(path='/', url=None, data={'v': Variable(dims=['rows', 'cols'], "
                              "data=Array(url='memory://image', shape=(4, 3), dtype='uint16', "
                              'records_per_chunk=2), attrs={})}, attrs={})'),
 'groups[array_var_copy]': ('dict', '{}'),
 'variables[array_var_copy]': ('dict',
                               "{'v': Variable(dims=['rows', 'cols'], data=Array(url='memory://image', "
                               "shape=(4, 3), dtype='uint16', records_per_chunk=2), attrs={})}"),
 'groups_is_fresh[array_var_copy]': True,
 'eq_other[array_var_copy-none]': (('ok', 'bool', 'False'), ('ok', 'bool', 'True')),
 'eq_other[array_var_copy-int]': (('ok', 'bool', 'False'), ('ok', 'bool', 'True')),
 'eq_other[array_var_copy-dict]': (('ok', 'bool', 'False'), ('ok', 'bool', 'True')),
 'eq_other[array_var_copy-variable]': (('ok', 'bool', 'False'), ('ok', 'bool', 'True')),
 'eq_other[array_var_copy-str]': (('ok', 'bool', 'False'), ('ok', 'bool', 'True')),
 'repr[array_var_other_url]': "Group(path='/', url=None, data={'v': Variable(dims=['rows', 'cols'], "
                              "data=Array(url='memory://o', shape=(4, 3), dtype='uint16', "
                              'records_per_chunk=2), attrs={})}, attrs={})',
 'walk[array_var_other_url]': "[('/', None, '/', [], ['v'])]",
 'subtree[array_var_other_url]': ('ok', 'list', "[('/', 'Group', None, '/', ['v'], [], 1, ['v'])]"),
 'decouple[array_var_other_url]': ('ok',
                                   'Group',
                                   "Group(path='/', url=None, data={'v': Variable(dims=['rows', 'cols'], "
                                   "data=Array(url='memory://o', shape=(4, 3), dtype='uint16', "
                                   'records_per_chunk=2), attrs={})}, attrs={})'),
 'groups[array_var_other_url]': ('dict', '{}'),
 'variables[array_var_other_url]': ('dict',
                                    "{'v': Variable(dims=['rows', 'cols'], data=Array(url='memory://o', "
                                    "shape=(4, 3), dtype='uint16', records_per_chunk=2), attrs={})}"),
 'groups_is_fresh[array_var_other_url]': True,
 'eq_other[array_var_other_url-none]': (('ok', 'bool', 'False'), ('ok', 'bool', 'True')),
 'eq_other[array_var_other_url-int]': (('ok', 'bool', 'False'), ('ok', 'bool', 'True')),
 'eq_other[array_var_other_url-dict]': (('ok', 'bool', 'False'), ('ok', 'bool', 'True')),
 'eq_other[array_var_other_url-variable]': (('ok', 'bool', 'False'), ('ok', 'bool', 'True')),
 'eq_other[array_var_other_url-str]': (('ok', 'bool', 'False'), ('ok', 'bool', 'True')),
 'repr[array_var_other_chunks]': "Group(path='/', url=None, data={'v': Variable(dims=['rows', 'cols'], "
                                 "data=Array(url='memory://image', shape=(4, 3), dtype='uint16', "
                                 'records_per_chunk=1), attrs={})}, attrs={})',
 'walk[array_var_other_chunks]': "[('/', None, '/', [], ['v'])]",
 'subtree[array_var_other_chunks]': ('ok', 'list', "[('/', 'Group', None, '/', ['v'], [], 1, ['v'])]"),
 'decouple[array_var_other_chunks]': ('ok',
                                      'Group',
                                      "Group(path='/', url=None, data={'v': Variable(dims=['rows', 'cols'], "
                                      "data=Array(url='memory://image', shape=(4, 3), dtype='uint16', "
                                      'records_per_chunk=1), attrs={})}, attrs={})'),
 'groups[array_var_other_chunks]': ('dict', '{}'),
 'variables[array_var_other_chunks]': ('dict',
                                       "{'v': Variable(dims=['rows', 'cols'], "
                                       "data=Array(url='memory://image', shape=(4, 3), dtype='uint16', "
                                       'records_per_chunk=1), attrs={})}'),
 'groups_is_fresh[array_var_other_chunks]': True,
 'eq_other[array_var_other_chunks-none]': (('ok', 'bool', 'False'), ('ok', 'bool', 'True')),
 'eq_other[array_var_other_chunks-int]': (('ok', 'bool', 'False'), ('ok', 'bool', 'True')),
 'eq_other[array_var_other_chunks-dict]': (('ok', 'bool', 'False'), ('ok', 'bool', 'True')),
 'eq_other[array_var_other_chunks-variable]': (('ok', 'bool', 'False'), ('ok', 'bool', 'True')),
 'eq_other[array_var_other_chunks-str]': (('ok', 'bool', 'False'), ('ok', 'bool', 'True')),
 'repr[one_group]': "Group(path='/', url=None, data={'g': Group(path='/g', url=None, data={}, attrs={})}, "
                    'attrs={})',
 'walk[one_group]': "[('/', None, '/', ['g'], []), ('/g', None, 'g', [], [])]",
 'subtree[one_group]': ('ok',
                        'list',
                        "[('/', 'Group', None, '/', [], [], 0, []), ('/g', 'Group', None, 'g', [], [], 0, "
                        '[])]'),
 'decouple[one_group]': ('ok', 'Group', "Group(path='/', url=None, data={}, attrs={})"),
 'groups[one_group]': ('dict', "{'g': Group(path='/g', url=None, data={}, attrs={})}"),
 'variables[one_group]': ('dict', '{}'),
 'groups_is_fresh[one_group]': True,
 'eq_other[one_group-none]': (('ok', 'bool', 'False'), ('ok', 'bool', 'True')),
 'eq_other[one_group-int]': (('ok', 'bool', 'False'), ('ok', 'bool', 'True')),
 'eq_other[one_group-dict]': (('ok', 'bool', 'False'), ('ok', 'bool', 'True')),
 'eq_other[one_group-variable]': (('ok', 'bool', 'False'), ('ok', 'bool', 'True')),
 'eq_other[one_group-str]': (('ok', 'bool', 'False'), ('ok', 'bool', 'True')),
 'repr[one_group_copy]': "Group(path='/', url=None, data={'g': Group(path='/g', url=None, data={}, "
                         'attrs={})}, attrs={})',
 'walk[one_group_copy]': "[('/', None, '/', ['g'], []), ('/g', None, 'g', [], [])]",
 'subtree[one_group_copy]': ('ok',
                             'list',
                             "[('/', 'Group', None, '/', [], [], 0, []), ('/g', 'Group', None, 'g', [], [], "
                             '0, [])]'),
 'decouple[one_group_copy]': ('ok', 'Group', "Group(path='/', url=None, data={}, attrs={})"),
 'groups[one_group_copy]': ('dict', "{'g': Group(path='/g', url=None, data={}, attrs={})}"),
 'variables[one_group_copy]': ('dict', '{}'),
 'groups_is_fresh[one_group_copy]': True,
 'eq_other[one_group_copy-none]': (('ok', 'bool', 'False'), ('ok', 'bool', 'True')),
 'eq_other[one_group_copy-int]': (('ok', 'bool', 'False'), ('ok', 'bool', 'True')),
 'eq_other[one_group_copy-dict]': (('ok', 'bool', 'False'), ('ok', 'bool', 'True')),
 'eq_other[one_group_copy-variable]': (('ok', 'bool', 'False'), ('ok', 'bool', 'True')),
 'eq_other[one_group_copy-str]': (('ok', 'bool', 'False'), ('ok', 'bool', 'True')),
 'repr[one_group_attrs]': "Group(path='/', url=None, data={'g': Group(path='/g', url=None, data={}, "
                          "attrs={'a': 1})}, attrs={})",
 'walk[one_group_attrs]': "[('/', None, '/', ['g'], []), ('/g', None, 'g', [], [])]",
 'subtree[one_group_attrs]': ('ok',
                              'list',
                              "[('/', 'Group', None, '/', [], [], 0, []), ('/g', 'Group', None, 'g', [], "
                              "['a'], 0, [])]"),
 'decouple[one_group_attrs]': ('ok', 'Group', "Group(path='/', url=None, data={}, attrs={})"),
 'groups[one_group_attrs]': ('dict', "{'g': Group(path='/g', url=None, data={}, attrs={'a': 1})}"),
 'variables[one_group_attrs]': ('dict', '{}'),
 'groups_is_fresh[one_group_attrs]': True,
 'eq_other[one_group_attrs-none]': (('ok', 'bool', 'False'), ('ok', 'bool', 'True')),
 'eq_other[one_group_attrs-int]': (('ok', 'bool', 'False'), ('ok', 'bool', 'True')),
 'eq_other[one_group_attrs-dict]': (('ok', 'bool', 'False'), ('ok', 'bool', 'True')),
 'eq_other[one_group_attrs-variable]': (('ok', 'bool', 'False'), ('ok', 'bool', 'True')),
 'eq_other[one_group_attrs-str]': (('ok', 'bool', 'False'), ('ok', 'bool', 'True')),
 'repr[one_group_other_name]': "Group(path='/', url=None, data={'h': Group(path='/h', url=None, data={}, "
                               'attrs={})}, attrs={})',
 'walk[one_group_other_name]': "[('/', None, '/', ['h'], []), ('/h', None, 'h', [], [])]",
 'subtree[one_group_other_name]': ('ok',
                                   'list',
                                   "[('/', 'Group', None, '/', [], [], 0, []), ('/h', 'Group', None, 'h', "
                                   '[], [], 0, [])]'),
 'decouple[one_group_other_name]': ('ok', 'Group', "Group(path='/', url=None, data={}, attrs={})"),
 'groups[one_group_other_name]': ('dict', "{'h': Group(path='/h', url=None, data={}, attrs={})}"),
 'variables[one_group_other_name]': ('dict', '{}'),
 'groups_is_fresh[one_group_other_name]': True,
 'eq_other[one_group_other_name-none]': (('ok', 'bool', 'False'), ('ok', 'bool', 'True')),
 'eq_other[one_group_other_name-int]': (('ok', 'bool', 'False'), ('ok', 'bool', 'True')),
 'eq_other[one_group_other_name-dict]': (('ok', 'bool', 'False'), ('ok', 'bool', 'True')),
 'eq_other[one_group_other_name-variable]': (('ok', 'bool', 'False'), ('ok', 'bool', 'True')),
 'eq_other[one_group_other_name-str]': (('ok', 'bool', 'False'), ('ok', 'bool', 'True')),
 'repr[one_group_with_url]': "Group(path='/', url=None, data={'g': Group(path='/g', url='s3://bucket/x', "
                             'data={}, attrs={})}, attrs={})',
 'walk[one_group_with_url]': "[('/', None, '/', ['g'], []), ('/g', 's3://bucket/x', 'g', [], [])]",
 'subtree[one_group_with_url]': ('ok',
                                 'list',
                                 "[('/', 'Group', None, '/', [], [], 0, []), ('/g', 'Group', "
                                 "'s3://bucket/x', 'g', [], [], 0, [])]"),
 'decouple[one_group_with_url]': ('ok', 'Group', "Group(path='/', url=None, data={}, attrs={})"),
 'groups[one_group_with_url]': ('dict', "{'g': Group(path='/g', url='s3://bucket/x', data={}, attrs={})}"),
 'variables[one_group_with_url]': ('dict', '{}'),
 'groups_is_fresh[one_group_with_url]': True,
 'eq_other[one_group_with_url-none]': (('ok', 'bool', 'False'), ('ok', 'bool', 'True')),
 'eq_other[one_group_with_url-int]': (('ok', 'bool', 'False'), ('ok', 'bool', 'True')),
 'eq_other[one_group_with_url-dict]': (('ok', 'bool', 'False'), ('ok', 'bool', 'True')),
 'eq_other[one_group_with_url-variable]': (('ok', 'bool', 'False'), ('ok', 'bool', 'True')),
 'eq_other[one_group_with_url-str]': (('ok', 'bool', 'False'), ('ok', 'bool', 'True')),
 'repr[one_group_parent_url]': "Group(path='/', url='s3://bucket/x', data={'g': Group(path='/g', "
                               "url='s3://bucket/x', data={}, attrs={})}, attrs={})",
 'walk[one_group_parent_url]': "[('/', 's3://bucket/x', '/', ['g'], []), ('/g', 's3://bucket/x', 'g', [], "
                               '[])]',
 'subtree[one_group_parent_url]': ('ok',
                                   'list',
                                   "[('/', 'Group', 's3://bucket/x', '/', [], [], 0, []), ('/g', 'Group', "
                                   "'s3://bucket/x', 'g', [], [], 0, [])]"),
 'decouple[one_group_parent_url]': ('ok', 'Group', "Group(path='/', url='s3://bucket/x', data={}, attrs={})"),
 'groups[one_group_parent_url]': ('dict', "{'g': Group(path='/g', url='s3://bucket/x', data={}, attrs={})}"),
 'variables[one_group_parent_url]': ('dict', '{}'),
 'groups_is_fresh[one_group_parent_url]': True,
 'eq_other[one_group_parent_url-none]': (('ok', 'bool', 'False'), ('ok', 'bool', 'True')),
 'eq_other[one_group_parent_url-int]': (('ok', 'bool', 'False'), ('ok', 'bool', 'True')),
 'eq_other[one_group_parent_url-dict]': (('ok', 'bool', 'False'), ('ok', 'bool', 'True')),
 'eq_other[one_group_parent_url-variable]': (('ok', 'bool', 'False'), ('ok', 'bool', 'True')),
 'eq_other[one_group_parent_url-str]': (('ok', 'bool', 'False'), ('ok', 'bool', 'True')),
 'repr[one_group_both_url]': "Group(path='/', url='s3://bucket/x', data={'g': Group(path='/g', "
                             "url='s3://bucket/x', data={}, attrs={})}, attrs={})",
 'walk[one_group_both_url]': "[('/', 's3://bucket/x', '/', ['g'], []), ('/g', 's3://bucket/x', 'g', [], [])]",
 'subtree[one_group_both_url]': ('ok',
                                 'list',
                                 "[('/', 'Group', 's3://bucket/x', '/', [], [], 0, []), ('/g', 'Group', "
                                 "'s3://bucket/x', 'g', [], [], 0, [])]"),
 'decouple[one_group_both_url]': ('ok', 'Group', "Group(path='/', url='s3://bucket/x', data={}, attrs={})"),
 'groups[one_group_both_url]': ('dict', "{'g': Group(path='/g', url='s3://bucket/x', data={}, attrs={})}"),
 'variables[one_group_both_url]': ('dict', '{}'),
 'groups_is_fresh[one_group_both_url]': True,
 'eq_other[one_group_both_url-none]': (('ok', 'bool', 'False'), ('ok', 'bool', 'True')),
 'eq_other[one_group_both_url-int]': (('ok', 'bool', 'False'), ('ok', 'bool', 'True')),
 'eq_other[one_group_both_url-dict]': (('ok', 'bool', 'False'), ('ok', 'bool', 'True')),
 'eq_other[one_group_both_url-variable]': (('ok', 'bool', 'False'), ('ok', 'bool', 'True')),
 'eq_other[one_group_both_url-str]': (('ok', 'bool', 'False'), ('ok', 'bool', 'True')),
 'repr[name_clash_var_vs_group]': "Group(path='/', url=None, data={'g': Variable(dims=['x'], data=array([0, "
                                  '1, 2]), attrs={})}, attrs={})',
 'walk[name_clash_var_vs_group]': "[('/', None, '/', [], ['g'])]",
 'subtree[name_clash_var_vs_group]': ('ok', 'list', "[('/', 'Group', None, '/', ['g'], [], 1, ['g'])]"),
 'decouple[name_clash_var_vs_group]': ('ok',
                                       'Group',
                                       "Group(path='/', url=None, data={'g': Variable(dims=['x'], "
                                       'data=array([0, 1, 2]), attrs={})}, attrs={})'),
 'groups[name_clash_var_vs_group]': ('dict', '{}'),
 'variables[name_clash_var_vs_group]': ('dict',
                                        "{'g': Variable(dims=['x'], data=array([0, 1, 2]), attrs={})}"),
 'groups_is_fresh[name_clash_var_vs_group]': True,
 'eq_other[name_clash_var_vs_group-none]': (('ok', 'bool', 'False'), ('ok', 'bool', 'True')),
 'eq_other[name_clash_var_vs_group-int]': (('ok', 'bool', 'False'), ('ok', 'bool', 'True')),
 'eq_other[name_clash_var_vs_group-dict]': (('ok', 'bool', 'False'), ('ok', 'bool', 'True')),
 'eq_other[name_clash_var_vs_group-variable]': (('ok', 'bool', 'False'), ('ok', 'bool', 'True')),
 'eq_other[name_clash_var_vs_group-str]': (('ok', 'bool', 'False'), ('ok', 'bool', 'True')),
 'repr[mixed]': "Group(path='/', url=None, data={'v': Variable(dims=['x'], data=array([0, 1, 2]), attrs={}), "
                "'g': Group(path='/g', url=None, data={'w': Variable(dims=['x'], data=array([0, 1, 2]), "
                "attrs={})}, attrs={}), 'u': Variable(dims=['y'], data=array([0, 1, 2]), attrs={}), 'h': "
                "Group(path='/h', url=None, data={}, attrs={})}, attrs={})",
 'walk[mixed]': "[('/', None, '/', ['g', 'h'], ['v', 'u']), ('/g', None, 'g', [], ['w']), ('/h', None, 'h', "
                '[], [])]',
 'subtree[mixed]': ('ok',
                    'list',
                    "[('/', 'Group', None, '/', ['v', 'u'], [], 2, ['v', 'u']), ('/g', 'Group', None, 'g', "
                    "['w'], [], 1, ['w']), ('/h', 'Group', None, 'h', [], [], 0, [])]"),
 'decouple[mixed]': ('ok',
                     'Group',
                     "Group(path='/', url=None, data={'v': Variable(dims=['x'], data=array([0, 1, 2]), "
                     "attrs={}), 'u': Variable(dims=['y'], data=array([0, 1, 2]), attrs={})}, attrs={})"),
 'groups[mixed]': ('dict',
                   "{'g': Group(path='/g', url=None, data={'w': Variable(dims=['x'], data=array([0, 1, 2]), "
                   "attrs={})}, attrs={}), 'h': Group(path='/h', url=None, data={}, attrs={})}"),
 'variables[mixed]': ('dict',
                      "{'v': Variable(dims=['x'], data=array([0, 1, 2]), attrs={}), 'u': "
                      "Variable(dims=['y'], data=array([0, 1, 2]), attrs={})}"),
 'groups_is_fresh[mixed]': True,
 'eq_other[mixed-none]': (('ok', 'bool', 'False'), ('ok', 'bool', 'True')),
 'eq_other[mixed-int]': (('ok', 'bool', 'False'), ('ok', 'bool', 'True')),
 'eq_other[mixed-dict]': (('ok', 'bool', 'False'), ('ok', 'bool', 'True')),
 'eq_other[mixed-variable]': (('ok', 'bool', 'False'), ('ok', 'bool', 'True')),
 'eq_other[mixed-str]': (('ok', 'bool', 'False'), ('ok', 'bool', 'True')),
 'repr[mixed_interleaved_differently]': "Group(path='/', url=None, data={'g': Group(path='/g', url=None, "
                                        "data={'w': Variable(dims=['x'], data=array([0, 1, 2]), attrs={})}, "
                                        "attrs={}), 'h': Group(path='/h', url=None, data={}, attrs={}), 'v': "
                                        "Variable(dims=['x'], data=array([0, 1, 2]), attrs={}), 'u': "
                                        "Variable(dims=['y'], data=array([0, 1, 2]), attrs={})}, attrs={})",
 'walk[mixed_interleaved_differently]': "[('/', None, '/', ['g', 'h'], ['v', 'u']), ('/g', None, 'g', [], "
                                        "['w']), ('/h', None, 'h', [], [])]",
 'subtree[mixed_interleaved_differently]': ('ok',
                                            'list',
                                            "[('/', 'Group', None, '/', ['v', 'u'], [], 2, ['v', 'u']), "
                                            "('/g', 'Group', None, 'g', ['w'], [], 1, ['w']), ('/h', "
                                            "'Group', None, 'h', [], [], 0, [])]"),
 'decouple[mixed_interleaved_differently]': ('ok',
                                             'Group',
                                             "Group(path='/', url=None, data={'v': Variable(dims=['x'], "
                                             "data=array([0, 1, 2]), attrs={}), 'u': Variable(dims=['y'], "
                                             'data=array([0, 1, 2]), attrs={})}, attrs={})'),
 'groups[mixed_interleaved_differently]': ('dict',
                                           "{'g': Group(path='/g', url=None, data={'w': Variable(dims=['x'], "
                                           "data=array([0, 1, 2]), attrs={})}, attrs={}), 'h': "
                                           "Group(path='/h', url=None, data={}, attrs={})}"),
 'variables[mixed_interleaved_differently]': ('dict',
                                              "{'v': Variable(dims=['x'], data=array([0, 1, 2]), attrs={}), "
                                              "'u': Variable(dims=['y'], data=array([0, 1, 2]), attrs={})}"),
 'groups_is_fresh[mixed_interleaved_differently]': True,
 'eq_other[mixed_interleaved_differently-none]': (('ok', 'bool', 'False'), ('ok', 'bool', 'True')),
 'eq_other[mixed_interleaved_differently-int]': (('ok', 'bool', 'False'), ('ok', 'bool', 'True')),
 'eq_other[mixed_interleaved_differently-dict]': (('ok', 'bool', 'False'), ('ok', 'bool', 'True')),
 'eq_other[mixed_interleaved_differently-variable]': (('ok', 'bool', 'False'), ('ok', 'bool', 'True')),
 'eq_other[mixed_interleaved_differently-str]': (('ok', 'bool', 'False'), ('ok', 'bool', 'True')),
 'repr[mixed_groups_reordered]': "Group(path='/', url=None, data={'v': Variable(dims=['x'], data=array([0, "
                                 "1, 2]), attrs={}), 'h': Group(path='/h', url=None, data={}, attrs={}), "
                                 "'u': Variable(dims=['y'], data=array([0, 1, 2]), attrs={}), 'g': "
                                 "Group(path='/g', url=None, data={'w': Variable(dims=['x'], data=array([0, "
                                 '1, 2]), attrs={})}, attrs={})}, attrs={})',
 'walk[mixed_groups_reordered]': "[('/', None, '/', ['h', 'g'], ['v', 'u']), ('/h', None, 'h', [], []), "
                                 "('/g', None, 'g', [], ['w'])]",
 'subtree[mixed_groups_reordered]': ('ok',
                                     'list',
                                     "[('/', 'Group', None, '/', ['v', 'u'], [], 2, ['v', 'u']), ('/h', "
                                     "'Group', None, 'h', [], [], 0, []), ('/g', 'Group', None, 'g', ['w'], "
                                     "[], 1, ['w'])]"),
 'decouple[mixed_groups_reordered]': ('ok',
                                      'Group',
                                      "Group(path='/', url=None, data={'v': Variable(dims=['x'], "
                                      "data=array([0, 1, 2]), attrs={}), 'u': Variable(dims=['y'], "
                                      'data=array([0, 1, 2]), attrs={})}, attrs={})'),
 'groups[mixed_groups_reordered]': ('dict',
                                    "{'h': Group(path='/h', url=None, data={}, attrs={}), 'g': "
                                    "Group(path='/g', url=None, data={'w': Variable(dims=['x'], "
                                    'data=array([0, 1, 2]), attrs={})}, attrs={})}'),
 'variables[mixed_groups_reordered]': ('dict',
                                       "{'v': Variable(dims=['x'], data=array([0, 1, 2]), attrs={}), 'u': "
                                       "Variable(dims=['y'], data=array([0, 1, 2]), attrs={})}"),
 'groups_is_fresh[mixed_groups_reordered]': True,
 'eq_other[mixed_groups_reordered-none]': (('ok', 'bool', 'False'), ('ok', 'bool', 'True')),
 'eq_other[mixed_groups_reordered-int]': (('ok', 'bool', 'False'), ('ok', 'bool', 'True')),
 'eq_other[mixed_groups_reordered-dict]': (('ok', 'bool', 'False'), ('ok', 'bool', 'True')),
 'eq_other[mixed_groups_reordered-variable]': (('ok', 'bool', 'False'), ('ok', 'bool', 'True')),
 'eq_other[mixed_groups_reordered-str]': (('ok', 'bool', 'False'), ('ok', 'bool', 'True')),
 'repr[mixed_deep_difference]': "Group(path='/', url=None, data={'v': Variable(dims=['x'], data=array([0, 1, "
                                "2]), attrs={}), 'g': Group(path='/g', url=None, data={'w': "
                                "Variable(dims=['x'], data=array([0, 2, 4]), attrs={})}, attrs={}), 'u': "
                                "Variable(dims=['y'], data=array([0, 1, 2]), attrs={}), 'h': "
                                "Group(path='/h', url=None, data={}, attrs={})}, attrs={})",
 'walk[mixed_deep_difference]': "[('/', None, '/', ['g', 'h'], ['v', 'u']), ('/g', None, 'g', [], ['w']), "
                                "('/h', None, 'h', [], [])]",
 'subtree[mixed_deep_difference]': ('ok',
                                    'list',
                                    "[('/', 'Group', None, '/', ['v', 'u'], [], 2, ['v', 'u']), ('/g', "
                                    "'Group', None, 'g', ['w'], [], 1, ['w']), ('/h', 'Group', None, 'h', "
                                    '[], [], 0, [])]'),
 'decouple[mixed_deep_difference]': ('ok',
                                     'Group',
                                     "Group(path='/', url=None, data={'v': Variable(dims=['x'], "
                                     "data=array([0, 1, 2]), attrs={}), 'u': Variable(dims=['y'], "
                                     'data=array([0, 1, 2]), attrs={})}, attrs={})'),
 'groups[mixed_deep_difference]': ('dict',
                                   "{'g': Group(path='/g', url=None, data={'w': Variable(dims=['x'], "
                                   "data=array([0, 2, 4]), attrs={})}, attrs={}), 'h': Group(path='/h', "
                                   'url=None, data={}, attrs={})}'),
 'variables[mixed_deep_difference]': ('dict',
                                      "{'v': Variable(dims=['x'], data=array([0, 1, 2]), attrs={}), 'u': "
                                      "Variable(dims=['y'], data=array([0, 1, 2]), attrs={})}"),
 'groups_is_fresh[mixed_deep_difference]': True,
 'eq_other[mixed_deep_difference-none]': (('ok', 'bool', 'False'), ('ok', 'bool', 'True')),
 'eq_other[mixed_deep_difference-int]': (('ok', 'bool', 'False'), ('ok', 'bool', 'True')),
 'eq_other[mixed_deep_difference-dict]': (('ok', 'bool', 'False'), ('ok', 'bool', 'True')),
 'eq_other[mixed_deep_difference-variable]': (('ok', 'bool', 'False'), ('ok', 'bool', 'True')),
 'eq_other[mixed_deep_difference-str]': (('ok', 'bool', 'False'), ('ok', 'bool', 'True')),
 'repr[deep]': "Group(path='/root', url='file:///data', data={'a': Group(path='/root/a', url='file:///data', "
               "data={'b': Group(path='/root/a/b', url='file:///data', data={'c': Group(path='/root/a/b/c', "
               "url='file:///data', data={'v': Variable(dims=['x'], data=array([0, 1, 2]), attrs={})}, "
               "attrs={'k': 1})}, attrs={})}, attrs={}), 'x': Group(path='/root/x', url='http://elsewhere', "
               "data={'y': Group(path='/root/x/y', url='http://elsewhere', data={}, attrs={}), 'z': "
               "Group(path='/root/x/z', url='ftp://third', data={}, attrs={})}, attrs={}), 'v': "
               "Variable(dims=['x'], data=array([0, 1, 2]), attrs={})}, attrs={'top': True})",
 'walk[deep]': "[('/root', 'file:///data', 'root', ['a', 'x'], ['v']), ('/root/a', 'file:///data', 'a', "
               "['b'], []), ('/root/a/b', 'file:///data', 'b', ['c'], []), ('/root/a/b/c', 'file:///data', "
               "'c', [], ['v']), ('/root/x', 'http://elsewhere', 'x', ['y', 'z'], []), ('/root/x/y', "
               "'http://elsewhere', 'y', [], []), ('/root/x/z', 'ftp://third', 'z', [], [])]",
 'subtree[deep]': ('ok',
                   'list',
                   "[('/root', 'Group', 'file:///data', 'root', ['v'], ['top'], 1, ['v']), ('/root/a', "
                   "'Group', 'file:///data', 'a', [], [], 0, []), ('/root/a/b', 'Group', 'file:///data', "
                   "'b', [], [], 0, []), ('/root/a/b/c', 'Group', 'file:///data', 'c', ['v'], ['k'], 1, "
                   "['v']), ('/root/x', 'Group', 'http://elsewhere', 'x', [], [], 0, []), ('/root/x/y', "
                   "'Group', 'http://elsewhere', 'y', [], [], 0, []), ('/root/x/z', 'Group', 'ftp://third', "
                   "'z', [], [], 0, [])]"),
 'decouple[deep]': ('ok',
                    'Group',
                    "Group(path='/root', url='file:///data', data={'v': Variable(dims=['x'], data=array([0, "
                    "1, 2]), attrs={})}, attrs={'top': True})"),
 'groups[deep]': ('dict',
                  "{'a': Group(path='/root/a', url='file:///data', data={'b': Group(path='/root/a/b', "
                  "url='file:///data', data={'c': Group(path='/root/a/b/c', url='file:///data', data={'v': "
                  "Variable(dims=['x'], data=array([0, 1, 2]), attrs={})}, attrs={'k': 1})}, attrs={})}, "
                  "attrs={}), 'x': Group(path='/root/x', url='http://elsewhere', data={'y': "
                  "Group(path='/root/x/y', url='http://elsewhere', data={}, attrs={}), 'z': "
                  "Group(path='/root/x/z', url='ftp://third', data={}, attrs={})}, attrs={})}"),
 'variables[deep]': ('dict', "{'v': Variable(dims=['x'], data=array([0, 1, 2]), attrs={})}"),
 'groups_is_fresh[deep]': True,
 'eq_other[deep-none]': (('ok', 'bool', 'False'), ('ok', 'bool', 'True')),
 'eq_other[deep-int]': (('ok', 'bool', 'False'), ('ok', 'bool', 'True')),
 'eq_other[deep-dict]': (('ok', 'bool', 'False'), ('ok', 'bool', 'True')),
 'eq_other[deep-variable]': (('ok', 'bool', 'False'), ('ok', 'bool', 'True')),
 'eq_other[deep-str]': (('ok', 'bool', 'False'), ('ok', 'bool', 'True')),
 'repr[foreign_value]': "Group(path='/', url=None, data={'n': 1, 's': 'text', 'v': Variable(dims=['x'], "
                        "data=array([0, 1, 2]), attrs={}), 'g': Group(path='/g', url=None, data={}, "
                        'attrs={})}, attrs={})',
 'walk[foreign_value]': "[('/', None, '/', ['g'], ['v']), ('/g', None, 'g', [], [])]",
 'subtree[foreign_value]': ('ok',
                            'list',
                            "[('/', 'Group', None, '/', ['v'], [], 1, ['v']), ('/g', 'Group', None, 'g', [], "
                            '[], 0, [])]'),
 'decouple[foreign_value]': ('ok',
                             'Group',
                             "Group(path='/', url=None, data={'v': Variable(dims=['x'], data=array([0, 1, "
                             '2]), attrs={})}, attrs={})'),
 'groups[foreign_value]': ('dict', "{'g': Group(path='/g', url=None, data={}, attrs={})}"),
 'variables[foreign_value]': ('dict', "{'v': Variable(dims=['x'], data=array([0, 1, 2]), attrs={})}"),
 'groups_is_fresh[foreign_value]': True,
 'eq_other[foreign_value-none]': (('ok', 'bool', 'False'), ('ok', 'bool', 'True')),
 'eq_other[foreign_value-int]': (('ok', 'bool', 'False'), ('ok', 'bool', 'True')),
 'eq_other[foreign_value-dict]': (('ok', 'bool', 'False'), ('ok', 'bool', 'True')),
 'eq_other[foreign_value-variable]': (('ok', 'bool', 'False'), ('ok', 'bool', 'True')),
 'eq_other[foreign_value-str]': (('ok', 'bool', 'False'), ('ok', 'bool', 'True')),
 'repr[foreign_value_other]': "Group(path='/', url=None, data={'n': 2, 's': 'other', 'v': "
                              "Variable(dims=['x'], data=array([0, 1, 2]), attrs={}), 'g': Group(path='/g', "
                              'url=None, data={}, attrs={})}, attrs={})',
 'walk[foreign_value_other]': "[('/', None, '/', ['g'], ['v']), ('/g', None, 'g', [], [])]",
 'subtree[foreign_value_other]': ('ok',
                                  'list',
                                  "[('/', 'Group', None, '/', ['v'], [], 1, ['v']), ('/g', 'Group', None, "
                                  "'g', [], [], 0, [])]"),
 'decouple[foreign_value_other]': ('ok',
                                   'Group',
                                   "Group(path='/', url=None, data={'v': Variable(dims=['x'], data=array([0, "
                                   '1, 2]), attrs={})}, attrs={})'),
 'groups[foreign_value_other]': ('dict', "{'g': Group(path='/g', url=None, data={}, attrs={})}"),
 'variables[foreign_value_other]': ('dict', "{'v': Variable(dims=['x'], data=array([0, 1, 2]), attrs={})}"),
 'groups_is_fresh[foreign_value_other]': True,
 'eq_other[foreign_value_other-none]': (('ok', 'bool', 'False'), ('ok', 'bool', 'True')),
 'eq_other[foreign_value_other-int]': (('ok', 'bool', 'False'), ('ok', 'bool', 'True')),
 'eq_other[foreign_value_other-dict]': (('ok', 'bool', 'False'), ('ok', 'bool', 'True')),
 'eq_other[foreign_value_other-variable]': (('ok', 'bool', 'False'), ('ok', 'bool', 'True')),
 'eq_other[foreign_value_other-str]': (('ok', 'bool', 'False'), ('ok', 'bool', 'True')),
 'eq_row[empty]': 'TTFFFFFFFFFFFFFFFFFFFFFFFFFFFFFFFFFFFFFF',
 'eq_row[empty_root_path]': 'TTFFFFFFFFFFFFFFFFFFFFFFFFFFFFFFFFFFFFFF',
 'eq_row[empty_other_path]': 'FFTFFFFFFFFFFFFFFFFFFFFFFFFFFFFFFFFFFFFF',
 'eq_row[empty_relative_path]': 'FFFTFFFFFFFFFFFFFFFFFFFFFFFFFFFFFFFFFFFF',
 'eq_row[empty_url]': 'FFFFTFFFFFFFFFFFFFFFFFFFFFFFFFFFFFFFFFFF',
 'eq_row[empty_url2]': 'FFFFFTFFFFFFFFFFFFFFFFFFFFFFFFFFFFFFFFFF',
 'eq_row[attrs]': 'FFFFFFTFFT?FFFFFFFFFFFFFFFFFFFFFFFFFFFFF',
 'eq_row_details[attrs]': {'attrs_array': '!ValueError:The truth value of an array with more than one '
                                          'element is ambiguous. Use a.any() or a.all()'},
 'eq_row[attrs_other]': 'FFFFFFFTFF?FFFFFFFFFFFFFFFFFFFFFFFFFFFFF',
 'eq_row_details[attrs_other]': {'attrs_array': '!ValueError:The truth value of an array with more than one '
                                                'element is ambiguous. Use a.any() or a.all()'},
 'eq_row[attrs_more]': 'FFFFFFFFTFFFFFFFFFFFFFFFFFFFFFFFFFFFFFFF',
 'eq_row[attrs_float_equal]': 'FFFFFFTFFT?FFFFFFFFFFFFFFFFFFFFFFFFFFFFF',
 'eq_row_details[attrs_float_equal]': {'attrs_array': '!ValueError:The truth value of an array with more '
                                                      'than one element is ambiguous. Use a.any() or '
                                                      'a.all()'},
 'eq_row[attrs_array]': 'FFFFFF??F?TFFFFFFFFFFFFFFFFFFFFFFFFFFFFF',
 'eq_row_details[attrs_array]': {'attrs': '!ValueError:The truth value of an array with more than one '
                                          'element is ambiguous. Use a.any() or a.all()',
                                 'attrs_other': '!ValueError:The truth value of an array with more than one '
                                                'element is ambiguous. Use a.any() or a.all()',
                                 'attrs_float_equal': '!ValueError:The truth value of an array with more '
                                                      'than one element is ambiguous. Use a.any() or '
                                                      'a.all()'},
 'eq_row[one_var]': 'FFFFFFFFFFFTTF?FFFFFFFFFFFFFFFFFFFFFFFFF',
 'eq_row_details[one_var]': {'one_var_other_shape': '!ValueError:operands could not be broadcast together '
                                                    'with shapes (3,) (4,) '},
 'eq_row[one_var_copy]': 'FFFFFFFFFFFTTF?FFFFFFFFFFFFFFFFFFFFFFFFF',
 'eq_row_details[one_var_copy]': {'one_var_other_shape': '!ValueError:operands could not be broadcast '
                                                         'together with shapes (3,) (4,) '},
 'eq_row[one_var_other_data]': 'FFFFFFFFFFFFFT?FFFFFFFFFFFFFFFFFFFFFFFFF',
 'eq_row_details[one_var_other_data]': {'one_var_other_shape': '!ValueError:operands could not be broadcast '
                                                               'together with shapes (3,) (4,) '},
 'eq_row[one_var_other_shape]': 'FFFFFFFFFFF???TFFFFFFFFFFFFFFFFFFFFFFFFF',
 'eq_row_details[one_var_other_shape]': {'one_var': '!ValueError:operands could not be broadcast together '
                                                    'with shapes (4,) (3,) ',
                                         'one_var_copy': '!ValueError:operands could not be broadcast '
                                                         'together with shapes (4,) (3,) ',
                                         'one_var_other_data': '!ValueError:operands could not be broadcast '
                                                               'together with shapes (4,) (3,) '},
 'eq_row[one_var_other_dims]': 'FFFFFFFFFFFFFFFTFFFFFFFFFFFFFFFFFFFFFFFF',
 'eq_row[one_var_other_attrs]': 'FFFFFFFFFFFFFFFFTFFFFFFFFFFFFFFFFFFFFFFF',
 'eq_row[one_var_list_data]': 'FFFFFFFFFFFFFFFFFTFFFFFFFFFFFFFFFFFFFFFF',
 'eq_row[one_var_other_name]': 'FFFFFFFFFFFFFFFFFFTFFFFFFFFFFFFFFFFFFFFF',
 'eq_row[two_vars]': 'FFFFFFFFFFFFFFFFFFFTFFFFFFFFFFFFFFFFFFFF',
 'eq_row[two_vars_reordered]': 'FFFFFFFFFFFFFFFFFFFFTFFFFFFFFFFFFFFFFFFF',
 'eq_row[array_var]': 'FFFFFFFFFFFFFFFFFFFFFTTFFFFFFFFFFFFFFFFF',
 'eq_row[array_var_copy]': 'FFFFFFFFFFFFFFFFFFFFFTTFFFFFFFFFFFFFFFFF',
 'eq_row[array_var_other_url]': 'FFFFFFFFFFFFFFFFFFFFFFFTFFFFFFFFFFFFFFFF',
 'eq_row[array_var_other_chunks]': 'FFFFFFFFFFFFFFFFFFFFFFFFTFFFFFFFFFFFFFFF',
 'eq_row[one_group]': 'FFFFFFFFFFFFFFFFFFFFFFFFFTTFFFFFFFFFFFFF',
 'eq_row[one_group_copy]': 'FFFFFFFFFFFFFFFFFFFFFFFFFTTFFFFFFFFFFFFF',
 'eq_row[one_group_attrs]': 'FFFFFFFFFFFFFFFFFFFFFFFFFFFTFFFFFFFFFFFF',
 'eq_row[one_group_other_name]': 'FFFFFFFFFFFFFFFFFFFFFFFFFFFFTFFFFFFFFFFF',
 'eq_row[one_group_with_url]': 'FFFFFFFFFFFFFFFFFFFFFFFFFFFFFTFFFFFFFFFF',
 'eq_row[one_group_parent_url]': 'FFFFFFFFFFFFFFFFFFFFFFFFFFFFFFTTFFFFFFFF',
 'eq_row[one_group_both_url]': 'FFFFFFFFFFFFFFFFFFFFFFFFFFFFFFTTFFFFFFFF',
 'eq_row[name_clash_var_vs_group]': 'FFFFFFFFFFFFFFFFFFFFFFFFFFFFFFFFTFFFFFFF',
 'eq_row[mixed]': 'FFFFFFFFFFFFFFFFFFFFFFFFFFFFFFFFFTTFFFFF',
 'eq_row[mixed_interleaved_differently]': 'FFFFFFFFFFFFFFFFFFFFFFFFFFFFFFFFFTTFFFFF',
 'eq_row[mixed_groups_reordered]': 'FFFFFFFFFFFFFFFFFFFFFFFFFFFFFFFFFFFTFFFF',
 'eq_row[mixed_deep_difference]': 'FFFFFFFFFFFFFFFFFFFFFFFFFFFFFFFFFFFFTFFF',
 'eq_row[deep]': 'FFFFFFFFFFFFFFFFFFFFFFFFFFFFFFFFFFFFFTFF',
 'eq_row[foreign_value]': 'FFFFFFFFFFFFFFFFFFFFFFFFFFFFFFFFFFFFFFTT',
 'eq_row[foreign_value_other]': 'FFFFFFFFFFFFFFFFFFFFFFFFFFFFFFFFFFFFFFTT',
 'eq_trace[all_equal]': (('ok', 'bool', 'True'),
                         [('L.v1', 'R.v1'), ('L.v2', 'R.v2'), ('L.g1', 'R.g1'), ('L.g2', 'R.g2')]),
 'eq_trace[first_var_differs]': (('ok', 'bool', 'False'), [('L.v1', 'R.v1')]),
 'eq_trace[second_var_differs]': (('ok', 'bool', 'False'), [('L.v1', 'R.v1'), ('L.v2', 'R.v2')]),
 'eq_trace[first_group_differs]': (('ok', 'bool', 'False'),
                                   [('L.v1', 'R.v1'), ('L.v2', 'R.v2'), ('L.g1', 'R.g1')]),
 'eq_trace[second_group_differs]': (('ok', 'bool', 'False'),
                                    [('L.v1', 'R.v1'), ('L.v2', 'R.v2'), ('L.g1', 'R.g1'), ('L.g2', 'R.g2')]),
 'eq_trace[numpy_bools]': (('ok', 'bool', 'False'),
                           [('L.v1', 'R.v1'), ('L.v2', 'R.v2'), ('L.g1', 'R.g1'), ('L.g2', 'R.g2')]),
 'eq_trace[truthy_objects]': (('ok', 'bool', 'True'),
                              [('L.v1', 'R.v1'), ('L.v2', 'R.v2'), ('L.g1', 'R.g1'), ('L.g2', 'R.g2')]),
 'eq_trace[falsy_objects]': (('ok', 'bool', 'False'), [('L.v1', 'R.v1'), ('L.v2', 'R.v2')]),
 'eq_trace[none_result]': (('ok', 'bool', 'False'), [('L.v1', 'R.v1'), ('L.v2', 'R.v2'), ('L.g1', 'R.g1')]),
 'eq_trace[zero_dim_array]': (('ok', 'bool', 'False'), [('L.v1', 'R.v1'), ('L.v2', 'R.v2')]),
 'eq_trace[ambiguous_array]': (('raise',
                                'ValueError',
                                'The truth value of an array with more than one element is ambiguous. Use '
                                'a.any() or a.all()'),
                               [('L.v1', 'R.v1'), ('L.v2', 'R.v2')]),
 'eq_trace[raises]': (('raise', 'RuntimeError', 'boom'), [('L.v1', 'R.v1'), ('L.v2', 'R.v2')]),
 'eq_trace[not_implemented]': (('ok', 'bool', 'False'), [('L.v1', 'R.v1'), ('R.v1', 'L.v1')]),
 'adjust_construct': "[('/p', 's3://b', 'p', ['c'], ['v']), ('/p/c', 's3://b', 'c', ['gc'], []), ('/p/c/gc', "
                     "'s3://b', 'gc', [], ['v'])]",
 'adjust_construct_copies': (False, False, True, False, False, True, False, True, True),
 'adjust_construct_original_untouched': "[('/ignored', None, 'ignored', ['gc'], []), ('/ignored/gc', None, "
                                        "'gc', [], ['v'])]",
 'adjust_setitem': "[('/p', 's3://b', 'p', ['c', 'n'], ['v', 'w']), ('/p/c', 's3://b', 'c', ['gc', 'late'], "
                   "[]), ('/p/c/gc', 's3://b', 'gc', [], ['v']), ('/p/c/late', 's3://b', 'late', ['deep'], "
                   "[]), ('/p/c/late/deep', 's3://b', 'deep', [], []), ('/p/n', 'http://own', 'n', ['k'], "
                   "[]), ('/p/n/k', 'http://own', 'k', [], [])]",
 'adjust_setitem_repr': "Group(path='/p', url='s3://b', data={'c': Group(path='/p/c', url='s3://b', "
                        "data={'gc': Group(path='/p/c/gc', url='s3://b', data={'v': Variable(dims=['x'], "
                        "data=array([0, 1, 2]), attrs={})}, attrs={}), 'late': Group(path='/p/c/late', "
                        "url='s3://b', data={'deep': Group(path='/p/c/late/deep', url='s3://b', data={}, "
                        "attrs={})}, attrs={})}, attrs={'c': 1}), 'v': Variable(dims=['x'], data=array([0, "
                        "1, 2]), attrs={}), 'n': Group(path='/p/n', url='http://own', data={'k': "
                        "Group(path='/p/n/k', url='http://own', data={}, attrs={})}, attrs={}), 'w': "
                        "Variable(dims=['a', 'b'], data=array([[0., 0.],\n"
                        "       [0., 0.]]), attrs={}), 'scalar': 5, 'text': 'abc', 'none': None, 'lst': [1, "
                        '2]}, attrs={})',
 'adjust_setitem_copies': (False, False),
 'adjust_setitem_original_untouched': "[('/', 'http://own', '/', ['k'], []), ('/k', 'http://own', 'k', [], "
                                      '[])]',
 'adjust_setitem_subtree': ('ok',
                            'list',
                            "[('/p', 'Group', 's3://b', 'p', ['v', 'w'], [], 2, ['v', 'w']), ('/p/c', "
                            "'Group', 's3://b', 'c', [], ['c'], 0, []), ('/p/c/gc', 'Group', 's3://b', 'gc', "
                            "['v'], [], 1, ['v']), ('/p/c/late', 'Group', 's3://b', 'late', [], [], 0, []), "
                            "('/p/c/late/deep', 'Group', 's3://b', 'deep', [], [], 0, []), ('/p/n', 'Group', "
                            "'http://own', 'n', [], [], 0, []), ('/p/n/k', 'Group', 'http://own', 'k', [], "
                            '[], 0, [])]'),
 'getitem_missing': ('raise', 'KeyError', "'missing'"),
 'len_iter': (8,
              ['c', 'v', 'n', 'w', 'scalar', 'text', 'none', 'lst'],
              True,
              False,
              ['c', 'v', 'n', 'w', 'scalar', 'text', 'none', 'lst']),
 'adjust_foreign_copy': (False, True),
 'adjust_uncopyable': ('raise', 'TypeError', "cannot pickle 'generator' object"),
 'adjust_data_not_mapping': ('raise', 'AttributeError', "'list' object has no attribute 'items'"),
 'adjust_child_name_int': ('raise',
                           'TypeError',
                           "join() argument must be str, bytes, or os.PathLike object, not 'int'"),
 'adjust_child_name_abs': ('ok',
                           'list',
                           "[('/p', None, 'p', ['/abs'], []), ('/abs', None, 'abs', ['x'], []), ('/abs/x', "
                           "None, 'x', [], [])]"),
 'adjust_child_data_none': ('ok',
                            'Group',
                            "Group(path='/', url=None, data={'c': Group(path='/c', url=None, data={}, "
                            'attrs={})}, attrs={})'),
 "name['/']": ('ok', 'str', "'/'"),
 "name['']": ('ok', 'str', "''"),
 "name['a']": ('ok', 'str', "'a'"),
 "name['/a']": ('ok', 'str', "'a'"),
 "name['/a/b']": ('ok', 'str', "'b'"),
 "name['/a/b/']": ('ok', 'str', "''"),
 "name['a/b']": ('ok', 'str', "'b'"),
 "name['//']": ('ok', 'str', "''"),
 "name['/a//b']": ('ok', 'str', "'b'"),
 'name[None]': ('raise', 'TypeError', "argument of type 'NoneType' is not iterable"),
 'name[5]': ('raise', 'TypeError', "argument of type 'int' is not iterable"),
 "name[b'/a/b']": ('raise', 'TypeError', "a bytes-like object is required, not 'str'"),
 'variable_props': [(['x'],
                     ('ok', 'int', '1'),
                     ('ok', 'tuple', '(3,)'),
                     ('ok', 'Int64DType', "dtype('int64')"),
                     ('ok', 'dict', '{}'),
                     ('ok', 'dict', "{'x': 3}")),
                    (['x'],
                     ('ok', 'int', '1'),
                     ('ok', 'tuple', '(3,)'),
                     ('ok', 'Int64DType', "dtype('int64')"),
                     ('ok', 'dict', '{}'),
                     ('ok', 'dict', "{'x': 3}")),
                    (['rows', 'cols'],
                     ('ok', 'int', '2'),
                     ('ok', 'tuple', '(4, 3)'),
                     ('ok', 'str', "'uint16'"),
                     ('ok', 'dict', "{'rows': 2, 'cols': 3}"),
                     ('ok', 'dict', "{'rows': 4, 'cols': 3}")),
                    (['x'],
                     ('raise', 'AttributeError', "'list' object has no attribute 'ndim'"),
                     ('raise', 'AttributeError', "'list' object has no attribute 'shape'"),
                     ('raise', 'AttributeError', "'list' object has no attribute 'dtype'"),
                     ('ok', 'dict', '{}'),
                     ('raise', 'AttributeError', "'list' object has no attribute 'shape'"))],
 'deepcopy_equal': (True, True),
 'hashable': ('raise', 'TypeError', "unhashable type: 'Group'"),
 'public': ['Group', 'Variable', 'Array', 'valfilter', 'posixpath', 'copy', 'np'],
 'group_members': ['_adjust_item', 'decouple', 'groups', 'name', 'subtree', 'variables']}

if __name__ == "__main__":
    sys.exit(main())
