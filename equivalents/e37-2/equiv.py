"""Equivalence check for refactoring 2 (ceos_alos2/decoders.py: decode_filename).

Run as a script (``python equiv.py``) or with pytest. ``python equiv.py --record`` prints
the observed outcomes (used once, on the unchanged code, to fill ``EXPECTED``).
"""

import datetime
import pprint
import sys

from ceos_alos2 import decoders
from ceos_alos2.sar_image import filename_to_groupname


def describe_exception(exc):
    if exc is None:
        return None
    return (type(exc).__name__, str(exc))


def outcome(func, *args):
    try:
        result = func(*args)
    except Exception as e:  # noqa: BLE001
        chain = []
        current = e
        while current is not None:
            chain.append(describe_exception(current))
            chain.append("cause" if current.__cause__ is not None else "no cause")
            chain.append(current.__suppress_context__)
            current = current.__cause__ or current.__context__
        return ("raises", chain)
    if isinstance(result, dict):
        # the order of the items is part of the behaviour
        return ("returns", type(result).__name__, list(result.items()))
    return ("returns", type(result).__name__, result)


filenames = [
    # the file types of a product, with and without polarization / scan info
    "IMG-HV-ALOS2225333100-180726-WWDR1.1__D-B3",
    "IMG-HH-ALOS2225333100-180726-WWDR1.1__D-B1",
    "IMG-VV-ALOS2225333100-180726-WWDR1.1__D-F5",
    "IMG-VH-ALOS2225333100-180726-WWDR1.1__D-F0",
    "IMG-HH-ALOS2290760600-191011-WWDR1.5RUA",
    "IMG-HV-ALOS2290760600-191011-FBDR1.5GPD",
    "IMG-HH-ALOS2014410750-140829-HBQR1.1__A",
    "IMG-HH-ALOS2014410750-140829-UBSL3.1GMA",
    "IMG-HH-ALOS2014410750-140829-SBSL1.0_LD",
    "TRL-ALOS2225333100-180726-WWDR1.1__D",
    "LED-ALOS2290760600-191011-WWDR1.5RUA",
    "VOL-ALOS2290760600-191011-WWDR1.5RUA",
    "VOL-ALOS2290760600-191011-VBDR1.5RUA-B9",
    "XYZ-ALOS2000000000-000229-VBSL1.0__A",
    "ABC-HH-QWERT123450010-690101-WBSL1.0__A-F9",
    # unusual but matching polarizations
    "IMG-HH-ALOS2225333100-180726-WWDR1.1__D",
    "IMG-VH-ALOS2225333100-180726-WWDR1.1__D",
    # the file name matches, the scene id does not
    "IMG-HV-ALOS2ABCDE3100-180726-WWDR1.1__D-B3",
    "IMG-HV-ALOS222533310A-180726-WWDR1.1__D",
    "IMG-HV-ALOS2225333100-180732-WWDR1.1__D-B3",
    "LED-ALOS2225333100-181301-WWDR1.1__D",
    "LED-ALOS2225333100-000000-WWDR1.1__D",
    # the file name matches, the product id does not
    "IMG-HV-ALOS2225333100-180726-WWDR2.0__D-B3",
    "IMG-HV-ALOS2225333100-180726-XXXR1.1__D-B3",
    "IMG-HV-ALOS2225333100-180726-WWDX1.1__D",
    "IMG-HV-ALOS2225333100-180726-WWDR1.1XXD",
    "IMG-HV-ALOS2225333100-180726-WWDR1.1__X",
    "IMG-HV-ALOS2225333100-180726-..........",
    "IMG-HV-ALOS2225333100-180726-0123456789-B3",
    "TRL-ALOS2225333100-180726-AAAL1.5GUA",
    # both are invalid: the scene id is reported
    "IMG-HV-ALOS2ABCDE3100-180726-XXXR1.1__D-B3",
    "IMG-HV-ALOS2225333100-180732-WWDR2.0__D",
    # the file name does not match
    "summary.txt",
    "",
    "IMG",
    "IMG-HV",
    "img-HV-ALOS2225333100-180726-WWDR1.1__D-B3",
    "IMAG-HV-ALOS2225333100-180726-WWDR1.1__D-B3",
    "IMG-HX-ALOS2225333100-180726-WWDR1.1__D-B3",
    "IMG-H-ALOS2225333100-180726-WWDR1.1__D-B3",
    "IMG-HVH-ALOS2225333100-180726-WWDR1.1__D-B3",
    "IMG--ALOS2225333100-180726-WWDR1.1__D-B3",
    "IMG-HV-ALOS222533310-180726-WWDR1.1__D-B3",
    "IMG-HV-ALOS2225333100-18072-WWDR1.1__D-B3",
    "IMG-HV-ALOS2225333100-180726-WWDR1.1__-B3",
    "IMG-HV-ALOS2225333100-180726-WWDR1.1__D-X3",
    "IMG-HV-ALOS2225333100-180726-WWDR1.1__D-B",
    "IMG-HV-ALOS2225333100-180726-WWDR1.1__D-B33",
    "IMG-HV-ALOS2225333100-180726-WWDR1.1__D-",
    "IMG-HV-ALOS2225333100-180726-WWDR1.1__D-B3\n",
    "IMG-HV-ALOS2225333100-180726-WWDR1.1__D-B3.tif",
    " IMG-HV-ALOS2225333100-180726-WWDR1.1__D-B3",
    "path/IMG-HV-ALOS2225333100-180726-WWDR1.1__D-B3",
    "IMG_HV_ALOS2225333100_180726_WWDR1.1__D_B3",
    # wrong types
    None,
    b"IMG-HV-ALOS2225333100-180726-WWDR1.1__D-B3",
    12,
    ["IMG-HV-ALOS2225333100-180726-WWDR1.1__D-B3"],
]

group_name_inputs = [
    "IMG-HV-ALOS2225333100-180726-WWDR1.1__D-B3",
    "IMG-HH-ALOS2290760600-191011-WWDR1.5RUA",
    "IMG-VV-ALOS2225333100-180726-WWDR1.1__D-F0",
    "TRL-ALOS2225333100-180726-WWDR1.1__D",
    "summary.txt",
]


def observe():
    return {
        "decode_filename": [(name, outcome(decoders.decode_filename, name)) for name in filenames],
        "groupname": [(name, outcome(filename_to_groupname, name)) for name in group_name_inputs],
    }


def check_fresh_results():
    name = "IMG-HV-ALOS2225333100-180726-WWDR1.1__D-B3"
    first = decoders.decode_filename(name)
    second = decoders.decode_filename(name)
    assert first == second and first is not second
    # mutating a result does not leak into later calls
    first["filetype"] = "changed"
    first["extra"] = 1
    del first["scan_number"]
    assert decoders.decode_filename(name) == second
    assert type(second) is dict
    assert all(type(key) is str for key in second)


EXPECTED = None  # filled below


def test_equivalent():
    observed = observe()
    assert sorted(observed) == sorted(EXPECTED)
    for section, expected in EXPECTED.items():
        actual = observed[section]
        assert len(actual) == len(expected), section
        for a, e in zip(actual, expected):
            assert a == e, (section, a, e)
    check_fresh_results()


# EXPECTED-BEGIN
# fmt: off
EXPECTED = {'decode_filename': [('IMG-HV-ALOS2225333100-180726-WWDR1.1__D-B3',
                      ('returns', 'dict',
                       [('filetype', 'IMG'), ('polarization', 'HV'), ('mission_name', 'ALOS2'), ('orbit_accumulation', '22533'),
                        ('scene_frame', '3100'), ('date', datetime.datetime(2018, 7, 26, 0, 0)),
                        ('observation_mode', 'ScanSAR nominal 28MHz mode dual polarization'), ('observation_direction', 'right looking'),
                        ('processing_level', 'level 1.1'), ('processing_option', 'not specified'), ('map_projection', 'not specified'),
                        ('orbit_direction', 'descending'), ('processing_method', 'SPECAN method'), ('scan_number', '3')])),
                     ('IMG-HH-ALOS2225333100-180726-WWDR1.1__D-B1',
                      ('returns', 'dict',
                       [('filetype', 'IMG'), ('polarization', 'HH'), ('mission_name', 'ALOS2'), ('orbit_accumulation', '22533'),
                        ('scene_frame', '3100'), ('date', datetime.datetime(2018, 7, 26, 0, 0)),
                        ('observation_mode', 'ScanSAR nominal 28MHz mode dual polarization'), ('observation_direction', 'right looking'),
                        ('processing_level', 'level 1.1'), ('processing_option', 'not specified'), ('map_projection', 'not specified'),
                        ('orbit_direction', 'descending'), ('processing_method', 'SPECAN method'), ('scan_number', '1')])),
                     ('IMG-VV-ALOS2225333100-180726-WWDR1.1__D-F5',
                      ('returns', 'dict',
                       [('filetype', 'IMG'), ('polarization', 'VV'), ('mission_name', 'ALOS2'), ('orbit_accumulation', '22533'),
                        ('scene_frame', '3100'), ('date', datetime.datetime(2018, 7, 26, 0, 0)),
                        ('observation_mode', 'ScanSAR nominal 28MHz mode dual polarization'), ('observation_direction', 'right looking'),
                        ('processing_level', 'level 1.1'), ('processing_option', 'not specified'), ('map_projection', 'not specified'),
                        ('orbit_direction', 'descending'), ('processing_method', 'full aperture_method'), ('scan_number', '5')])),
                     ('IMG-VH-ALOS2225333100-180726-WWDR1.1__D-F0',
                      ('returns', 'dict',
                       [('filetype', 'IMG'), ('polarization', 'VH'), ('mission_name', 'ALOS2'), ('orbit_accumulation', '22533'),
                        ('scene_frame', '3100'), ('date', datetime.datetime(2018, 7, 26, 0, 0)),
                        ('observation_mode', 'ScanSAR nominal 28MHz mode dual polarization'), ('observation_direction', 'right looking'),
                        ('processing_level', 'level 1.1'), ('processing_option', 'not specified'), ('map_projection', 'not specified'),
                        ('orbit_direction', 'descending'), ('processing_method', 'full aperture_method'), ('scan_number', '0')])),
                     ('IMG-HH-ALOS2290760600-191011-WWDR1.5RUA',
                      ('returns', 'dict',
                       [('filetype', 'IMG'), ('polarization', 'HH'), ('mission_name', 'ALOS2'), ('orbit_accumulation', '29076'),
                        ('scene_frame', '0600'), ('date', datetime.datetime(2019, 10, 11, 0, 0)),
                        ('observation_mode', 'ScanSAR nominal 28MHz mode dual polarization'), ('observation_direction', 'right looking'),
                        ('processing_level', 'level 1.5'), ('processing_option', 'geo-reference'), ('map_projection', 'UTM'),
                        ('orbit_direction', 'ascending')])),
                     ('IMG-HV-ALOS2290760600-191011-FBDR1.5GPD',
                      ('returns', 'dict',
                       [('filetype', 'IMG'), ('polarization', 'HV'), ('mission_name', 'ALOS2'), ('orbit_accumulation', '29076'),
                        ('scene_frame', '0600'), ('date', datetime.datetime(2019, 10, 11, 0, 0)), ('observation_mode', 'fine mode dual polarization'),
                        ('observation_direction', 'right looking'), ('processing_level', 'level 1.5'), ('processing_option', 'geo-code'),
                        ('map_projection', 'PS'), ('orbit_direction', 'descending')])),
                     ('IMG-HH-ALOS2014410750-140829-HBQR1.1__A',
                      ('returns', 'dict',
                       [('filetype', 'IMG'), ('polarization', 'HH'), ('mission_name', 'ALOS2'), ('orbit_accumulation', '01441'),
                        ('scene_frame', '0750'), ('date', datetime.datetime(2014, 8, 29, 0, 0)),
                        ('observation_mode', 'high-sensitive mode full (quad.) polarimetry'), ('observation_direction', 'right looking'),
                        ('processing_level', 'level 1.1'), ('processing_option', 'not specified'), ('map_projection', 'not specified'),
                        ('orbit_direction', 'ascending')])),
                     ('IMG-HH-ALOS2014410750-140829-UBSL3.1GMA',
                      ('returns', 'dict',
                       [('filetype', 'IMG'), ('polarization', 'HH'), ('mission_name', 'ALOS2'), ('orbit_accumulation', '01441'),
                        ('scene_frame', '0750'), ('date', datetime.datetime(2014, 8, 29, 0, 0)),
                        ('observation_mode', 'ultra-fine mode single polarization'), ('observation_direction', 'left looking'),
                        ('processing_level', 'level 3.1'), ('processing_option', 'geo-code'), ('map_projection', 'MER'),
                        ('orbit_direction', 'ascending')])),
                     ('IMG-HH-ALOS2014410750-140829-SBSL1.0_LD',
                      ('returns', 'dict',
                       [('filetype', 'IMG'), ('polarization', 'HH'), ('mission_name', 'ALOS2'), ('orbit_accumulation', '01441'),
                        ('scene_frame', '0750'), ('date', datetime.datetime(2014, 8, 29, 0, 0)), ('observation_mode', 'spotlight mode'),
                        ('observation_direction', 'left looking'), ('processing_level', 'level 1.0'), ('processing_option', 'not specified'),
                        ('map_projection', 'LCC'), ('orbit_direction', 'descending')])),
                     ('TRL-ALOS2225333100-180726-WWDR1.1__D',
                      ('returns', 'dict',
                       [('filetype', 'TRL'), ('polarization', None), ('mission_name', 'ALOS2'), ('orbit_accumulation', '22533'),
                        ('scene_frame', '3100'), ('date', datetime.datetime(2018, 7, 26, 0, 0)),
                        ('observation_mode', 'ScanSAR nominal 28MHz mode dual polarization'), ('observation_direction', 'right looking'),
                        ('processing_level', 'level 1.1'), ('processing_option', 'not specified'), ('map_projection', 'not specified'),
                        ('orbit_direction', 'descending')])),
                     ('LED-ALOS2290760600-191011-WWDR1.5RUA',
                      ('returns', 'dict',
                       [('filetype', 'LED'), ('polarization', None), ('mission_name', 'ALOS2'), ('orbit_accumulation', '29076'),
                        ('scene_frame', '0600'), ('date', datetime.datetime(2019, 10, 11, 0, 0)),
                        ('observation_mode', 'ScanSAR nominal 28MHz mode dual polarization'), ('observation_direction', 'right looking'),
                        ('processing_level', 'level 1.5'), ('processing_option', 'geo-reference'), ('map_projection', 'UTM'),
                        ('orbit_direction', 'ascending')])),
                     ('VOL-ALOS2290760600-191011-WWDR1.5RUA',
                      ('returns', 'dict',
                       [('filetype', 'VOL'), ('polarization', None), ('mission_name', 'ALOS2'), ('orbit_accumulation', '29076'),
                        ('scene_frame', '0600'), ('date', datetime.datetime(2019, 10, 11, 0, 0)),
                        ('observation_mode', 'ScanSAR nominal 28MHz mode dual polarization'), ('observation_direction', 'right looking'),
                        ('processing_level', 'level 1.5'), ('processing_option', 'geo-reference'), ('map_projection', 'UTM'),
                        ('orbit_direction', 'ascending')])),
                     ('VOL-ALOS2290760600-191011-VBDR1.5RUA-B9',
                      ('returns', 'dict',
                       [('filetype', 'VOL'), ('polarization', None), ('mission_name', 'ALOS2'), ('orbit_accumulation', '29076'),
                        ('scene_frame', '0600'), ('date', datetime.datetime(2019, 10, 11, 0, 0)),
                        ('observation_mode', 'ScanSAR wide mode dual polarization'), ('observation_direction', 'right looking'),
                        ('processing_level', 'level 1.5'), ('processing_option', 'geo-reference'), ('map_projection', 'UTM'),
                        ('orbit_direction', 'ascending'), ('processing_method', 'SPECAN method'), ('scan_number', '9')])),
                     ('XYZ-ALOS2000000000-000229-VBSL1.0__A',
                      ('returns', 'dict',
                       [('filetype', 'XYZ'), ('polarization', None), ('mission_name', 'ALOS2'), ('orbit_accumulation', '00000'),
                        ('scene_frame', '0000'), ('date', datetime.datetime(2000, 2, 29, 0, 0)),
                        ('observation_mode', 'ScanSAR wide mode single polarization'), ('observation_direction', 'left looking'),
                        ('processing_level', 'level 1.0'), ('processing_option', 'not specified'), ('map_projection', 'not specified'),
                        ('orbit_direction', 'ascending')])),
                     ('ABC-HH-QWERT123450010-690101-WBSL1.0__A-F9',
                      ('returns', 'dict',
                       [('filetype', 'ABC'), ('polarization', 'HH'), ('mission_name', 'QWERT'), ('orbit_accumulation', '12345'),
                        ('scene_frame', '0010'), ('date', datetime.datetime(1969, 1, 1, 0, 0)),
                        ('observation_mode', 'ScanSAR nominal 14MHz mode single polarization'), ('observation_direction', 'left looking'),
                        ('processing_level', 'level 1.0'), ('processing_option', 'not specified'), ('map_projection', 'not specified'),
                        ('orbit_direction', 'ascending'), ('processing_method', 'full aperture_method'), ('scan_number', '9')])),
                     ('IMG-HH-ALOS2225333100-180726-WWDR1.1__D',
                      ('returns', 'dict',
                       [('filetype', 'IMG'), ('polarization', 'HH'), ('mission_name', 'ALOS2'), ('orbit_accumulation', '22533'),
                        ('scene_frame', '3100'), ('date', datetime.datetime(2018, 7, 26, 0, 0)),
                        ('observation_mode', 'ScanSAR nominal 28MHz mode dual polarization'), ('observation_direction', 'right looking'),
                        ('processing_level', 'level 1.1'), ('processing_option', 'not specified'), ('map_projection', 'not specified'),
                        ('orbit_direction', 'descending')])),
                     ('IMG-VH-ALOS2225333100-180726-WWDR1.1__D',
                      ('returns', 'dict',
                       [('filetype', 'IMG'), ('polarization', 'VH'), ('mission_name', 'ALOS2'), ('orbit_accumulation', '22533'),
                        ('scene_frame', '3100'), ('date', datetime.datetime(2018, 7, 26, 0, 0)),
                        ('observation_mode', 'ScanSAR nominal 28MHz mode dual polarization'), ('observation_direction', 'right looking'),
                        ('processing_level', 'level 1.1'), ('processing_option', 'not specified'), ('map_projection', 'not specified'),
                        ('orbit_direction', 'descending')])),
                     ('IMG-HV-ALOS2ABCDE3100-180726-WWDR1.1__D-B3',
                      ('raises', [('ValueError', 'invalid scene id: ALOS2ABCDE3100-180726'), 'no cause', False])),
                     ('IMG-HV-ALOS222533310A-180726-WWDR1.1__D',
                      ('raises', [('ValueError', 'invalid scene id: ALOS222533310A-180726'), 'no cause', False])),
                     ('IMG-HV-ALOS2225333100-180732-WWDR1.1__D-B3',
                      ('raises',
                       [('ValueError', 'invalid scene id: ALOS2225333100-180732'), 'cause', True, ('ValueError', 'unconverted data remains: 2'),
                        'no cause', False])),
                     ('LED-ALOS2225333100-181301-WWDR1.1__D',
                      ('raises',
                       [('ValueError', 'invalid scene id: ALOS2225333100-181301'), 'cause', True, ('ValueError', 'unconverted data remains: 1'),
                        'no cause', False])),
                     ('LED-ALOS2225333100-000000-WWDR1.1__D',
                      ('raises',
                       [('ValueError', 'invalid scene id: ALOS2225333100-000000'), 'cause', True,
                        ('ValueError', "time data '000000' does not match format '%y%m%d'"), 'no cause', False])),
                     ('IMG-HV-ALOS2225333100-180726-WWDR2.0__D-B3',
                      ('raises', [('ValueError', 'invalid product id: WWDR2.0__D'), 'no cause', False])),
                     ('IMG-HV-ALOS2225333100-180726-XXXR1.1__D-B3',
                      ('raises',
                       [('ValueError', 'invalid product id: XXXR1.1__D'), 'cause', True, ('ValueError', "invalid code 'XXX'"), 'no cause', False])),
                     ('IMG-HV-ALOS2225333100-180726-WWDX1.1__D', ('raises', [('ValueError', 'invalid product id: WWDX1.1__D'), 'no cause', False])),
                     ('IMG-HV-ALOS2225333100-180726-WWDR1.1XXD', ('raises', [('ValueError', 'invalid product id: WWDR1.1XXD'), 'no cause', False])),
                     ('IMG-HV-ALOS2225333100-180726-WWDR1.1__X', ('raises', [('ValueError', 'invalid product id: WWDR1.1__X'), 'no cause', False])),
                     ('IMG-HV-ALOS2225333100-180726-..........', ('raises', [('ValueError', 'invalid product id: ..........'), 'no cause', False])),
                     ('IMG-HV-ALOS2225333100-180726-0123456789-B3',
                      ('raises', [('ValueError', 'invalid product id: 0123456789'), 'no cause', False])),
                     ('TRL-ALOS2225333100-180726-AAAL1.5GUA',
                      ('raises',
                       [('ValueError', 'invalid product id: AAAL1.5GUA'), 'cause', True, ('ValueError', "invalid code 'AAA'"), 'no cause', False])),
                     ('IMG-HV-ALOS2ABCDE3100-180726-XXXR1.1__D-B3',
                      ('raises', [('ValueError', 'invalid scene id: ALOS2ABCDE3100-180726'), 'no cause', False])),
                     ('IMG-HV-ALOS2225333100-180732-WWDR2.0__D',
                      ('raises',
                       [('ValueError', 'invalid scene id: ALOS2225333100-180732'), 'cause', True, ('ValueError', 'unconverted data remains: 2'),
                        'no cause', False])),
                     ('summary.txt', ('raises', [('ValueError', 'invalid file name: summary.txt'), 'no cause', False])),
                     ('', ('raises', [('ValueError', 'invalid file name: '), 'no cause', False])),
                     ('IMG', ('raises', [('ValueError', 'invalid file name: IMG'), 'no cause', False])),
                     ('IMG-HV', ('raises', [('ValueError', 'invalid file name: IMG-HV'), 'no cause', False])),
                     ('img-HV-ALOS2225333100-180726-WWDR1.1__D-B3',
                      ('raises', [('ValueError', 'invalid file name: img-HV-ALOS2225333100-180726-WWDR1.1__D-B3'), 'no cause', False])),
                     ('IMAG-HV-ALOS2225333100-180726-WWDR1.1__D-B3',
                      ('raises', [('ValueError', 'invalid file name: IMAG-HV-ALOS2225333100-180726-WWDR1.1__D-B3'), 'no cause', False])),
                     ('IMG-HX-ALOS2225333100-180726-WWDR1.1__D-B3',
                      ('raises', [('ValueError', 'invalid file name: IMG-HX-ALOS2225333100-180726-WWDR1.1__D-B3'), 'no cause', False])),
                     ('IMG-H-ALOS2225333100-180726-WWDR1.1__D-B3',
                      ('raises', [('ValueError', 'invalid file name: IMG-H-ALOS2225333100-180726-WWDR1.1__D-B3'), 'no cause', False])),
                     ('IMG-HVH-ALOS2225333100-180726-WWDR1.1__D-B3',
                      ('raises', [('ValueError', 'invalid file name: IMG-HVH-ALOS2225333100-180726-WWDR1.1__D-B3'), 'no cause', False])),
                     ('IMG--ALOS2225333100-180726-WWDR1.1__D-B3',
                      ('raises', [('ValueError', 'invalid file name: IMG--ALOS2225333100-180726-WWDR1.1__D-B3'), 'no cause', False])),
                     ('IMG-HV-ALOS222533310-180726-WWDR1.1__D-B3',
                      ('raises', [('ValueError', 'invalid file name: IMG-HV-ALOS222533310-180726-WWDR1.1__D-B3'), 'no cause', False])),
                     ('IMG-HV-ALOS2225333100-18072-WWDR1.1__D-B3',
                      ('raises', [('ValueError', 'invalid file name: IMG-HV-ALOS2225333100-18072-WWDR1.1__D-B3'), 'no cause', False])),
                     ('IMG-HV-ALOS2225333100-180726-WWDR1.1__-B3',
                      ('raises', [('ValueError', 'invalid file name: IMG-HV-ALOS2225333100-180726-WWDR1.1__-B3'), 'no cause', False])),
                     ('IMG-HV-ALOS2225333100-180726-WWDR1.1__D-X3',
                      ('raises', [('ValueError', 'invalid file name: IMG-HV-ALOS2225333100-180726-WWDR1.1__D-X3'), 'no cause', False])),
                     ('IMG-HV-ALOS2225333100-180726-WWDR1.1__D-B',
                      ('raises', [('ValueError', 'invalid file name: IMG-HV-ALOS2225333100-180726-WWDR1.1__D-B'), 'no cause', False])),
                     ('IMG-HV-ALOS2225333100-180726-WWDR1.1__D-B33',
                      ('raises', [('ValueError', 'invalid file name: IMG-HV-ALOS2225333100-180726-WWDR1.1__D-B33'), 'no cause', False])),
                     ('IMG-HV-ALOS2225333100-180726-WWDR1.1__D-',
                      ('raises', [('ValueError', 'invalid file name: IMG-HV-ALOS2225333100-180726-WWDR1.1__D-'), 'no cause', False])),
                     ('IMG-HV-ALOS2225333100-180726-WWDR1.1__D-B3\n',
                      ('raises', [('ValueError', 'invalid file name: IMG-HV-ALOS2225333100-180726-WWDR1.1__D-B3\n'), 'no cause', False])),
                     ('IMG-HV-ALOS2225333100-180726-WWDR1.1__D-B3.tif',
                      ('raises', [('ValueError', 'invalid file name: IMG-HV-ALOS2225333100-180726-WWDR1.1__D-B3.tif'), 'no cause', False])),
                     (' IMG-HV-ALOS2225333100-180726-WWDR1.1__D-B3',
                      ('raises', [('ValueError', 'invalid file name:  IMG-HV-ALOS2225333100-180726-WWDR1.1__D-B3'), 'no cause', False])),
                     ('path/IMG-HV-ALOS2225333100-180726-WWDR1.1__D-B3',
                      ('raises', [('ValueError', 'invalid file name: path/IMG-HV-ALOS2225333100-180726-WWDR1.1__D-B3'), 'no cause', False])),
                     ('IMG_HV_ALOS2225333100_180726_WWDR1.1__D_B3',
                      ('raises', [('ValueError', 'invalid file name: IMG_HV_ALOS2225333100_180726_WWDR1.1__D_B3'), 'no cause', False])),
                     (None, ('raises', [('TypeError', "expected string or bytes-like object, got 'NoneType'"), 'no cause', False])),
                     (b'IMG-HV-ALOS2225333100-180726-WWDR1.1__D-B3',
                      ('raises', [('TypeError', 'cannot use a string pattern on a bytes-like object'), 'no cause', False])),
                     (12, ('raises', [('TypeError', "expected string or bytes-like object, got 'int'"), 'no cause', False])),
                     (['IMG-HV-ALOS2225333100-180726-WWDR1.1__D-B3'],
                      ('raises', [('TypeError', "expected string or bytes-like object, got 'list'"), 'no cause', False]))],
 'groupname': [('IMG-HV-ALOS2225333100-180726-WWDR1.1__D-B3', ('returns', 'str', 'HV_scan3')),
               ('IMG-HH-ALOS2290760600-191011-WWDR1.5RUA', ('returns', 'str', 'HH')),
               ('IMG-VV-ALOS2225333100-180726-WWDR1.1__D-F0', ('returns', 'str', 'VV_scan0')),
               ('TRL-ALOS2225333100-180726-WWDR1.1__D', ('returns', 'str', '')),
               ('summary.txt', ('raises', [('ValueError', 'invalid file name: summary.txt'), 'no cause', False]))]}
# fmt: on
# EXPECTED-END

if __name__ == "__main__":
    if "--record" in sys.argv:
        text = pprint.pformat(observe(), width=150, compact=True, sort_dicts=False)
        print("EXPECTED = " + text)
    else:
        test_equivalent()
        n = sum(len(v) for v in EXPECTED.values())
        print(f"equivalent: {n} recorded outcomes reproduced")
