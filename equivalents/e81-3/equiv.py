"""Equivalence check for refactoring 3 (`ceos_alos2.sar_image.io`: `parse_chunk`,
`read_file_descriptor`, `read_metadata`).

Run as ``python equiv.py`` (or through pytest). The outcomes in ``EXPECTED`` were
recorded from the unchanged code (``python equiv.py --record``).
"""

import hashlib
import io as stdlib_io
import struct
import sys

import fsspec
from construct import Int8ub, Int16ub, Seek, Struct, Tell, this

from ceos_alos2.sar_image import io
from ceos_alos2.utils import to_dict


def describe(value):
    """order- and type-sensitive description of a result"""
    if isinstance(value, dict):
        items = ", ".join(f"{describe(k)}: {describe(v)}" for k, v in value.items())
        return f"{type(value).__name__}{{{items}}}"
    if isinstance(value, (list, tuple)):
        items = ", ".join(describe(v) for v in value)
        return f"{type(value).__name__}[{items}]"
    return f"{type(value).__name__}:{value!r}"


def digest(value):
    return hashlib.sha256(describe(value).encode()).hexdigest()[:16]


def failure(e):
    cause = type(e.__cause__).__name__ if e.__cause__ is not None else None
    context = type(e.__context__).__name__ if e.__context__ is not None else None
    message = str(e).replace("\n", " | ")
    return f"raises {type(e).__name__}: {message} (cause: {cause}, context: {context})"


# --- synthetic files ---------------------------------------------------------------------


def descriptor(n_records, record_size, type_code=b"C*8 "):
    raw = bytearray(b" " * 720)
    raw[0:12] = b"\x00\x00\x00\x01\x00\xc0\x00\x12\x00\x00\x02\xd0"
    raw[180:186] = n_records if isinstance(n_records, bytes) else b"%6d" % n_records
    raw[186:192] = record_size if isinstance(record_size, bytes) else b"%6d" % record_size
    raw[236:244] = b"       3"
    raw[248:256] = b"      11"
    raw[268:272] = b"BSQ "
    raw[428:432] = type_code
    return bytes(raw)


def signal_record(seq, line, n_data=8, record_type=10, length=None):
    head = bytearray(544)
    length = 544 + n_data if length is None else length
    struct.pack_into(">IBBBBI", head, 0, seq, 50, record_type, 18, 20, length)
    struct.pack_into(">6I", head, 12, line, 1, 2, n_data // 2, 3, 1)
    struct.pack_into(">3I", head, 36, 2020, 100, 45_000_123)
    struct.pack_into(">4H", head, 48, 2, 0, 0, 1)
    struct.pack_into(">2I", head, 56, 2_000_000 + seq, 7)
    struct.pack_into(">Q", head, 84, 45_000_123_000 + 17 * seq)
    for offset in range(92, 224, 4):
        struct.pack_into(">I", head, offset, offset * 1000 + line)
    struct.pack_into(">I", head, 128, 1)
    struct.pack_into(">I", head, 284, 710)
    return bytes(head) + bytes(range(n_data))


def processed_record(seq, line, n_data=6, record_type=11):
    head = bytearray(192)
    struct.pack_into(">IBBBBI", head, 0, seq, 50, record_type, 18, 20, 192 + n_data)
    struct.pack_into(">6I", head, 12, line, 1, 0, n_data // 2, 0, 0)
    struct.pack_into(">3I", head, 36, 2019, 365, 86_399_999)
    struct.pack_into(">4H", head, 48, 1, 0, 1, 1)
    for offset in range(64, 108, 4):
        struct.pack_into(">I", head, offset, offset * 100 + seq)
    for offset in [*range(132, 160, 4), 164, 168, 176, 180]:
        struct.pack_into(">I", head, offset, offset * 10_000 + line)
    return bytes(head) + bytes(range(n_data))


class RecordingFile:
    """file object that records every request"""

    def __init__(self, content):
        self._f = stdlib_io.BytesIO(content)
        self.log = []

    def read(self, size=-1):
        position = self._f.tell()
        data = self._f.read(size)
        self.log.append(f"read({size!r})@{position}->{len(data)}")
        return data

    def seek(self, *args):
        self.log.append(f"seek{args!r}")
        return self._f.seek(*args)

    def tell(self):
        self.log.append("tell()")
        return self._f.tell()


class StopIterationFile(RecordingFile):
    """raises StopIteration on the n-th read"""

    def __init__(self, content, fail_at):
        super().__init__(content)
        self.fail_at = fail_at

    def read(self, size=-1):
        if len(self.log) == self.fail_at:
            self.log.append(f"read({size!r})->StopIteration")
            raise StopIteration("no more data")
        return super().read(size)


def summary(result):
    header, metadata = result
    records = [
        (m["record_start"], m["data"]["start"], m["data"]["stop"], m["preamble"]["record_type"])
        for m in metadata
    ]
    return (
        f"{type(result).__name__}; header {type(header).__name__} {digest(header)};"
        f" metadata {type(metadata).__name__} {len(metadata)} {digest(metadata)}; {records}"
    )


def read_outcome(f, *args, full=False, **kwargs):
    try:
        result = io.read_metadata(f, *args, **kwargs)
    except BaseException as e:  # noqa: B036
        described = failure(e)
    else:
        described = describe(result) if full else summary(result)
    return f"{described} ;; " + " ".join(f.log)


signal_records = [signal_record(seq, 100 + seq) for seq in range(1, 8)]
processed_records = [processed_record(seq, 3 * seq) for seq in range(1, 6)]
signal_file = descriptor(7, 552) + b"".join(signal_records)
processed_file = descriptor(5, 198) + b"".join(processed_records)


def real_struct_cases():
    results = {}
    for rpc in [1, 2, 3, 4, 6, 7, 8, 1024, True, 2.0, 2.5, 0.5]:
        results[f"signal rpc={rpc!r}"] = read_outcome(RecordingFile(signal_file), rpc)
    for rpc in [1, 2, 5, 100]:
        results[f"processed rpc={rpc!r}"] = read_outcome(RecordingFile(processed_file), rpc)
    results["signal default rpc"] = read_outcome(RecordingFile(signal_file))
    results["signal keyword rpc"] = read_outcome(RecordingFile(signal_file), records_per_chunk=3)

    for rpc in [None, 0, 0.0, -1, -3, "2", [2]]:
        results[f"signal invalid rpc={rpc!r}"] = read_outcome(RecordingFile(signal_file), rpc)

    # headers
    files = {
        "no records": descriptor(0, 552),
        "no records but data": descriptor(0, 552) + signal_records[0],
        "blank number of records": descriptor(b" " * 6, 552) + signal_records[0],
        "blank record size": descriptor(2, b" " * 6) + b"".join(signal_records[:2]),
        "zero record size": descriptor(2, 0) + b"".join(signal_records[:2]),
        "fewer records announced": descriptor(3, 552) + b"".join(signal_records),
        "more records announced": descriptor(9, 552) + b"".join(signal_records),
        "truncated in last record": descriptor(7, 552) + b"".join(signal_records)[:-5],
        "truncated in first preamble": descriptor(7, 552) + signal_records[0][:7],
        "truncated header": descriptor(7, 552)[:500],
        "empty file": b"",
        "invalid number of records": descriptor(b"   abc", 552) + signal_records[0],
        "wrong record size": descriptor(7, 550) + b"".join(signal_records),
        "record size is half": descriptor(14, 276) + b"".join(signal_records),
        "unknown record type": descriptor(2, 552)
        + signal_record(1, 1, record_type=12)
        + signal_record(2, 2),
        "unknown record type in third record": descriptor(4, 552)
        + b"".join(signal_records[:2])
        + signal_record(3, 3, record_type=50)
        + signal_records[3],
        "processed type in signal layout": descriptor(2, 552)
        + signal_record(1, 1, record_type=11)
        + signal_record(2, 2, record_type=11),
        "type switches between chunks": descriptor(2, 198)
        + processed_records[0]
        + processed_record(2, 2, record_type=10),
        "record length larger than record size": descriptor(3, 552)
        + signal_record(1, 1, length=560)
        + b"".join(signal_records[1:3]),
        "record length smaller than header": descriptor(2, 552)
        + signal_record(1, 1, length=100)
        + signal_records[1],
    }
    for name, content in files.items():
        for rpc in [1, 2, 1024]:
            results[f"{name} rpc={rpc}"] = read_outcome(RecordingFile(content), rpc)

    # StopIteration raised while reading is turned into a RuntimeError by the generator
    for fail_at in [0, 1, 2, 3]:
        f = StopIterationFile(signal_file, fail_at)
        results[f"StopIteration at read {fail_at}"] = read_outcome(f, 3)

    # fsspec memory file system
    mapper = fsspec.get_mapper("memory://equiv3")
    mapper["signal"] = signal_file
    for rpc in [2, 1024]:
        with mapper.fs.open("equiv3/signal", mode="rb") as f:
            header, metadata = io.read_metadata(f, rpc)
            results[f"fsspec rpc={rpc}"] = summary((header, metadata)) + f" ;; tell={f.tell()}"

    # read_file_descriptor
    for name, content in {
        "signal": signal_file,
        "exact": signal_file[:720],
        "short": signal_file[:719],
        "empty": b"",
    }.items():
        f = RecordingFile(content)
        try:
            described = digest(to_dict(io.read_file_descriptor(f)))
        except BaseException as e:  # noqa: B036
            described = failure(e)
        results[f"read_file_descriptor {name}"] = f"{described} ;; " + " ".join(f.log)

    return results


# --- small record types, as in the test suite -----------------------------------------------

dummy_record_types = {
    10: Struct("preamble" / io.record_preamble, "a" / Int8ub, "b" / Int8ub, "c" / Int16ub),
    11: Struct(
        "preamble" / io.record_preamble,
        "record_start" / Tell,
        "a" / Int8ub,
        "data" / Struct("start" / Tell, "stop" / Seek(this.start + 4)),
    ),
    12: None,
}


def dummy10(seq, size=16):
    return struct.pack(">IBBBBIBBH", seq, 0, 10, 0, 0, size, seq + 1, seq + 2, seq + 30)


def dummy11(seq, record_type=11):
    return struct.pack(">IBBBBIB4x", seq, 0, record_type, 0, 0, 17, seq + 2)


class Content(bytes):
    pass


def parse_chunk_outcome(content, element_size):
    try:
        result = io.parse_chunk(content, element_size)
    except BaseException as e:  # noqa: B036
        return failure(e)
    return f"{type(result).__name__} " + describe(to_dict(result))


def dummy_cases():
    original = io.record_types
    io.record_types = dummy_record_types
    try:
        return _dummy_cases()
    finally:
        io.record_types = original


def _dummy_cases():
    results = {}

    two = dummy10(1) + dummy10(2)
    three = b"".join(dummy11(seq) for seq in range(1, 4))
    chunks = {
        "empty": b"",
        "three bytes": b"\x00\x00\x00",
        "twelve zeros": bytes(12),
        "two records": two,
        "three records": three,
        "one record": dummy10(5),
        "bytearray": bytearray(two),
        "memoryview": memoryview(two),
        "bytes subclass": Content(two),
        "type without parser": dummy11(1, record_type=12),
        "second record has another type": dummy11(1) + dummy11(2, record_type=10),
        "not bytes": [1, 2, 3, 4],
        "string": "abcd" * 4,
        "none": None,
    }
    sizes = [16, 17, 2, 1, 32, 34, 51, 5, 7, 100, 0, -16, -1, 16.0, 8.5, 0.0, True, None, "16"]
    for name, content in chunks.items():
        for size in sizes:
            results[f"parse_chunk {name} size={size!r}"] = parse_chunk_outcome(content, size)

    # read_metadata, as in the test suite: the fake descriptor only reads two bytes
    def dummy_read_file_descriptor(n_records, record_size):
        def read(f):
            f.read(2)
            return {"number_of_sar_data_records": n_records, "sar_data_record_length": record_size}

        return read

    original = io.read_file_descriptor
    try:
        content = b"\x03\x0e" + three
        for n_records, record_size in [(3, 17), (2, 17), (4, 17), (0, 17), (3, 16), (3, "x")]:
            io.read_file_descriptor = dummy_read_file_descriptor(n_records, record_size)
            for rpc in [1, 2, 3, 4]:
                name = f"dummy read_metadata n={n_records} size={record_size!r} rpc={rpc}"
                results[name] = read_outcome(RecordingFile(content), rpc, full=True)
        io.read_file_descriptor = dummy_read_file_descriptor(0, None)
        results["dummy read_metadata no chunks, size None"] = read_outcome(
            RecordingFile(content), 2, full=True
        )
    finally:
        io.read_file_descriptor = original

    return results


def run_cases():
    return real_struct_cases() | dummy_cases()


EXPECTED = {'signal rpc=1': 'tuple; header dict f050fd19ce1d3031; metadata list 7 54bc68635c519695; [(720, '
                 '1264, 1272, 10), (1272, 1816, 1824, 10), (1824, 2368, 2376, 10), (2376, 2920, '
                 '2928, 10), (2928, 3472, 3480, 10), (3480, 4024, 4032, 10), (4032, 4576, 4584, '
                 '10)] ;; read(720)@0->720 read(552)@720->552 read(552)@1272->552 '
                 'read(552)@1824->552 read(552)@2376->552 read(552)@2928->552 read(552)@3480->552 '
                 'read(552)@4032->552',
 'signal rpc=2': 'tuple; header dict f050fd19ce1d3031; metadata list 7 54bc68635c519695; [(720, '
                 '1264, 1272, 10), (1272, 1816, 1824, 10), (1824, 2368, 2376, 10), (2376, 2920, '
                 '2928, 10), (2928, 3472, 3480, 10), (3480, 4024, 4032, 10), (4032, 4576, 4584, '
                 '10)] ;; read(720)@0->720 read(1104)@720->1104 read(1104)@1824->1104 '
                 'read(1104)@2928->1104 read(552)@4032->552',
 'signal rpc=3': 'tuple; header dict f050fd19ce1d3031; metadata list 7 54bc68635c519695; [(720, '
                 '1264, 1272, 10), (1272, 1816, 1824, 10), (1824, 2368, 2376, 10), (2376, 2920, '
                 '2928, 10), (2928, 3472, 3480, 10), (3480, 4024, 4032, 10), (4032, 4576, 4584, '
                 '10)] ;; read(720)@0->720 read(1656)@720->1656 read(1656)@2376->1656 '
                 'read(552)@4032->552',
 'signal rpc=4': 'tuple; header dict f050fd19ce1d3031; metadata list 7 54bc68635c519695; [(720, '
                 '1264, 1272, 10), (1272, 1816, 1824, 10), (1824, 2368, 2376, 10), (2376, 2920, '
                 '2928, 10), (2928, 3472, 3480, 10), (3480, 4024, 4032, 10), (4032, 4576, 4584, '
                 '10)] ;; read(720)@0->720 read(2208)@720->2208 read(1656)@2928->1656',
 'signal rpc=6': 'tuple; header dict f050fd19ce1d3031; metadata list 7 54bc68635c519695; [(720, '
                 '1264, 1272, 10), (1272, 1816, 1824, 10), (1824, 2368, 2376, 10), (2376, 2920, '
                 '2928, 10), (2928, 3472, 3480, 10), (3480, 4024, 4032, 10), (4032, 4576, 4584, '
                 '10)] ;; read(720)@0->720 read(3312)@720->3312 read(552)@4032->552',
 'signal rpc=7': 'tuple; header dict f050fd19ce1d3031; metadata list 7 54bc68635c519695; [(720, '
                 '1264, 1272, 10), (1272, 1816, 1824, 10), (1824, 2368, 2376, 10), (2376, 2920, '
                 '2928, 10), (2928, 3472, 3480, 10), (3480, 4024, 4032, 10), (4032, 4576, 4584, '
                 '10)] ;; read(720)@0->720 read(3864)@720->3864',
 'signal rpc=8': 'tuple; header dict f050fd19ce1d3031; metadata list 7 54bc68635c519695; [(720, '
                 '1264, 1272, 10), (1272, 1816, 1824, 10), (1824, 2368, 2376, 10), (2376, 2920, '
                 '2928, 10), (2928, 3472, 3480, 10), (3480, 4024, 4032, 10), (4032, 4576, 4584, '
                 '10)] ;; read(720)@0->720 read(3864)@720->3864',
 'signal rpc=1024': 'tuple; header dict f050fd19ce1d3031; metadata list 7 54bc68635c519695; [(720, '
                    '1264, 1272, 10), (1272, 1816, 1824, 10), (1824, 2368, 2376, 10), (2376, 2920, '
                    '2928, 10), (2928, 3472, 3480, 10), (3480, 4024, 4032, 10), (4032, 4576, 4584, '
                    '10)] ;; read(720)@0->720 read(3864)@720->3864',
 'signal rpc=True': 'tuple; header dict f050fd19ce1d3031; metadata list 7 54bc68635c519695; [(720, '
                    '1264, 1272, 10), (1272, 1816, 1824, 10), (1824, 2368, 2376, 10), (2376, 2920, '
                    '2928, 10), (2928, 3472, 3480, 10), (3480, 4024, 4032, 10), (4032, 4576, 4584, '
                    '10)] ;; read(720)@0->720 read(552)@720->552 read(552)@1272->552 '
                    'read(552)@1824->552 read(552)@2376->552 read(552)@2928->552 '
                    'read(552)@3480->552 read(552)@4032->552',
 'signal rpc=2.0': "raises TypeError: argument should be integer or None, not 'float' (cause: "
                   'None, context: None) ;; read(720)@0->720',
 'signal rpc=2.5': "raises TypeError: argument should be integer or None, not 'float' (cause: "
                   'None, context: None) ;; read(720)@0->720',
 'signal rpc=0.5': "raises TypeError: argument should be integer or None, not 'float' (cause: "
                   'None, context: None) ;; read(720)@0->720',
 'processed rpc=1': 'tuple; header dict 00b6abd36de635f4; metadata list 5 b4b7a2247e2db457; [(720, '
                    '912, 918, 11), (918, 1110, 1116, 11), (1116, 1308, 1314, 11), (1314, 1506, '
                    '1512, 11), (1512, 1704, 1710, 11)] ;; read(720)@0->720 read(198)@720->198 '
                    'read(198)@918->198 read(198)@1116->198 read(198)@1314->198 '
                    'read(198)@1512->198',
 'processed rpc=2': 'tuple; header dict 00b6abd36de635f4; metadata list 5 b4b7a2247e2db457; [(720, '
                    '912, 918, 11), (918, 1110, 1116, 11), (1116, 1308, 1314, 11), (1314, 1506, '
                    '1512, 11), (1512, 1704, 1710, 11)] ;; read(720)@0->720 read(396)@720->396 '
                    'read(396)@1116->396 read(198)@1512->198',
 'processed rpc=5': 'tuple; header dict 00b6abd36de635f4; metadata list 5 b4b7a2247e2db457; [(720, '
                    '912, 918, 11), (918, 1110, 1116, 11), (1116, 1308, 1314, 11), (1314, 1506, '
                    '1512, 11), (1512, 1704, 1710, 11)] ;; read(720)@0->720 read(990)@720->990',
 'processed rpc=100': 'tuple; header dict 00b6abd36de635f4; metadata list 5 b4b7a2247e2db457; '
                      '[(720, 912, 918, 11), (918, 1110, 1116, 11), (1116, 1308, 1314, 11), (1314, '
                      '1506, 1512, 11), (1512, 1704, 1710, 11)] ;; read(720)@0->720 '
                      'read(990)@720->990',
 'signal default rpc': 'tuple; header dict f050fd19ce1d3031; metadata list 7 54bc68635c519695; '
                       '[(720, 1264, 1272, 10), (1272, 1816, 1824, 10), (1824, 2368, 2376, 10), '
                       '(2376, 2920, 2928, 10), (2928, 3472, 3480, 10), (3480, 4024, 4032, 10), '
                       '(4032, 4576, 4584, 10)] ;; read(720)@0->720 read(3864)@720->3864',
 'signal keyword rpc': 'tuple; header dict f050fd19ce1d3031; metadata list 7 54bc68635c519695; '
                       '[(720, 1264, 1272, 10), (1272, 1816, 1824, 10), (1824, 2368, 2376, 10), '
                       '(2376, 2920, 2928, 10), (2928, 3472, 3480, 10), (3480, 4024, 4032, 10), '
                       '(4032, 4576, 4584, 10)] ;; read(720)@0->720 read(1656)@720->1656 '
                       'read(1656)@2376->1656 read(552)@4032->552',
 'signal invalid rpc=None': "raises TypeError: unsupported operand type(s) for /: 'int' and "
                            "'NoneType' (cause: None, context: None) ;; read(720)@0->720",
 'signal invalid rpc=0': 'raises ZeroDivisionError: division by zero (cause: None, context: None) '
                         ';; read(720)@0->720',
 'signal invalid rpc=0.0': 'raises ZeroDivisionError: float division by zero (cause: None, '
                           'context: None) ;; read(720)@0->720',
 'signal invalid rpc=-1': 'tuple; header dict f050fd19ce1d3031; metadata list 0 195f2f042645d7ad; '
                          '[] ;; read(720)@0->720',
 'signal invalid rpc=-3': 'tuple; header dict f050fd19ce1d3031; metadata list 0 195f2f042645d7ad; '
                          '[] ;; read(720)@0->720',
 "signal invalid rpc='2'": "raises TypeError: unsupported operand type(s) for /: 'int' and 'str' "
                           '(cause: None, context: None) ;; read(720)@0->720',
 'signal invalid rpc=[2]': "raises TypeError: unsupported operand type(s) for /: 'int' and 'list' "
                           '(cause: None, context: None) ;; read(720)@0->720',
 'no records rpc=1': 'tuple; header dict 74c81a7b35bd52ed; metadata list 0 195f2f042645d7ad; [] ;; '
                     'read(720)@0->720',
 'no records rpc=2': 'tuple; header dict 74c81a7b35bd52ed; metadata list 0 195f2f042645d7ad; [] ;; '
                     'read(720)@0->720',
 'no records rpc=1024': 'tuple; header dict 74c81a7b35bd52ed; metadata list 0 195f2f042645d7ad; [] '
                        ';; read(720)@0->720',
 'no records but data rpc=1': 'tuple; header dict 74c81a7b35bd52ed; metadata list 0 '
                              '195f2f042645d7ad; [] ;; read(720)@0->720',
 'no records but data rpc=2': 'tuple; header dict 74c81a7b35bd52ed; metadata list 0 '
                              '195f2f042645d7ad; [] ;; read(720)@0->720',
 'no records but data rpc=1024': 'tuple; header dict 74c81a7b35bd52ed; metadata list 0 '
                                 '195f2f042645d7ad; [] ;; read(720)@0->720',
 'blank number of records rpc=1': 'tuple; header dict 073497ee4ef038da; metadata list 0 '
                                  '195f2f042645d7ad; [] ;; read(720)@0->720',
 'blank number of records rpc=2': 'tuple; header dict 073497ee4ef038da; metadata list 0 '
                                  '195f2f042645d7ad; [] ;; read(720)@0->720',
 'blank number of records rpc=1024': 'tuple; header dict 073497ee4ef038da; metadata list 0 '
                                     '195f2f042645d7ad; [] ;; read(720)@0->720',
 'blank record size rpc=1': 'raises RangeError: Error in path (parsing) | invalid count -1104 '
                            '(cause: None, context: None) ;; read(720)@0->720 read(-1)@720->1104',
 'blank record size rpc=2': 'raises RangeError: Error in path (parsing) | invalid count -1104 '
                            '(cause: None, context: None) ;; read(720)@0->720 read(-2)@720->1104',
 'blank record size rpc=1024': 'raises RangeError: Error in path (parsing) | invalid count -1104 '
                               '(cause: None, context: None) ;; read(720)@0->720 '
                               'read(-2)@720->1104',
 'zero record size rpc=1': 'raises ZeroDivisionError: integer division or modulo by zero (cause: '
                           'None, context: None) ;; read(720)@0->720 read(0)@720->0',
 'zero record size rpc=2': 'raises ZeroDivisionError: integer division or modulo by zero (cause: '
                           'None, context: None) ;; read(720)@0->720 read(0)@720->0',
 'zero record size rpc=1024': 'raises ZeroDivisionError: integer division or modulo by zero '
                              '(cause: None, context: None) ;; read(720)@0->720 read(0)@720->0',
 'fewer records announced rpc=1': 'tuple; header dict 7cb040a7ea969f68; metadata list 3 '
                                  '8c4d2510e4cca05a; [(720, 1264, 1272, 10), (1272, 1816, 1824, '
                                  '10), (1824, 2368, 2376, 10)] ;; read(720)@0->720 '
                                  'read(552)@720->552 read(552)@1272->552 read(552)@1824->552',
 'fewer records announced rpc=2': 'tuple; header dict 7cb040a7ea969f68; metadata list 3 '
                                  '8c4d2510e4cca05a; [(720, 1264, 1272, 10), (1272, 1816, 1824, '
                                  '10), (1824, 2368, 2376, 10)] ;; read(720)@0->720 '
                                  'read(1104)@720->1104 read(552)@1824->552',
 'fewer records announced rpc=1024': 'tuple; header dict 7cb040a7ea969f68; metadata list 3 '
                                     '8c4d2510e4cca05a; [(720, 1264, 1272, 10), (1272, 1816, 1824, '
                                     '10), (1824, 2368, 2376, 10)] ;; read(720)@0->720 '
                                     'read(1656)@720->1656',
 'more records announced rpc=1': 'raises StreamError: Error in path (parsing) -> '
                                 'record_sequence_number | stream read less than specified amount, '
                                 'expected 4, found 0 (cause: None, context: None) ;; '
                                 'read(720)@0->720 read(552)@720->552 read(552)@1272->552 '
                                 'read(552)@1824->552 read(552)@2376->552 read(552)@2928->552 '
                                 'read(552)@3480->552 read(552)@4032->552 read(552)@4584->0',
 'more records announced rpc=2': 'raises StreamError: Error in path (parsing) -> '
                                 'record_sequence_number | stream read less than specified amount, '
                                 'expected 4, found 0 (cause: None, context: None) ;; '
                                 'read(720)@0->720 read(1104)@720->1104 read(1104)@1824->1104 '
                                 'read(1104)@2928->1104 read(1104)@4032->552 read(552)@4584->0',
 'more records announced rpc=1024': 'tuple; header dict 5c8b6ede7cbc02e5; metadata list 7 '
                                    '54bc68635c519695; [(720, 1264, 1272, 10), (1272, 1816, 1824, '
                                    '10), (1824, 2368, 2376, 10), (2376, 2920, 2928, 10), (2928, '
                                    '3472, 3480, 10), (3480, 4024, 4032, 10), (4032, 4576, 4584, '
                                    '10)] ;; read(720)@0->720 read(4968)@720->3864',
 'truncated in last record rpc=1': 'raises ValueError: sizes mismatch: chunksize is 0 but got 547 '
                                   'bytes (cause: None, context: None) ;; read(720)@0->720 '
                                   'read(552)@720->552 read(552)@1272->552 read(552)@1824->552 '
                                   'read(552)@2376->552 read(552)@2928->552 read(552)@3480->552 '
                                   'read(552)@4032->547',
 'truncated in last record rpc=2': 'raises ValueError: sizes mismatch: chunksize is 0 but got 547 '
                                   'bytes (cause: None, context: None) ;; read(720)@0->720 '
                                   'read(1104)@720->1104 read(1104)@1824->1104 '
                                   'read(1104)@2928->1104 read(552)@4032->547',
 'truncated in last record rpc=1024': 'raises ValueError: sizes mismatch: chunksize is 3312 but '
                                      'got 3859 bytes (cause: None, context: None) ;; '
                                      'read(720)@0->720 read(3864)@720->3859',
 'truncated in first preamble rpc=1': 'raises ValueError: sizes mismatch: chunksize is 0 but got 7 '
                                      'bytes (cause: None, context: None) ;; read(720)@0->720 '
                                      'read(552)@720->7',
 'truncated in first preamble rpc=2': 'raises ValueError: sizes mismatch: chunksize is 0 but got 7 '
                                      'bytes (cause: None, context: None) ;; read(720)@0->720 '
                                      'read(1104)@720->7',
 'truncated in first preamble rpc=1024': 'raises ValueError: sizes mismatch: chunksize is 0 but '
                                         'got 7 bytes (cause: None, context: None) ;; '
                                         'read(720)@0->720 read(3864)@720->7',
 'truncated header rpc=1': 'raises StreamError: Error in path (parsing) -> '
                           'scansar_burst_data_information -> blanks | stream read less than '
                           'specified amount, expected 260, found 40 (cause: None, context: None) '
                           ';; read(720)@0->500',
 'truncated header rpc=2': 'raises StreamError: Error in path (parsing) -> '
                           'scansar_burst_data_information -> blanks | stream read less than '
                           'specified amount, expected 260, found 40 (cause: None, context: None) '
                           ';; read(720)@0->500',
 'truncated header rpc=1024': 'raises StreamError: Error in path (parsing) -> '
                              'scansar_burst_data_information -> blanks | stream read less than '
                              'specified amount, expected 260, found 40 (cause: None, context: '
                              'None) ;; read(720)@0->500',
 'empty file rpc=1': 'raises StreamError: Error in path (parsing) -> preamble -> '
                     'record_sequence_number | stream read less than specified amount, expected 4, '
                     'found 0 (cause: None, context: None) ;; read(720)@0->0',
 'empty file rpc=2': 'raises StreamError: Error in path (parsing) -> preamble -> '
                     'record_sequence_number | stream read less than specified amount, expected 4, '
                     'found 0 (cause: None, context: None) ;; read(720)@0->0',
 'empty file rpc=1024': 'raises StreamError: Error in path (parsing) -> preamble -> '
                        'record_sequence_number | stream read less than specified amount, expected '
                        '4, found 0 (cause: None, context: None) ;; read(720)@0->0',
 'invalid number of records rpc=1': 'raises ValueError: invalid literal for int() with base 10: '
                                    "'abc' (cause: None, context: None) ;; read(720)@0->720",
 'invalid number of records rpc=2': 'raises ValueError: invalid literal for int() with base 10: '
                                    "'abc' (cause: None, context: None) ;; read(720)@0->720",
 'invalid number of records rpc=1024': 'raises ValueError: invalid literal for int() with base 10: '
                                       "'abc' (cause: None, context: None) ;; read(720)@0->720",
 'wrong record size rpc=1': 'raises ValueError: unknown record type code: 2 (cause: None, context: '
                            'None) ;; read(720)@0->720 read(550)@720->550 read(550)@1270->550',
 'wrong record size rpc=2': 'raises ValueError: unknown record type code: 0 (cause: None, context: '
                            'None) ;; read(720)@0->720 read(1100)@720->1100 read(1100)@1820->1100',
 'wrong record size rpc=1024': 'raises StreamError: Error in path (parsing) -> '
                               'palsar_auxiliary_data | stream read less than specified amount, '
                               'expected 256, found 250 (cause: None, context: None) ;; '
                               'read(720)@0->720 read(3850)@720->3850',
 'record size is half rpc=1': 'raises StreamError: Error in path (parsing) -> blanks2 | stream '
                              'read less than specified amount, expected 60, found 52 (cause: '
                              'None, context: None) ;; read(720)@0->720 read(276)@720->276',
 'record size is half rpc=2': 'raises StreamError: Error in path (parsing) -> preamble -> '
                              'record_sequence_number | stream read less than specified amount, '
                              'expected 4, found 0 (cause: None, context: None) ;; '
                              'read(720)@0->720 read(552)@720->552',
 'record size is half rpc=1024': 'raises StreamError: Error in path (parsing) -> preamble -> '
                                 'record_sequence_number | stream read less than specified amount, '
                                 'expected 4, found 0 (cause: None, context: None) ;; '
                                 'read(720)@0->720 read(3864)@720->3864',
 'unknown record type rpc=1': 'raises ValueError: unknown record type code: 12 (cause: None, '
                              'context: None) ;; read(720)@0->720 read(552)@720->552',
 'unknown record type rpc=2': 'raises ValueError: unknown record type code: 12 (cause: None, '
                              'context: None) ;; read(720)@0->720 read(1104)@720->1104',
 'unknown record type rpc=1024': 'raises ValueError: unknown record type code: 12 (cause: None, '
                                 'context: None) ;; read(720)@0->720 read(1104)@720->1104',
 'unknown record type in third record rpc=1': 'raises ValueError: unknown record type code: 50 '
                                              '(cause: None, context: None) ;; read(720)@0->720 '
                                              'read(552)@720->552 read(552)@1272->552 '
                                              'read(552)@1824->552',
 'unknown record type in third record rpc=2': 'raises ValueError: unknown record type code: 50 '
                                              '(cause: None, context: None) ;; read(720)@0->720 '
                                              'read(1104)@720->1104 read(1104)@1824->1104',
 'unknown record type in third record rpc=1024': 'tuple; header dict 83187cb387d1d52e; metadata '
                                                 'list 4 1c7caa4be83f52a1; [(720, 1264, 1272, 10), '
                                                 '(1272, 1816, 1824, 10), (1824, 2368, 2376, 50), '
                                                 '(2376, 2920, 2928, 10)] ;; read(720)@0->720 '
                                                 'read(2208)@720->2208',
 'processed type in signal layout rpc=1': 'tuple; header dict 8cf625f1282344a7; metadata list 2 '
                                          '06f0e8633418347f; [(720, 912, 1272, 11), (1272, 1464, '
                                          '1824, 11)] ;; read(720)@0->720 read(552)@720->552 '
                                          'read(552)@1272->552',
 'processed type in signal layout rpc=2': 'tuple; header dict 8cf625f1282344a7; metadata list 2 '
                                          '06f0e8633418347f; [(720, 912, 1272, 11), (1272, 1464, '
                                          '1824, 11)] ;; read(720)@0->720 read(1104)@720->1104',
 'processed type in signal layout rpc=1024': 'tuple; header dict 8cf625f1282344a7; metadata list 2 '
                                             '06f0e8633418347f; [(720, 912, 1272, 11), (1272, '
                                             '1464, 1824, 11)] ;; read(720)@0->720 '
                                             'read(1104)@720->1104',
 'type switches between chunks rpc=1': 'raises StreamError: Error in path (parsing) -> '
                                       'latitude_of_center_pixel | stream read less than specified '
                                       'amount, expected 4, found 2 (cause: None, context: None) '
                                       ';; read(720)@0->720 read(198)@720->198 read(198)@918->198',
 'type switches between chunks rpc=2': 'tuple; header dict 0e92ce77899b0d78; metadata list 2 '
                                       '1aa5e8241e424a23; [(720, 912, 918, 11), (918, 1110, 1116, '
                                       '10)] ;; read(720)@0->720 read(396)@720->396',
 'type switches between chunks rpc=1024': 'tuple; header dict 0e92ce77899b0d78; metadata list 2 '
                                          '1aa5e8241e424a23; [(720, 912, 918, 11), (918, 1110, '
                                          '1116, 10)] ;; read(720)@0->720 read(396)@720->396',
 'record length larger than record size rpc=1': 'tuple; header dict 7cb040a7ea969f68; metadata '
                                                'list 3 133db6835e094a6e; [(720, 1264, 1280, 10), '
                                                '(1272, 1816, 1824, 10), (1824, 2368, 2376, 10)] '
                                                ';; read(720)@0->720 read(552)@720->552 '
                                                'read(552)@1272->552 read(552)@1824->552',
 'record length larger than record size rpc=2': 'raises ValueError: year 45000123 is out of range '
                                                '(cause: None, context: None) ;; read(720)@0->720 '
                                                'read(1104)@720->1104',
 'record length larger than record size rpc=1024': 'raises ValueError: year 45000123 is out of '
                                                   'range (cause: None, context: None) ;; '
                                                   'read(720)@0->720 read(1656)@720->1656',
 'record length smaller than header rpc=1': 'tuple; header dict 8cf625f1282344a7; metadata list 2 '
                                            '6c2a362e0fa5e1f1; [(720, 1264, 820, 10), (1272, 1816, '
                                            '1824, 10)] ;; read(720)@0->720 read(552)@720->552 '
                                            'read(552)@1272->552',
 'record length smaller than header rpc=2': 'raises ValueError: year 136001 is out of range '
                                            '(cause: None, context: None) ;; read(720)@0->720 '
                                            'read(1104)@720->1104',
 'record length smaller than header rpc=1024': 'raises ValueError: year 136001 is out of range '
                                               '(cause: None, context: None) ;; read(720)@0->720 '
                                               'read(1104)@720->1104',
 'StopIteration at read 0': 'raises StopIteration: no more data (cause: None, context: None) ;; '
                            'read(720)->StopIteration',
 'StopIteration at read 1': 'raises RuntimeError: generator raised StopIteration (cause: '
                            'StopIteration, context: StopIteration) ;; read(720)@0->720 '
                            'read(1656)->StopIteration',
 'StopIteration at read 2': 'raises RuntimeError: generator raised StopIteration (cause: '
                            'StopIteration, context: StopIteration) ;; read(720)@0->720 '
                            'read(1656)@720->1656 read(1656)->StopIteration',
 'StopIteration at read 3': 'raises RuntimeError: generator raised StopIteration (cause: '
                            'StopIteration, context: StopIteration) ;; read(720)@0->720 '
                            'read(1656)@720->1656 read(1656)@2376->1656 read(552)->StopIteration',
 'fsspec rpc=2': 'tuple; header dict f050fd19ce1d3031; metadata list 7 54bc68635c519695; [(720, '
                 '1264, 1272, 10), (1272, 1816, 1824, 10), (1824, 2368, 2376, 10), (2376, 2920, '
                 '2928, 10), (2928, 3472, 3480, 10), (3480, 4024, 4032, 10), (4032, 4576, 4584, '
                 '10)] ;; tell=4584',
 'fsspec rpc=1024': 'tuple; header dict f050fd19ce1d3031; metadata list 7 54bc68635c519695; [(720, '
                    '1264, 1272, 10), (1272, 1816, 1824, 10), (1824, 2368, 2376, 10), (2376, 2920, '
                    '2928, 10), (2928, 3472, 3480, 10), (3480, 4024, 4032, 10), (4032, 4576, 4584, '
                    '10)] ;; tell=4584',
 'read_file_descriptor signal': 'f050fd19ce1d3031 ;; read(720)@0->720',
 'read_file_descriptor exact': 'f050fd19ce1d3031 ;; read(720)@0->720',
 'read_file_descriptor short': 'raises StreamError: Error in path (parsing) -> '
                               'scansar_burst_data_information -> blanks | stream read less than '
                               'specified amount, expected 260, found 259 (cause: None, context: '
                               'None) ;; read(720)@0->719',
 'read_file_descriptor empty': 'raises StreamError: Error in path (parsing) -> preamble -> '
                               'record_sequence_number | stream read less than specified amount, '
                               'expected 4, found 0 (cause: None, context: None) ;; read(720)@0->0',
 'parse_chunk empty size=16': 'raises StreamError: Error in path (parsing) -> '
                              'record_sequence_number | stream read less than specified amount, '
                              'expected 4, found 0 (cause: None, context: None)',
 'parse_chunk empty size=17': 'raises StreamError: Error in path (parsing) -> '
                              'record_sequence_number | stream read less than specified amount, '
                              'expected 4, found 0 (cause: None, context: None)',
 'parse_chunk empty size=2': 'raises StreamError: Error in path (parsing) -> '
                             'record_sequence_number | stream read less than specified amount, '
                             'expected 4, found 0 (cause: None, context: None)',
 'parse_chunk empty size=1': 'raises StreamError: Error in path (parsing) -> '
                             'record_sequence_number | stream read less than specified amount, '
                             'expected 4, found 0 (cause: None, context: None)',
 'parse_chunk empty size=32': 'raises StreamError: Error in path (parsing) -> '
                              'record_sequence_number | stream read less than specified amount, '
                              'expected 4, found 0 (cause: None, context: None)',
 'parse_chunk empty size=34': 'raises StreamError: Error in path (parsing) -> '
                              'record_sequence_number | stream read less than specified amount, '
                              'expected 4, found 0 (cause: None, context: None)',
 'parse_chunk empty size=51': 'raises StreamError: Error in path (parsing) -> '
                              'record_sequence_number | stream read less than specified amount, '
                              'expected 4, found 0 (cause: None, context: None)',
 'parse_chunk empty size=5': 'raises StreamError: Error in path (parsing) -> '
                             'record_sequence_number | stream read less than specified amount, '
                             'expected 4, found 0 (cause: None, context: None)',
 'parse_chunk empty size=7': 'raises StreamError: Error in path (parsing) -> '
                             'record_sequence_number | stream read less than specified amount, '
                             'expected 4, found 0 (cause: None, context: None)',
 'parse_chunk empty size=100': 'raises StreamError: Error in path (parsing) -> '
                               'record_sequence_number | stream read less than specified amount, '
                               'expected 4, found 0 (cause: None, context: None)',
 'parse_chunk empty size=0': 'raises ZeroDivisionError: integer division or modulo by zero (cause: '
                             'None, context: None)',
 'parse_chunk empty size=-16': 'raises StreamError: Error in path (parsing) -> '
                               'record_sequence_number | stream read less than specified amount, '
                               'expected 4, found 0 (cause: None, context: None)',
 'parse_chunk empty size=-1': 'raises StreamError: Error in path (parsing) -> '
                              'record_sequence_number | stream read less than specified amount, '
                              'expected 4, found 0 (cause: None, context: None)',
 'parse_chunk empty size=16.0': 'raises StreamError: Error in path (parsing) -> '
                                'record_sequence_number | stream read less than specified amount, '
                                'expected 4, found 0 (cause: None, context: None)',
 'parse_chunk empty size=8.5': 'raises StreamError: Error in path (parsing) -> '
                               'record_sequence_number | stream read less than specified amount, '
                               'expected 4, found 0 (cause: None, context: None)',
 'parse_chunk empty size=0.0': 'raises ZeroDivisionError: float floor division by zero (cause: '
                               'None, context: None)',
 'parse_chunk empty size=True': 'raises StreamError: Error in path (parsing) -> '
                                'record_sequence_number | stream read less than specified amount, '
                                'expected 4, found 0 (cause: None, context: None)',
 'parse_chunk empty size=None': "raises TypeError: unsupported operand type(s) for //: 'int' and "
                                "'NoneType' (cause: None, context: None)",
 "parse_chunk empty size='16'": "raises TypeError: unsupported operand type(s) for //: 'int' and "
                                "'str' (cause: None, context: None)",
 'parse_chunk three bytes size=16': 'raises ValueError: sizes mismatch: chunksize is 0 but got 3 '
                                    'bytes (cause: None, context: None)',
 'parse_chunk three bytes size=17': 'raises ValueError: sizes mismatch: chunksize is 0 but got 3 '
                                    'bytes (cause: None, context: None)',
 'parse_chunk three bytes size=2': 'raises ValueError: sizes mismatch: chunksize is 2 but got 3 '
                                   'bytes (cause: None, context: None)',
 'parse_chunk three bytes size=1': 'raises StreamError: Error in path (parsing) -> '
                                   'record_sequence_number | stream read less than specified '
                                   'amount, expected 4, found 3 (cause: None, context: None)',
 'parse_chunk three bytes size=32': 'raises ValueError: sizes mismatch: chunksize is 0 but got 3 '
                                    'bytes (cause: None, context: None)',
 'parse_chunk three bytes size=34': 'raises ValueError: sizes mismatch: chunksize is 0 but got 3 '
                                    'bytes (cause: None, context: None)',
 'parse_chunk three bytes size=51': 'raises ValueError: sizes mismatch: chunksize is 0 but got 3 '
                                    'bytes (cause: None, context: None)',
 'parse_chunk three bytes size=5': 'raises ValueError: sizes mismatch: chunksize is 0 but got 3 '
                                   'bytes (cause: None, context: None)',
 'parse_chunk three bytes size=7': 'raises ValueError: sizes mismatch: chunksize is 0 but got 3 '
                                   'bytes (cause: None, context: None)',
 'parse_chunk three bytes size=100': 'raises ValueError: sizes mismatch: chunksize is 0 but got 3 '
                                     'bytes (cause: None, context: None)',
 'parse_chunk three bytes size=0': 'raises ZeroDivisionError: integer division or modulo by zero '
                                   '(cause: None, context: None)',
 'parse_chunk three bytes size=-16': 'raises ValueError: sizes mismatch: chunksize is 16 but got 3 '
                                     'bytes (cause: None, context: None)',
 'parse_chunk three bytes size=-1': 'raises StreamError: Error in path (parsing) -> '
                                    'record_sequence_number | stream read less than specified '
                                    'amount, expected 4, found 3 (cause: None, context: None)',
 'parse_chunk three bytes size=16.0': 'raises ValueError: sizes mismatch: chunksize is 0.0 but got '
                                      '3 bytes (cause: None, context: None)',
 'parse_chunk three bytes size=8.5': 'raises ValueError: sizes mismatch: chunksize is 0.0 but got '
                                     '3 bytes (cause: None, context: None)',
 'parse_chunk three bytes size=0.0': 'raises ZeroDivisionError: float floor division by zero '
                                     '(cause: None, context: None)',
 'parse_chunk three bytes size=True': 'raises StreamError: Error in path (parsing) -> '
                                      'record_sequence_number | stream read less than specified '
                                      'amount, expected 4, found 3 (cause: None, context: None)',
 'parse_chunk three bytes size=None': "raises TypeError: unsupported operand type(s) for //: 'int' "
                                      "and 'NoneType' (cause: None, context: None)",
 "parse_chunk three bytes size='16'": "raises TypeError: unsupported operand type(s) for //: 'int' "
                                      "and 'str' (cause: None, context: None)",
 'parse_chunk twelve zeros size=16': 'raises ValueError: sizes mismatch: chunksize is 0 but got 12 '
                                     'bytes (cause: None, context: None)',
 'parse_chunk twelve zeros size=17': 'raises ValueError: sizes mismatch: chunksize is 0 but got 12 '
                                     'bytes (cause: None, context: None)',
 'parse_chunk twelve zeros size=2': 'raises ValueError: unknown record type code: 0 (cause: None, '
                                    'context: None)',
 'parse_chunk twelve zeros size=1': 'raises ValueError: unknown record type code: 0 (cause: None, '
                                    'context: None)',
 'parse_chunk twelve zeros size=32': 'raises ValueError: sizes mismatch: chunksize is 0 but got 12 '
                                     'bytes (cause: None, context: None)',
 'parse_chunk twelve zeros size=34': 'raises ValueError: sizes mismatch: chunksize is 0 but got 12 '
                                     'bytes (cause: None, context: None)',
 'parse_chunk twelve zeros size=51': 'raises ValueError: sizes mismatch: chunksize is 0 but got 12 '
                                     'bytes (cause: None, context: None)',
 'parse_chunk twelve zeros size=5': 'raises ValueError: sizes mismatch: chunksize is 10 but got 12 '
                                    'bytes (cause: None, context: None)',
 'parse_chunk twelve zeros size=7': 'raises ValueError: sizes mismatch: chunksize is 7 but got 12 '
                                    'bytes (cause: None, context: None)',
 'parse_chunk twelve zeros size=100': 'raises ValueError: sizes mismatch: chunksize is 0 but got '
                                      '12 bytes (cause: None, context: None)',
 'parse_chunk twelve zeros size=0': 'raises ZeroDivisionError: integer division or modulo by zero '
                                    '(cause: None, context: None)',
 'parse_chunk twelve zeros size=-16': 'raises ValueError: sizes mismatch: chunksize is 16 but got '
                                      '12 bytes (cause: None, context: None)',
 'parse_chunk twelve zeros size=-1': 'raises ValueError: unknown record type code: 0 (cause: None, '
                                     'context: None)',
 'parse_chunk twelve zeros size=16.0': 'raises ValueError: sizes mismatch: chunksize is 0.0 but '
                                       'got 12 bytes (cause: None, context: None)',
 'parse_chunk twelve zeros size=8.5': 'raises ValueError: sizes mismatch: chunksize is 8.5 but got '
                                      '12 bytes (cause: None, context: None)',
 'parse_chunk twelve zeros size=0.0': 'raises ZeroDivisionError: float floor division by zero '
                                      '(cause: None, context: None)',
 'parse_chunk twelve zeros size=True': 'raises ValueError: unknown record type code: 0 (cause: '
                                       'None, context: None)',
 'parse_chunk twelve zeros size=None': 'raises TypeError: unsupported operand type(s) for //: '
                                       "'int' and 'NoneType' (cause: None, context: None)",
 "parse_chunk twelve zeros size='16'": 'raises TypeError: unsupported operand type(s) for //: '
                                       "'int' and 'str' (cause: None, context: None)",
 'parse_chunk two records size=16': "list list[dict{str:'preamble': "
                                    "dict{str:'record_sequence_number': int:1, "
                                    "str:'first_record_subtype': int:0, str:'record_type': int:10, "
                                    "str:'second_record_subtype': int:0, "
                                    "str:'third_record_subtype': int:0, str:'record_length': "
                                    "int:16}, str:'a': int:2, str:'b': int:3, str:'c': int:31}, "
                                    "dict{str:'preamble': dict{str:'record_sequence_number': "
                                    "int:2, str:'first_record_subtype': int:0, str:'record_type': "
                                    "int:10, str:'second_record_subtype': int:0, "
                                    "str:'third_record_subtype': int:0, str:'record_length': "
                                    "int:16}, str:'a': int:3, str:'b': int:4, str:'c': int:32}]",
 'parse_chunk two records size=17': 'raises ValueError: sizes mismatch: chunksize is 17 but got 32 '
                                    'bytes (cause: None, context: None)',
 'parse_chunk two records size=2': 'raises StreamError: Error in path (parsing) -> preamble -> '
                                   'record_sequence_number | stream read less than specified '
                                   'amount, expected 4, found 0 (cause: None, context: None)',
 'parse_chunk two records size=1': 'raises StreamError: Error in path (parsing) -> preamble -> '
                                   'record_sequence_number | stream read less than specified '
                                   'amount, expected 4, found 0 (cause: None, context: None)',
 'parse_chunk two records size=32': "list list[dict{str:'preamble': "
                                    "dict{str:'record_sequence_number': int:1, "
                                    "str:'first_record_subtype': int:0, str:'record_type': int:10, "
                                    "str:'second_record_subtype': int:0, "
                                    "str:'third_record_subtype': int:0, str:'record_length': "
                                    "int:16}, str:'a': int:2, str:'b': int:3, str:'c': int:31}]",
 'parse_chunk two records size=34': 'raises ValueError: sizes mismatch: chunksize is 0 but got 32 '
                                    'bytes (cause: None, context: None)',
 'parse_chunk two records size=51': 'raises ValueError: sizes mismatch: chunksize is 0 but got 32 '
                                    'bytes (cause: None, context: None)',
 'parse_chunk two records size=5': 'raises ValueError: sizes mismatch: chunksize is 30 but got 32 '
                                   'bytes (cause: None, context: None)',
 'parse_chunk two records size=7': 'raises ValueError: sizes mismatch: chunksize is 28 but got 32 '
                                   'bytes (cause: None, context: None)',
 'parse_chunk two records size=100': 'raises ValueError: sizes mismatch: chunksize is 0 but got 32 '
                                     'bytes (cause: None, context: None)',
 'parse_chunk two records size=0': 'raises ZeroDivisionError: integer division or modulo by zero '
                                   '(cause: None, context: None)',
 'parse_chunk two records size=-16': 'raises RangeError: Error in path (parsing) | invalid count '
                                     '-2 (cause: None, context: None)',
 'parse_chunk two records size=-1': 'raises RangeError: Error in path (parsing) | invalid count '
                                    '-32 (cause: None, context: None)',
 'parse_chunk two records size=16.0': 'raises ConstructError: subcon[N] syntax expects integer or '
                                      'context lambda (cause: None, context: None)',
 'parse_chunk two records size=8.5': 'raises ValueError: sizes mismatch: chunksize is 25.5 but got '
                                     '32 bytes (cause: None, context: None)',
 'parse_chunk two records size=0.0': 'raises ZeroDivisionError: float floor division by zero '
                                     '(cause: None, context: None)',
 'parse_chunk two records size=True': 'raises StreamError: Error in path (parsing) -> preamble -> '
                                      'record_sequence_number | stream read less than specified '
                                      'amount, expected 4, found 0 (cause: None, context: None)',
 'parse_chunk two records size=None': "raises TypeError: unsupported operand type(s) for //: 'int' "
                                      "and 'NoneType' (cause: None, context: None)",
 "parse_chunk two records size='16'": "raises TypeError: unsupported operand type(s) for //: 'int' "
                                      "and 'str' (cause: None, context: None)",
 'parse_chunk three records size=16': 'raises ValueError: sizes mismatch: chunksize is 48 but got '
                                      '51 bytes (cause: None, context: None)',
 'parse_chunk three records size=17': "list list[dict{str:'preamble': "
                                      "dict{str:'record_sequence_number': int:1, "
                                      "str:'first_record_subtype': int:0, str:'record_type': "
                                      "int:11, str:'second_record_subtype': int:0, "
                                      "str:'third_record_subtype': int:0, str:'record_length': "
                                      "int:17}, str:'record_start': int:12, str:'a': int:3, "
                                      "str:'data': dict{str:'start': int:13, str:'stop': int:17}}, "
                                      "dict{str:'preamble': dict{str:'record_sequence_number': "
                                      "int:2, str:'first_record_subtype': int:0, "
                                      "str:'record_type': int:11, str:'second_record_subtype': "
                                      "int:0, str:'third_record_subtype': int:0, "
                                      "str:'record_length': int:17}, str:'record_start': int:29, "
                                      "str:'a': int:4, str:'data': dict{str:'start': int:30, "
                                      "str:'stop': int:34}}, dict{str:'preamble': "
                                      "dict{str:'record_sequence_number': int:3, "
                                      "str:'first_record_subtype': int:0, str:'record_type': "
                                      "int:11, str:'second_record_subtype': int:0, "
                                      "str:'third_record_subtype': int:0, str:'record_length': "
                                      "int:17}, str:'record_start': int:46, str:'a': int:5, "
                                      "str:'data': dict{str:'start': int:47, str:'stop': int:51}}]",
 'parse_chunk three records size=2': 'raises ValueError: sizes mismatch: chunksize is 50 but got '
                                     '51 bytes (cause: None, context: None)',
 'parse_chunk three records size=1': 'raises StreamError: Error in path (parsing) -> preamble -> '
                                     'record_sequence_number | stream read less than specified '
                                     'amount, expected 4, found 0 (cause: None, context: None)',
 'parse_chunk three records size=32': 'raises ValueError: sizes mismatch: chunksize is 32 but got '
                                      '51 bytes (cause: None, context: None)',
 'parse_chunk three records size=34': 'raises ValueError: sizes mismatch: chunksize is 34 but got '
                                      '51 bytes (cause: None, context: None)',
 'parse_chunk three records size=51': "list list[dict{str:'preamble': "
                                      "dict{str:'record_sequence_number': int:1, "
                                      "str:'first_record_subtype': int:0, str:'record_type': "
                                      "int:11, str:'second_record_subtype': int:0, "
                                      "str:'third_record_subtype': int:0, str:'record_length': "
                                      "int:17}, str:'record_start': int:12, str:'a': int:3, "
                                      "str:'data': dict{str:'start': int:13, str:'stop': int:17}}]",
 'parse_chunk three records size=5': 'raises ValueError: sizes mismatch: chunksize is 50 but got '
                                     '51 bytes (cause: None, context: None)',
 'parse_chunk three records size=7': 'raises ValueError: sizes mismatch: chunksize is 49 but got '
                                     '51 bytes (cause: None, context: None)',
 'parse_chunk three records size=100': 'raises ValueError: sizes mismatch: chunksize is 0 but got '
                                       '51 bytes (cause: None, context: None)',
 'parse_chunk three records size=0': 'raises ZeroDivisionError: integer division or modulo by zero '
                                     '(cause: None, context: None)',
 'parse_chunk three records size=-16': 'raises ValueError: sizes mismatch: chunksize is 64 but got '
                                       '51 bytes (cause: None, context: None)',
 'parse_chunk three records size=-1': 'raises RangeError: Error in path (parsing) | invalid count '
                                      '-51 (cause: None, context: None)',
 'parse_chunk three records size=16.0': 'raises ValueError: sizes mismatch: chunksize is 48.0 but '
                                        'got 51 bytes (cause: None, context: None)',
 'parse_chunk three records size=8.5': 'raises ConstructError: subcon[N] syntax expects integer or '
                                       'context lambda (cause: None, context: None)',
 'parse_chunk three records size=0.0': 'raises ZeroDivisionError: float floor division by zero '
                                       '(cause: None, context: None)',
 'parse_chunk three records size=True': 'raises StreamError: Error in path (parsing) -> preamble '
                                        '-> record_sequence_number | stream read less than '
                                        'specified amount, expected 4, found 0 (cause: None, '
                                        'context: None)',
 'parse_chunk three records size=None': 'raises TypeError: unsupported operand type(s) for //: '
                                        "'int' and 'NoneType' (cause: None, context: None)",
 "parse_chunk three records size='16'": 'raises TypeError: unsupported operand type(s) for //: '
                                        "'int' and 'str' (cause: None, context: None)",
 'parse_chunk one record size=16': "list list[dict{str:'preamble': "
                                   "dict{str:'record_sequence_number': int:5, "
                                   "str:'first_record_subtype': int:0, str:'record_type': int:10, "
                                   "str:'second_record_subtype': int:0, "
                                   "str:'third_record_subtype': int:0, str:'record_length': "
                                   "int:16}, str:'a': int:6, str:'b': int:7, str:'c': int:35}]",
 'parse_chunk one record size=17': 'raises ValueError: sizes mismatch: chunksize is 0 but got 16 '
                                   'bytes (cause: None, context: None)',
 'parse_chunk one record size=2': 'raises StreamError: Error in path (parsing) -> preamble -> '
                                  'record_sequence_number | stream read less than specified '
                                  'amount, expected 4, found 0 (cause: None, context: None)',
 'parse_chunk one record size=1': 'raises StreamError: Error in path (parsing) -> preamble -> '
                                  'record_sequence_number | stream read less than specified '
                                  'amount, expected 4, found 0 (cause: None, context: None)',
 'parse_chunk one record size=32': 'raises ValueError: sizes mismatch: chunksize is 0 but got 16 '
                                   'bytes (cause: None, context: None)',
 'parse_chunk one record size=34': 'raises ValueError: sizes mismatch: chunksize is 0 but got 16 '
                                   'bytes (cause: None, context: None)',
 'parse_chunk one record size=51': 'raises ValueError: sizes mismatch: chunksize is 0 but got 16 '
                                   'bytes (cause: None, context: None)',
 'parse_chunk one record size=5': 'raises ValueError: sizes mismatch: chunksize is 15 but got 16 '
                                  'bytes (cause: None, context: None)',
 'parse_chunk one record size=7': 'raises ValueError: sizes mismatch: chunksize is 14 but got 16 '
                                  'bytes (cause: None, context: None)',
 'parse_chunk one record size=100': 'raises ValueError: sizes mismatch: chunksize is 0 but got 16 '
                                    'bytes (cause: None, context: None)',
 'parse_chunk one record size=0': 'raises ZeroDivisionError: integer division or modulo by zero '
                                  '(cause: None, context: None)',
 'parse_chunk one record size=-16': 'raises RangeError: Error in path (parsing) | invalid count -1 '
                                    '(cause: None, context: None)',
 'parse_chunk one record size=-1': 'raises RangeError: Error in path (parsing) | invalid count -16 '
                                   '(cause: None, context: None)',
 'parse_chunk one record size=16.0': 'raises ConstructError: subcon[N] syntax expects integer or '
                                     'context lambda (cause: None, context: None)',
 'parse_chunk one record size=8.5': 'raises ValueError: sizes mismatch: chunksize is 8.5 but got '
                                    '16 bytes (cause: None, context: None)',
 'parse_chunk one record size=0.0': 'raises ZeroDivisionError: float floor division by zero '
                                    '(cause: None, context: None)',
 'parse_chunk one record size=True': 'raises StreamError: Error in path (parsing) -> preamble -> '
                                     'record_sequence_number | stream read less than specified '
                                     'amount, expected 4, found 0 (cause: None, context: None)',
 'parse_chunk one record size=None': "raises TypeError: unsupported operand type(s) for //: 'int' "
                                     "and 'NoneType' (cause: None, context: None)",
 "parse_chunk one record size='16'": "raises TypeError: unsupported operand type(s) for //: 'int' "
                                     "and 'str' (cause: None, context: None)",
 'parse_chunk bytearray size=16': "list list[dict{str:'preamble': "
                                  "dict{str:'record_sequence_number': int:1, "
                                  "str:'first_record_subtype': int:0, str:'record_type': int:10, "
                                  "str:'second_record_subtype': int:0, str:'third_record_subtype': "
                                  "int:0, str:'record_length': int:16}, str:'a': int:2, str:'b': "
                                  "int:3, str:'c': int:31}, dict{str:'preamble': "
                                  "dict{str:'record_sequence_number': int:2, "
                                  "str:'first_record_subtype': int:0, str:'record_type': int:10, "
                                  "str:'second_record_subtype': int:0, str:'third_record_subtype': "
                                  "int:0, str:'record_length': int:16}, str:'a': int:3, str:'b': "
                                  "int:4, str:'c': int:32}]",
 'parse_chunk bytearray size=17': 'raises ValueError: sizes mismatch: chunksize is 17 but got 32 '
                                  'bytes (cause: None, context: None)',
 'parse_chunk bytearray size=2': 'raises StreamError: Error in path (parsing) -> preamble -> '
                                 'record_sequence_number | stream read less than specified amount, '
                                 'expected 4, found 0 (cause: None, context: None)',
 'parse_chunk bytearray size=1': 'raises StreamError: Error in path (parsing) -> preamble -> '
                                 'record_sequence_number | stream read less than specified amount, '
                                 'expected 4, found 0 (cause: None, context: None)',
 'parse_chunk bytearray size=32': "list list[dict{str:'preamble': "
                                  "dict{str:'record_sequence_number': int:1, "
                                  "str:'first_record_subtype': int:0, str:'record_type': int:10, "
                                  "str:'second_record_subtype': int:0, str:'third_record_subtype': "
                                  "int:0, str:'record_length': int:16}, str:'a': int:2, str:'b': "
                                  "int:3, str:'c': int:31}]",
 'parse_chunk bytearray size=34': 'raises ValueError: sizes mismatch: chunksize is 0 but got 32 '
                                  'bytes (cause: None, context: None)',
 'parse_chunk bytearray size=51': 'raises ValueError: sizes mismatch: chunksize is 0 but got 32 '
                                  'bytes (cause: None, context: None)',
 'parse_chunk bytearray size=5': 'raises ValueError: sizes mismatch: chunksize is 30 but got 32 '
                                 'bytes (cause: None, context: None)',
 'parse_chunk bytearray size=7': 'raises ValueError: sizes mismatch: chunksize is 28 but got 32 '
                                 'bytes (cause: None, context: None)',
 'parse_chunk bytearray size=100': 'raises ValueError: sizes mismatch: chunksize is 0 but got 32 '
                                   'bytes (cause: None, context: None)',
 'parse_chunk bytearray size=0': 'raises ZeroDivisionError: integer division or modulo by zero '
                                 '(cause: None, context: None)',
 'parse_chunk bytearray size=-16': 'raises RangeError: Error in path (parsing) | invalid count -2 '
                                   '(cause: None, context: None)',
 'parse_chunk bytearray size=-1': 'raises RangeError: Error in path (parsing) | invalid count -32 '
                                  '(cause: None, context: None)',
 'parse_chunk bytearray size=16.0': 'raises ConstructError: subcon[N] syntax expects integer or '
                                    'context lambda (cause: None, context: None)',
 'parse_chunk bytearray size=8.5': 'raises ValueError: sizes mismatch: chunksize is 25.5 but got '
                                   '32 bytes (cause: None, context: None)',
 'parse_chunk bytearray size=0.0': 'raises ZeroDivisionError: float floor division by zero (cause: '
                                   'None, context: None)',
 'parse_chunk bytearray size=True': 'raises StreamError: Error in path (parsing) -> preamble -> '
                                    'record_sequence_number | stream read less than specified '
                                    'amount, expected 4, found 0 (cause: None, context: None)',
 'parse_chunk bytearray size=None': "raises TypeError: unsupported operand type(s) for //: 'int' "
                                    "and 'NoneType' (cause: None, context: None)",
 "parse_chunk bytearray size='16'": "raises TypeError: unsupported operand type(s) for //: 'int' "
                                    "and 'str' (cause: None, context: None)",
 'parse_chunk memoryview size=16': "list list[dict{str:'preamble': "
                                   "dict{str:'record_sequence_number': int:1, "
                                   "str:'first_record_subtype': int:0, str:'record_type': int:10, "
                                   "str:'second_record_subtype': int:0, "
                                   "str:'third_record_subtype': int:0, str:'record_length': "
                                   "int:16}, str:'a': int:2, str:'b': int:3, str:'c': int:31}, "
                                   "dict{str:'preamble': dict{str:'record_sequence_number': int:2, "
                                   "str:'first_record_subtype': int:0, str:'record_type': int:10, "
                                   "str:'second_record_subtype': int:0, "
                                   "str:'third_record_subtype': int:0, str:'record_length': "
                                   "int:16}, str:'a': int:3, str:'b': int:4, str:'c': int:32}]",
 'parse_chunk memoryview size=17': 'raises ValueError: sizes mismatch: chunksize is 17 but got 32 '
                                   'bytes (cause: None, context: None)',
 'parse_chunk memoryview size=2': 'raises StreamError: Error in path (parsing) -> preamble -> '
                                  'record_sequence_number | stream read less than specified '
                                  'amount, expected 4, found 0 (cause: None, context: None)',
 'parse_chunk memoryview size=1': 'raises StreamError: Error in path (parsing) -> preamble -> '
                                  'record_sequence_number | stream read less than specified '
                                  'amount, expected 4, found 0 (cause: None, context: None)',
 'parse_chunk memoryview size=32': "list list[dict{str:'preamble': "
                                   "dict{str:'record_sequence_number': int:1, "
                                   "str:'first_record_subtype': int:0, str:'record_type': int:10, "
                                   "str:'second_record_subtype': int:0, "
                                   "str:'third_record_subtype': int:0, str:'record_length': "
                                   "int:16}, str:'a': int:2, str:'b': int:3, str:'c': int:31}]",
 'parse_chunk memoryview size=34': 'raises ValueError: sizes mismatch: chunksize is 0 but got 32 '
                                   'bytes (cause: None, context: None)',
 'parse_chunk memoryview size=51': 'raises ValueError: sizes mismatch: chunksize is 0 but got 32 '
                                   'bytes (cause: None, context: None)',
 'parse_chunk memoryview size=5': 'raises ValueError: sizes mismatch: chunksize is 30 but got 32 '
                                  'bytes (cause: None, context: None)',
 'parse_chunk memoryview size=7': 'raises ValueError: sizes mismatch: chunksize is 28 but got 32 '
                                  'bytes (cause: None, context: None)',
 'parse_chunk memoryview size=100': 'raises ValueError: sizes mismatch: chunksize is 0 but got 32 '
                                    'bytes (cause: None, context: None)',
 'parse_chunk memoryview size=0': 'raises ZeroDivisionError: integer division or modulo by zero '
                                  '(cause: None, context: None)',
 'parse_chunk memoryview size=-16': 'raises RangeError: Error in path (parsing) | invalid count -2 '
                                    '(cause: None, context: None)',
 'parse_chunk memoryview size=-1': 'raises RangeError: Error in path (parsing) | invalid count -32 '
                                   '(cause: None, context: None)',
 'parse_chunk memoryview size=16.0': 'raises ConstructError: subcon[N] syntax expects integer or '
                                     'context lambda (cause: None, context: None)',
 'parse_chunk memoryview size=8.5': 'raises ValueError: sizes mismatch: chunksize is 25.5 but got '
                                    '32 bytes (cause: None, context: None)',
 'parse_chunk memoryview size=0.0': 'raises ZeroDivisionError: float floor division by zero '
                                    '(cause: None, context: None)',
 'parse_chunk memoryview size=True': 'raises StreamError: Error in path (parsing) -> preamble -> '
                                     'record_sequence_number | stream read less than specified '
                                     'amount, expected 4, found 0 (cause: None, context: None)',
 'parse_chunk memoryview size=None': "raises TypeError: unsupported operand type(s) for //: 'int' "
                                     "and 'NoneType' (cause: None, context: None)",
 "parse_chunk memoryview size='16'": "raises TypeError: unsupported operand type(s) for //: 'int' "
                                     "and 'str' (cause: None, context: None)",
 'parse_chunk bytes subclass size=16': "list list[dict{str:'preamble': "
                                       "dict{str:'record_sequence_number': int:1, "
                                       "str:'first_record_subtype': int:0, str:'record_type': "
                                       "int:10, str:'second_record_subtype': int:0, "
                                       "str:'third_record_subtype': int:0, str:'record_length': "
                                       "int:16}, str:'a': int:2, str:'b': int:3, str:'c': int:31}, "
                                       "dict{str:'preamble': dict{str:'record_sequence_number': "
                                       "int:2, str:'first_record_subtype': int:0, "
                                       "str:'record_type': int:10, str:'second_record_subtype': "
                                       "int:0, str:'third_record_subtype': int:0, "
                                       "str:'record_length': int:16}, str:'a': int:3, str:'b': "
                                       "int:4, str:'c': int:32}]",
 'parse_chunk bytes subclass size=17': 'raises ValueError: sizes mismatch: chunksize is 17 but got '
                                       '32 bytes (cause: None, context: None)',
 'parse_chunk bytes subclass size=2': 'raises StreamError: Error in path (parsing) -> preamble -> '
                                      'record_sequence_number | stream read less than specified '
                                      'amount, expected 4, found 0 (cause: None, context: None)',
 'parse_chunk bytes subclass size=1': 'raises StreamError: Error in path (parsing) -> preamble -> '
                                      'record_sequence_number | stream read less than specified '
                                      'amount, expected 4, found 0 (cause: None, context: None)',
 'parse_chunk bytes subclass size=32': "list list[dict{str:'preamble': "
                                       "dict{str:'record_sequence_number': int:1, "
                                       "str:'first_record_subtype': int:0, str:'record_type': "
                                       "int:10, str:'second_record_subtype': int:0, "
                                       "str:'third_record_subtype': int:0, str:'record_length': "
                                       "int:16}, str:'a': int:2, str:'b': int:3, str:'c': int:31}]",
 'parse_chunk bytes subclass size=34': 'raises ValueError: sizes mismatch: chunksize is 0 but got '
                                       '32 bytes (cause: None, context: None)',
 'parse_chunk bytes subclass size=51': 'raises ValueError: sizes mismatch: chunksize is 0 but got '
                                       '32 bytes (cause: None, context: None)',
 'parse_chunk bytes subclass size=5': 'raises ValueError: sizes mismatch: chunksize is 30 but got '
                                      '32 bytes (cause: None, context: None)',
 'parse_chunk bytes subclass size=7': 'raises ValueError: sizes mismatch: chunksize is 28 but got '
                                      '32 bytes (cause: None, context: None)',
 'parse_chunk bytes subclass size=100': 'raises ValueError: sizes mismatch: chunksize is 0 but got '
                                        '32 bytes (cause: None, context: None)',
 'parse_chunk bytes subclass size=0': 'raises ZeroDivisionError: integer division or modulo by '
                                      'zero (cause: None, context: None)',
 'parse_chunk bytes subclass size=-16': 'raises RangeError: Error in path (parsing) | invalid '
                                        'count -2 (cause: None, context: None)',
 'parse_chunk bytes subclass size=-1': 'raises RangeError: Error in path (parsing) | invalid count '
                                       '-32 (cause: None, context: None)',
 'parse_chunk bytes subclass size=16.0': 'raises ConstructError: subcon[N] syntax expects integer '
                                         'or context lambda (cause: None, context: None)',
 'parse_chunk bytes subclass size=8.5': 'raises ValueError: sizes mismatch: chunksize is 25.5 but '
                                        'got 32 bytes (cause: None, context: None)',
 'parse_chunk bytes subclass size=0.0': 'raises ZeroDivisionError: float floor division by zero '
                                        '(cause: None, context: None)',
 'parse_chunk bytes subclass size=True': 'raises StreamError: Error in path (parsing) -> preamble '
                                         '-> record_sequence_number | stream read less than '
                                         'specified amount, expected 4, found 0 (cause: None, '
                                         'context: None)',
 'parse_chunk bytes subclass size=None': 'raises TypeError: unsupported operand type(s) for //: '
                                         "'int' and 'NoneType' (cause: None, context: None)",
 "parse_chunk bytes subclass size='16'": 'raises TypeError: unsupported operand type(s) for //: '
                                         "'int' and 'str' (cause: None, context: None)",
 'parse_chunk type without parser size=16': 'raises ValueError: sizes mismatch: chunksize is 16 '
                                            'but got 17 bytes (cause: None, context: None)',
 'parse_chunk type without parser size=17': 'raises ValueError: unknown record type code: 12 '
                                            '(cause: None, context: None)',
 'parse_chunk type without parser size=2': 'raises ValueError: sizes mismatch: chunksize is 16 but '
                                           'got 17 bytes (cause: None, context: None)',
 'parse_chunk type without parser size=1': 'raises ValueError: unknown record type code: 12 '
                                           '(cause: None, context: None)',
 'parse_chunk type without parser size=32': 'raises ValueError: sizes mismatch: chunksize is 0 but '
                                            'got 17 bytes (cause: None, context: None)',
 'parse_chunk type without parser size=34': 'raises ValueError: sizes mismatch: chunksize is 0 but '
                                            'got 17 bytes (cause: None, context: None)',
 'parse_chunk type without parser size=51': 'raises ValueError: sizes mismatch: chunksize is 0 but '
                                            'got 17 bytes (cause: None, context: None)',
 'parse_chunk type without parser size=5': 'raises ValueError: sizes mismatch: chunksize is 15 but '
                                           'got 17 bytes (cause: None, context: None)',
 'parse_chunk type without parser size=7': 'raises ValueError: sizes mismatch: chunksize is 14 but '
                                           'got 17 bytes (cause: None, context: None)',
 'parse_chunk type without parser size=100': 'raises ValueError: sizes mismatch: chunksize is 0 '
                                             'but got 17 bytes (cause: None, context: None)',
 'parse_chunk type without parser size=0': 'raises ZeroDivisionError: integer division or modulo '
                                           'by zero (cause: None, context: None)',
 'parse_chunk type without parser size=-16': 'raises ValueError: sizes mismatch: chunksize is 32 '
                                             'but got 17 bytes (cause: None, context: None)',
 'parse_chunk type without parser size=-1': 'raises ValueError: unknown record type code: 12 '
                                            '(cause: None, context: None)',
 'parse_chunk type without parser size=16.0': 'raises ValueError: sizes mismatch: chunksize is '
                                              '16.0 but got 17 bytes (cause: None, context: None)',
 'parse_chunk type without parser size=8.5': 'raises ValueError: unknown record type code: 12 '
                                             '(cause: None, context: None)',
 'parse_chunk type without parser size=0.0': 'raises ZeroDivisionError: float floor division by '
                                             'zero (cause: None, context: None)',
 'parse_chunk type without parser size=True': 'raises ValueError: unknown record type code: 12 '
                                              '(cause: None, context: None)',
 'parse_chunk type without parser size=None': 'raises TypeError: unsupported operand type(s) for '
                                              "//: 'int' and 'NoneType' (cause: None, context: "
                                              'None)',
 "parse_chunk type without parser size='16'": 'raises TypeError: unsupported operand type(s) for '
                                              "//: 'int' and 'str' (cause: None, context: None)",
 'parse_chunk second record has another type size=16': 'raises ValueError: sizes mismatch: '
                                                       'chunksize is 32 but got 34 bytes (cause: '
                                                       'None, context: None)',
 'parse_chunk second record has another type size=17': "list list[dict{str:'preamble': "
                                                       "dict{str:'record_sequence_number': int:1, "
                                                       "str:'first_record_subtype': int:0, "
                                                       "str:'record_type': int:11, "
                                                       "str:'second_record_subtype': int:0, "
                                                       "str:'third_record_subtype': int:0, "
                                                       "str:'record_length': int:17}, "
                                                       "str:'record_start': int:12, str:'a': "
                                                       "int:3, str:'data': dict{str:'start': "
                                                       "int:13, str:'stop': int:17}}, "
                                                       "dict{str:'preamble': "
                                                       "dict{str:'record_sequence_number': int:2, "
                                                       "str:'first_record_subtype': int:0, "
                                                       "str:'record_type': int:10, "
                                                       "str:'second_record_subtype': int:0, "
                                                       "str:'third_record_subtype': int:0, "
                                                       "str:'record_length': int:17}, "
                                                       "str:'record_start': int:29, str:'a': "
                                                       "int:4, str:'data': dict{str:'start': "
                                                       "int:30, str:'stop': int:34}}]",
 'parse_chunk second record has another type size=2': 'raises StreamError: Error in path (parsing) '
                                                      '-> preamble -> record_sequence_number | '
                                                      'stream read less than specified amount, '
                                                      'expected 4, found 0 (cause: None, context: '
                                                      'None)',
 'parse_chunk second record has another type size=1': 'raises StreamError: Error in path (parsing) '
                                                      '-> preamble -> record_sequence_number | '
                                                      'stream read less than specified amount, '
                                                      'expected 4, found 0 (cause: None, context: '
                                                      'None)',
 'parse_chunk second record has another type size=32': 'raises ValueError: sizes mismatch: '
                                                       'chunksize is 32 but got 34 bytes (cause: '
                                                       'None, context: None)',
 'parse_chunk second record has another type size=34': "list list[dict{str:'preamble': "
                                                       "dict{str:'record_sequence_number': int:1, "
                                                       "str:'first_record_subtype': int:0, "
                                                       "str:'record_type': int:11, "
                                                       "str:'second_record_subtype': int:0, "
                                                       "str:'third_record_subtype': int:0, "
                                                       "str:'record_length': int:17}, "
                                                       "str:'record_start': int:12, str:'a': "
                                                       "int:3, str:'data': dict{str:'start': "
                                                       "int:13, str:'stop': int:17}}]",
 'parse_chunk second record has another type size=51': 'raises ValueError: sizes mismatch: '
                                                       'chunksize is 0 but got 34 bytes (cause: '
                                                       'None, context: None)',
 'parse_chunk second record has another type size=5': 'raises ValueError: sizes mismatch: '
                                                      'chunksize is 30 but got 34 bytes (cause: '
                                                      'None, context: None)',
 'parse_chunk second record has another type size=7': 'raises ValueError: sizes mismatch: '
                                                      'chunksize is 28 but got 34 bytes (cause: '
                                                      'None, context: None)',
 'parse_chunk second record has another type size=100': 'raises ValueError: sizes mismatch: '
                                                        'chunksize is 0 but got 34 bytes (cause: '
                                                        'None, context: None)',
 'parse_chunk second record has another type size=0': 'raises ZeroDivisionError: integer division '
                                                      'or modulo by zero (cause: None, context: '
                                                      'None)',
 'parse_chunk second record has another type size=-16': 'raises ValueError: sizes mismatch: '
                                                        'chunksize is 48 but got 34 bytes (cause: '
                                                        'None, context: None)',
 'parse_chunk second record has another type size=-1': 'raises RangeError: Error in path (parsing) '
                                                       '| invalid count -34 (cause: None, context: '
                                                       'None)',
 'parse_chunk second record has another type size=16.0': 'raises ValueError: sizes mismatch: '
                                                         'chunksize is 32.0 but got 34 bytes '
                                                         '(cause: None, context: None)',
 'parse_chunk second record has another type size=8.5': 'raises ConstructError: subcon[N] syntax '
                                                        'expects integer or context lambda (cause: '
                                                        'None, context: None)',
 'parse_chunk second record has another type size=0.0': 'raises ZeroDivisionError: float floor '
                                                        'division by zero (cause: None, context: '
                                                        'None)',
 'parse_chunk second record has another type size=True': 'raises StreamError: Error in path '
                                                         '(parsing) -> preamble -> '
                                                         'record_sequence_number | stream read '
                                                         'less than specified amount, expected 4, '
                                                         'found 0 (cause: None, context: None)',
 'parse_chunk second record has another type size=None': 'raises TypeError: unsupported operand '
                                                         "type(s) for //: 'int' and 'NoneType' "
                                                         '(cause: None, context: None)',
 "parse_chunk second record has another type size='16'": 'raises TypeError: unsupported operand '
                                                         "type(s) for //: 'int' and 'str' (cause: "
                                                         'None, context: None)',
 'parse_chunk not bytes size=16': 'raises ValueError: sizes mismatch: chunksize is 0 but got 4 '
                                  'bytes (cause: None, context: None)',
 'parse_chunk not bytes size=17': 'raises ValueError: sizes mismatch: chunksize is 0 but got 4 '
                                  'bytes (cause: None, context: None)',
 'parse_chunk not bytes size=2': "raises TypeError: a bytes-like object is required, not 'list' "
                                 '(cause: None, context: None)',
 'parse_chunk not bytes size=1': "raises TypeError: a bytes-like object is required, not 'list' "
                                 '(cause: None, context: None)',
 'parse_chunk not bytes size=32': 'raises ValueError: sizes mismatch: chunksize is 0 but got 4 '
                                  'bytes (cause: None, context: None)',
 'parse_chunk not bytes size=34': 'raises ValueError: sizes mismatch: chunksize is 0 but got 4 '
                                  'bytes (cause: None, context: None)',
 'parse_chunk not bytes size=51': 'raises ValueError: sizes mismatch: chunksize is 0 but got 4 '
                                  'bytes (cause: None, context: None)',
 'parse_chunk not bytes size=5': 'raises ValueError: sizes mismatch: chunksize is 0 but got 4 '
                                 'bytes (cause: None, context: None)',
 'parse_chunk not bytes size=7': 'raises ValueError: sizes mismatch: chunksize is 0 but got 4 '
                                 'bytes (cause: None, context: None)',
 'parse_chunk not bytes size=100': 'raises ValueError: sizes mismatch: chunksize is 0 but got 4 '
                                   'bytes (cause: None, context: None)',
 'parse_chunk not bytes size=0': 'raises ZeroDivisionError: integer division or modulo by zero '
                                 '(cause: None, context: None)',
 'parse_chunk not bytes size=-16': 'raises ValueError: sizes mismatch: chunksize is 16 but got 4 '
                                   'bytes (cause: None, context: None)',
 'parse_chunk not bytes size=-1': "raises TypeError: a bytes-like object is required, not 'list' "
                                  '(cause: None, context: None)',
 'parse_chunk not bytes size=16.0': 'raises ValueError: sizes mismatch: chunksize is 0.0 but got 4 '
                                    'bytes (cause: None, context: None)',
 'parse_chunk not bytes size=8.5': 'raises ValueError: sizes mismatch: chunksize is 0.0 but got 4 '
                                   'bytes (cause: None, context: None)',
 'parse_chunk not bytes size=0.0': 'raises ZeroDivisionError: float floor division by zero (cause: '
                                   'None, context: None)',
 'parse_chunk not bytes size=True': "raises TypeError: a bytes-like object is required, not 'list' "
                                    '(cause: None, context: None)',
 'parse_chunk not bytes size=None': "raises TypeError: unsupported operand type(s) for //: 'int' "
                                    "and 'NoneType' (cause: None, context: None)",
 "parse_chunk not bytes size='16'": "raises TypeError: unsupported operand type(s) for //: 'int' "
                                    "and 'str' (cause: None, context: None)",
 'parse_chunk string size=16': "raises TypeError: a bytes-like object is required, not 'str' "
                               '(cause: None, context: None)',
 'parse_chunk string size=17': 'raises ValueError: sizes mismatch: chunksize is 0 but got 16 bytes '
                               '(cause: None, context: None)',
 'parse_chunk string size=2': "raises TypeError: a bytes-like object is required, not 'str' "
                              '(cause: None, context: None)',
 'parse_chunk string size=1': "raises TypeError: a bytes-like object is required, not 'str' "
                              '(cause: None, context: None)',
 'parse_chunk string size=32': 'raises ValueError: sizes mismatch: chunksize is 0 but got 16 bytes '
                               '(cause: None, context: None)',
 'parse_chunk string size=34': 'raises ValueError: sizes mismatch: chunksize is 0 but got 16 bytes '
                               '(cause: None, context: None)',
 'parse_chunk string size=51': 'raises ValueError: sizes mismatch: chunksize is 0 but got 16 bytes '
                               '(cause: None, context: None)',
 'parse_chunk string size=5': 'raises ValueError: sizes mismatch: chunksize is 15 but got 16 bytes '
                              '(cause: None, context: None)',
 'parse_chunk string size=7': 'raises ValueError: sizes mismatch: chunksize is 14 but got 16 bytes '
                              '(cause: None, context: None)',
 'parse_chunk string size=100': 'raises ValueError: sizes mismatch: chunksize is 0 but got 16 '
                                'bytes (cause: None, context: None)',
 'parse_chunk string size=0': 'raises ZeroDivisionError: integer division or modulo by zero '
                              '(cause: None, context: None)',
 'parse_chunk string size=-16': "raises TypeError: a bytes-like object is required, not 'str' "
                                '(cause: None, context: None)',
 'parse_chunk string size=-1': "raises TypeError: a bytes-like object is required, not 'str' "
                               '(cause: None, context: None)',
 'parse_chunk string size=16.0': "raises TypeError: a bytes-like object is required, not 'str' "
                                 '(cause: None, context: None)',
 'parse_chunk string size=8.5': 'raises ValueError: sizes mismatch: chunksize is 8.5 but got 16 '
                                'bytes (cause: None, context: None)',
 'parse_chunk string size=0.0': 'raises ZeroDivisionError: float floor division by zero (cause: '
                                'None, context: None)',
 'parse_chunk string size=True': "raises TypeError: a bytes-like object is required, not 'str' "
                                 '(cause: None, context: None)',
 'parse_chunk string size=None': "raises TypeError: unsupported operand type(s) for //: 'int' and "
                                 "'NoneType' (cause: None, context: None)",
 "parse_chunk string size='16'": "raises TypeError: unsupported operand type(s) for //: 'int' and "
                                 "'str' (cause: None, context: None)",
 'parse_chunk none size=16': "raises TypeError: object of type 'NoneType' has no len() (cause: "
                             'None, context: None)',
 'parse_chunk none size=17': "raises TypeError: object of type 'NoneType' has no len() (cause: "
                             'None, context: None)',
 'parse_chunk none size=2': "raises TypeError: object of type 'NoneType' has no len() (cause: "
                            'None, context: None)',
 'parse_chunk none size=1': "raises TypeError: object of type 'NoneType' has no len() (cause: "
                            'None, context: None)',
 'parse_chunk none size=32': "raises TypeError: object of type 'NoneType' has no len() (cause: "
                             'None, context: None)',
 'parse_chunk none size=34': "raises TypeError: object of type 'NoneType' has no len() (cause: "
                             'None, context: None)',
 'parse_chunk none size=51': "raises TypeError: object of type 'NoneType' has no len() (cause: "
                             'None, context: None)',
 'parse_chunk none size=5': "raises TypeError: object of type 'NoneType' has no len() (cause: "
                            'None, context: None)',
 'parse_chunk none size=7': "raises TypeError: object of type 'NoneType' has no len() (cause: "
                            'None, context: None)',
 'parse_chunk none size=100': "raises TypeError: object of type 'NoneType' has no len() (cause: "
                              'None, context: None)',
 'parse_chunk none size=0': "raises TypeError: object of type 'NoneType' has no len() (cause: "
                            'None, context: None)',
 'parse_chunk none size=-16': "raises TypeError: object of type 'NoneType' has no len() (cause: "
                              'None, context: None)',
 'parse_chunk none size=-1': "raises TypeError: object of type 'NoneType' has no len() (cause: "
                             'None, context: None)',
 'parse_chunk none size=16.0': "raises TypeError: object of type 'NoneType' has no len() (cause: "
                               'None, context: None)',
 'parse_chunk none size=8.5': "raises TypeError: object of type 'NoneType' has no len() (cause: "
                              'None, context: None)',
 'parse_chunk none size=0.0': "raises TypeError: object of type 'NoneType' has no len() (cause: "
                              'None, context: None)',
 'parse_chunk none size=True': "raises TypeError: object of type 'NoneType' has no len() (cause: "
                               'None, context: None)',
 'parse_chunk none size=None': "raises TypeError: object of type 'NoneType' has no len() (cause: "
                               'None, context: None)',
 "parse_chunk none size='16'": "raises TypeError: object of type 'NoneType' has no len() (cause: "
                               'None, context: None)',
 'dummy read_metadata n=3 size=17 rpc=1': "tuple[dict{str:'number_of_sar_data_records': int:3, "
                                          "str:'sar_data_record_length': int:17}, "
                                          "list[dict{str:'preamble': "
                                          "dict{str:'record_sequence_number': int:1, "
                                          "str:'first_record_subtype': int:0, str:'record_type': "
                                          "int:11, str:'second_record_subtype': int:0, "
                                          "str:'third_record_subtype': int:0, str:'record_length': "
                                          "int:17}, str:'record_start': int:732, str:'a': int:3, "
                                          "str:'data': dict{str:'start': int:733, str:'stop': "
                                          "int:737}}, dict{str:'preamble': "
                                          "dict{str:'record_sequence_number': int:2, "
                                          "str:'first_record_subtype': int:0, str:'record_type': "
                                          "int:11, str:'second_record_subtype': int:0, "
                                          "str:'third_record_subtype': int:0, str:'record_length': "
                                          "int:17}, str:'record_start': int:749, str:'a': int:4, "
                                          "str:'data': dict{str:'start': int:750, str:'stop': "
                                          "int:754}}, dict{str:'preamble': "
                                          "dict{str:'record_sequence_number': int:3, "
                                          "str:'first_record_subtype': int:0, str:'record_type': "
                                          "int:11, str:'second_record_subtype': int:0, "
                                          "str:'third_record_subtype': int:0, str:'record_length': "
                                          "int:17}, str:'record_start': int:766, str:'a': int:5, "
                                          "str:'data': dict{str:'start': int:767, str:'stop': "
                                          'int:771}}]] ;; read(2)@0->2 read(17)@2->17 '
                                          'read(17)@19->17 read(17)@36->17',
 'dummy read_metadata n=3 size=17 rpc=2': "tuple[dict{str:'number_of_sar_data_records': int:3, "
                                          "str:'sar_data_record_length': int:17}, "
                                          "list[dict{str:'preamble': "
                                          "dict{str:'record_sequence_number': int:1, "
                                          "str:'first_record_subtype': int:0, str:'record_type': "
                                          "int:11, str:'second_record_subtype': int:0, "
                                          "str:'third_record_subtype': int:0, str:'record_length': "
                                          "int:17}, str:'record_start': int:732, str:'a': int:3, "
                                          "str:'data': dict{str:'start': int:733, str:'stop': "
                                          "int:737}}, dict{str:'preamble': "
                                          "dict{str:'record_sequence_number': int:2, "
                                          "str:'first_record_subtype': int:0, str:'record_type': "
                                          "int:11, str:'second_record_subtype': int:0, "
                                          "str:'third_record_subtype': int:0, str:'record_length': "
                                          "int:17}, str:'record_start': int:749, str:'a': int:4, "
                                          "str:'data': dict{str:'start': int:750, str:'stop': "
                                          "int:754}}, dict{str:'preamble': "
                                          "dict{str:'record_sequence_number': int:3, "
                                          "str:'first_record_subtype': int:0, str:'record_type': "
                                          "int:11, str:'second_record_subtype': int:0, "
                                          "str:'third_record_subtype': int:0, str:'record_length': "
                                          "int:17}, str:'record_start': int:766, str:'a': int:5, "
                                          "str:'data': dict{str:'start': int:767, str:'stop': "
                                          'int:771}}]] ;; read(2)@0->2 read(34)@2->34 '
                                          'read(17)@36->17',
 'dummy read_metadata n=3 size=17 rpc=3': "tuple[dict{str:'number_of_sar_data_records': int:3, "
                                          "str:'sar_data_record_length': int:17}, "
                                          "list[dict{str:'preamble': "
                                          "dict{str:'record_sequence_number': int:1, "
                                          "str:'first_record_subtype': int:0, str:'record_type': "
                                          "int:11, str:'second_record_subtype': int:0, "
                                          "str:'third_record_subtype': int:0, str:'record_length': "
                                          "int:17}, str:'record_start': int:732, str:'a': int:3, "
                                          "str:'data': dict{str:'start': int:733, str:'stop': "
                                          "int:737}}, dict{str:'preamble': "
                                          "dict{str:'record_sequence_number': int:2, "
                                          "str:'first_record_subtype': int:0, str:'record_type': "
                                          "int:11, str:'second_record_subtype': int:0, "
                                          "str:'third_record_subtype': int:0, str:'record_length': "
                                          "int:17}, str:'record_start': int:749, str:'a': int:4, "
                                          "str:'data': dict{str:'start': int:750, str:'stop': "
                                          "int:754}}, dict{str:'preamble': "
                                          "dict{str:'record_sequence_number': int:3, "
                                          "str:'first_record_subtype': int:0, str:'record_type': "
                                          "int:11, str:'second_record_subtype': int:0, "
                                          "str:'third_record_subtype': int:0, str:'record_length': "
                                          "int:17}, str:'record_start': int:766, str:'a': int:5, "
                                          "str:'data': dict{str:'start': int:767, str:'stop': "
                                          'int:771}}]] ;; read(2)@0->2 read(51)@2->51',
 'dummy read_metadata n=3 size=17 rpc=4': "tuple[dict{str:'number_of_sar_data_records': int:3, "
                                          "str:'sar_data_record_length': int:17}, "
                                          "list[dict{str:'preamble': "
                                          "dict{str:'record_sequence_number': int:1, "
                                          "str:'first_record_subtype': int:0, str:'record_type': "
                                          "int:11, str:'second_record_subtype': int:0, "
                                          "str:'third_record_subtype': int:0, str:'record_length': "
                                          "int:17}, str:'record_start': int:732, str:'a': int:3, "
                                          "str:'data': dict{str:'start': int:733, str:'stop': "
                                          "int:737}}, dict{str:'preamble': "
                                          "dict{str:'record_sequence_number': int:2, "
                                          "str:'first_record_subtype': int:0, str:'record_type': "
                                          "int:11, str:'second_record_subtype': int:0, "
                                          "str:'third_record_subtype': int:0, str:'record_length': "
                                          "int:17}, str:'record_start': int:749, str:'a': int:4, "
                                          "str:'data': dict{str:'start': int:750, str:'stop': "
                                          "int:754}}, dict{str:'preamble': "
                                          "dict{str:'record_sequence_number': int:3, "
                                          "str:'first_record_subtype': int:0, str:'record_type': "
                                          "int:11, str:'second_record_subtype': int:0, "
                                          "str:'third_record_subtype': int:0, str:'record_length': "
                                          "int:17}, str:'record_start': int:766, str:'a': int:5, "
                                          "str:'data': dict{str:'start': int:767, str:'stop': "
                                          'int:771}}]] ;; read(2)@0->2 read(51)@2->51',
 'dummy read_metadata n=2 size=17 rpc=1': "tuple[dict{str:'number_of_sar_data_records': int:2, "
                                          "str:'sar_data_record_length': int:17}, "
                                          "list[dict{str:'preamble': "
                                          "dict{str:'record_sequence_number': int:1, "
                                          "str:'first_record_subtype': int:0, str:'record_type': "
                                          "int:11, str:'second_record_subtype': int:0, "
                                          "str:'third_record_subtype': int:0, str:'record_length': "
                                          "int:17}, str:'record_start': int:732, str:'a': int:3, "
                                          "str:'data': dict{str:'start': int:733, str:'stop': "
                                          "int:737}}, dict{str:'preamble': "
                                          "dict{str:'record_sequence_number': int:2, "
                                          "str:'first_record_subtype': int:0, str:'record_type': "
                                          "int:11, str:'second_record_subtype': int:0, "
                                          "str:'third_record_subtype': int:0, str:'record_length': "
                                          "int:17}, str:'record_start': int:749, str:'a': int:4, "
                                          "str:'data': dict{str:'start': int:750, str:'stop': "
                                          'int:754}}]] ;; read(2)@0->2 read(17)@2->17 '
                                          'read(17)@19->17',
 'dummy read_metadata n=2 size=17 rpc=2': "tuple[dict{str:'number_of_sar_data_records': int:2, "
                                          "str:'sar_data_record_length': int:17}, "
                                          "list[dict{str:'preamble': "
                                          "dict{str:'record_sequence_number': int:1, "
                                          "str:'first_record_subtype': int:0, str:'record_type': "
                                          "int:11, str:'second_record_subtype': int:0, "
                                          "str:'third_record_subtype': int:0, str:'record_length': "
                                          "int:17}, str:'record_start': int:732, str:'a': int:3, "
                                          "str:'data': dict{str:'start': int:733, str:'stop': "
                                          "int:737}}, dict{str:'preamble': "
                                          "dict{str:'record_sequence_number': int:2, "
                                          "str:'first_record_subtype': int:0, str:'record_type': "
                                          "int:11, str:'second_record_subtype': int:0, "
                                          "str:'third_record_subtype': int:0, str:'record_length': "
                                          "int:17}, str:'record_start': int:749, str:'a': int:4, "
                                          "str:'data': dict{str:'start': int:750, str:'stop': "
                                          'int:754}}]] ;; read(2)@0->2 read(34)@2->34',
 'dummy read_metadata n=2 size=17 rpc=3': "tuple[dict{str:'number_of_sar_data_records': int:2, "
                                          "str:'sar_data_record_length': int:17}, "
                                          "list[dict{str:'preamble': "
                                          "dict{str:'record_sequence_number': int:1, "
                                          "str:'first_record_subtype': int:0, str:'record_type': "
                                          "int:11, str:'second_record_subtype': int:0, "
                                          "str:'third_record_subtype': int:0, str:'record_length': "
                                          "int:17}, str:'record_start': int:732, str:'a': int:3, "
                                          "str:'data': dict{str:'start': int:733, str:'stop': "
                                          "int:737}}, dict{str:'preamble': "
                                          "dict{str:'record_sequence_number': int:2, "
                                          "str:'first_record_subtype': int:0, str:'record_type': "
                                          "int:11, str:'second_record_subtype': int:0, "
                                          "str:'third_record_subtype': int:0, str:'record_length': "
                                          "int:17}, str:'record_start': int:749, str:'a': int:4, "
                                          "str:'data': dict{str:'start': int:750, str:'stop': "
                                          'int:754}}]] ;; read(2)@0->2 read(34)@2->34',
 'dummy read_metadata n=2 size=17 rpc=4': "tuple[dict{str:'number_of_sar_data_records': int:2, "
                                          "str:'sar_data_record_length': int:17}, "
                                          "list[dict{str:'preamble': "
                                          "dict{str:'record_sequence_number': int:1, "
                                          "str:'first_record_subtype': int:0, str:'record_type': "
                                          "int:11, str:'second_record_subtype': int:0, "
                                          "str:'third_record_subtype': int:0, str:'record_length': "
                                          "int:17}, str:'record_start': int:732, str:'a': int:3, "
                                          "str:'data': dict{str:'start': int:733, str:'stop': "
                                          "int:737}}, dict{str:'preamble': "
                                          "dict{str:'record_sequence_number': int:2, "
                                          "str:'first_record_subtype': int:0, str:'record_type': "
                                          "int:11, str:'second_record_subtype': int:0, "
                                          "str:'third_record_subtype': int:0, str:'record_length': "
                                          "int:17}, str:'record_start': int:749, str:'a': int:4, "
                                          "str:'data': dict{str:'start': int:750, str:'stop': "
                                          'int:754}}]] ;; read(2)@0->2 read(34)@2->34',
 'dummy read_metadata n=4 size=17 rpc=1': 'raises StreamError: Error in path (parsing) -> '
                                          'record_sequence_number | stream read less than '
                                          'specified amount, expected 4, found 0 (cause: None, '
                                          'context: None) ;; read(2)@0->2 read(17)@2->17 '
                                          'read(17)@19->17 read(17)@36->17 read(17)@53->0',
 'dummy read_metadata n=4 size=17 rpc=2': "tuple[dict{str:'number_of_sar_data_records': int:4, "
                                          "str:'sar_data_record_length': int:17}, "
                                          "list[dict{str:'preamble': "
                                          "dict{str:'record_sequence_number': int:1, "
                                          "str:'first_record_subtype': int:0, str:'record_type': "
                                          "int:11, str:'second_record_subtype': int:0, "
                                          "str:'third_record_subtype': int:0, str:'record_length': "
                                          "int:17}, str:'record_start': int:732, str:'a': int:3, "
                                          "str:'data': dict{str:'start': int:733, str:'stop': "
                                          "int:737}}, dict{str:'preamble': "
                                          "dict{str:'record_sequence_number': int:2, "
                                          "str:'first_record_subtype': int:0, str:'record_type': "
                                          "int:11, str:'second_record_subtype': int:0, "
                                          "str:'third_record_subtype': int:0, str:'record_length': "
                                          "int:17}, str:'record_start': int:749, str:'a': int:4, "
                                          "str:'data': dict{str:'start': int:750, str:'stop': "
                                          "int:754}}, dict{str:'preamble': "
                                          "dict{str:'record_sequence_number': int:3, "
                                          "str:'first_record_subtype': int:0, str:'record_type': "
                                          "int:11, str:'second_record_subtype': int:0, "
                                          "str:'third_record_subtype': int:0, str:'record_length': "
                                          "int:17}, str:'record_start': int:766, str:'a': int:5, "
                                          "str:'data': dict{str:'start': int:767, str:'stop': "
                                          'int:771}}]] ;; read(2)@0->2 read(34)@2->34 '
                                          'read(34)@36->17',
 'dummy read_metadata n=4 size=17 rpc=3': 'raises StreamError: Error in path (parsing) -> '
                                          'record_sequence_number | stream read less than '
                                          'specified amount, expected 4, found 0 (cause: None, '
                                          'context: None) ;; read(2)@0->2 read(51)@2->51 '
                                          'read(17)@53->0',
 'dummy read_metadata n=4 size=17 rpc=4': "tuple[dict{str:'number_of_sar_data_records': int:4, "
                                          "str:'sar_data_record_length': int:17}, "
                                          "list[dict{str:'preamble': "
                                          "dict{str:'record_sequence_number': int:1, "
                                          "str:'first_record_subtype': int:0, str:'record_type': "
                                          "int:11, str:'second_record_subtype': int:0, "
                                          "str:'third_record_subtype': int:0, str:'record_length': "
                                          "int:17}, str:'record_start': int:732, str:'a': int:3, "
                                          "str:'data': dict{str:'start': int:733, str:'stop': "
                                          "int:737}}, dict{str:'preamble': "
                                          "dict{str:'record_sequence_number': int:2, "
                                          "str:'first_record_subtype': int:0, str:'record_type': "
                                          "int:11, str:'second_record_subtype': int:0, "
                                          "str:'third_record_subtype': int:0, str:'record_length': "
                                          "int:17}, str:'record_start': int:749, str:'a': int:4, "
                                          "str:'data': dict{str:'start': int:750, str:'stop': "
                                          "int:754}}, dict{str:'preamble': "
                                          "dict{str:'record_sequence_number': int:3, "
                                          "str:'first_record_subtype': int:0, str:'record_type': "
                                          "int:11, str:'second_record_subtype': int:0, "
                                          "str:'third_record_subtype': int:0, str:'record_length': "
                                          "int:17}, str:'record_start': int:766, str:'a': int:5, "
                                          "str:'data': dict{str:'start': int:767, str:'stop': "
                                          'int:771}}]] ;; read(2)@0->2 read(68)@2->51',
 'dummy read_metadata n=0 size=17 rpc=1': "tuple[dict{str:'number_of_sar_data_records': int:0, "
                                          "str:'sar_data_record_length': int:17}, list[]] ;; "
                                          'read(2)@0->2',
 'dummy read_metadata n=0 size=17 rpc=2': "tuple[dict{str:'number_of_sar_data_records': int:0, "
                                          "str:'sar_data_record_length': int:17}, list[]] ;; "
                                          'read(2)@0->2',
 'dummy read_metadata n=0 size=17 rpc=3': "tuple[dict{str:'number_of_sar_data_records': int:0, "
                                          "str:'sar_data_record_length': int:17}, list[]] ;; "
                                          'read(2)@0->2',
 'dummy read_metadata n=0 size=17 rpc=4': "tuple[dict{str:'number_of_sar_data_records': int:0, "
                                          "str:'sar_data_record_length': int:17}, list[]] ;; "
                                          'read(2)@0->2',
 'dummy read_metadata n=3 size=16 rpc=1': 'raises ValueError: unknown record type code: 0 (cause: '
                                          'None, context: None) ;; read(2)@0->2 read(16)@2->16 '
                                          'read(16)@18->16',
 'dummy read_metadata n=3 size=16 rpc=2': 'raises ValueError: unknown record type code: 3 (cause: '
                                          'None, context: None) ;; read(2)@0->2 read(32)@2->32 '
                                          'read(16)@34->16',
 'dummy read_metadata n=3 size=16 rpc=3': "tuple[dict{str:'number_of_sar_data_records': int:3, "
                                          "str:'sar_data_record_length': int:16}, "
                                          "list[dict{str:'preamble': "
                                          "dict{str:'record_sequence_number': int:1, "
                                          "str:'first_record_subtype': int:0, str:'record_type': "
                                          "int:11, str:'second_record_subtype': int:0, "
                                          "str:'third_record_subtype': int:0, str:'record_length': "
                                          "int:17}, str:'record_start': int:732, str:'a': int:3, "
                                          "str:'data': dict{str:'start': int:733, str:'stop': "
                                          "int:737}}, dict{str:'preamble': "
                                          "dict{str:'record_sequence_number': int:2, "
                                          "str:'first_record_subtype': int:0, str:'record_type': "
                                          "int:11, str:'second_record_subtype': int:0, "
                                          "str:'third_record_subtype': int:0, str:'record_length': "
                                          "int:17}, str:'record_start': int:749, str:'a': int:4, "
                                          "str:'data': dict{str:'start': int:750, str:'stop': "
                                          "int:754}}, dict{str:'preamble': "
                                          "dict{str:'record_sequence_number': int:3, "
                                          "str:'first_record_subtype': int:0, str:'record_type': "
                                          "int:11, str:'second_record_subtype': int:0, "
                                          "str:'third_record_subtype': int:0, str:'record_length': "
                                          "int:17}, str:'record_start': int:766, str:'a': int:5, "
                                          "str:'data': dict{str:'start': int:767, str:'stop': "
                                          'int:771}}]] ;; read(2)@0->2 read(48)@2->48',
 'dummy read_metadata n=3 size=16 rpc=4': "tuple[dict{str:'number_of_sar_data_records': int:3, "
                                          "str:'sar_data_record_length': int:16}, "
                                          "list[dict{str:'preamble': "
                                          "dict{str:'record_sequence_number': int:1, "
                                          "str:'first_record_subtype': int:0, str:'record_type': "
                                          "int:11, str:'second_record_subtype': int:0, "
                                          "str:'third_record_subtype': int:0, str:'record_length': "
                                          "int:17}, str:'record_start': int:732, str:'a': int:3, "
                                          "str:'data': dict{str:'start': int:733, str:'stop': "
                                          "int:737}}, dict{str:'preamble': "
                                          "dict{str:'record_sequence_number': int:2, "
                                          "str:'first_record_subtype': int:0, str:'record_type': "
                                          "int:11, str:'second_record_subtype': int:0, "
                                          "str:'third_record_subtype': int:0, str:'record_length': "
                                          "int:17}, str:'record_start': int:749, str:'a': int:4, "
                                          "str:'data': dict{str:'start': int:750, str:'stop': "
                                          "int:754}}, dict{str:'preamble': "
                                          "dict{str:'record_sequence_number': int:3, "
                                          "str:'first_record_subtype': int:0, str:'record_type': "
                                          "int:11, str:'second_record_subtype': int:0, "
                                          "str:'third_record_subtype': int:0, str:'record_length': "
                                          "int:17}, str:'record_start': int:766, str:'a': int:5, "
                                          "str:'data': dict{str:'start': int:767, str:'stop': "
                                          'int:771}}]] ;; read(2)@0->2 read(48)@2->48',
 "dummy read_metadata n=3 size='x' rpc=1": 'raises TypeError: can only concatenate str (not "int") '
                                           'to str (cause: None, context: None) ;; read(2)@0->2',
 "dummy read_metadata n=3 size='x' rpc=2": 'raises TypeError: can only concatenate str (not "int") '
                                           'to str (cause: None, context: None) ;; read(2)@0->2',
 "dummy read_metadata n=3 size='x' rpc=3": 'raises TypeError: can only concatenate str (not "int") '
                                           'to str (cause: None, context: None) ;; read(2)@0->2',
 "dummy read_metadata n=3 size='x' rpc=4": 'raises TypeError: can only concatenate str (not "int") '
                                           'to str (cause: None, context: None) ;; read(2)@0->2',
 'dummy read_metadata no chunks, size None': 'raises TypeError: unsupported operand type(s) for *: '
                                             "'int' and 'NoneType' (cause: None, context: None) ;; "
                                             'read(2)@0->2'}
# END EXPECTED


def test_equivalence():
    results = run_cases()
    assert list(results) == list(EXPECTED)
    for name, actual in results.items():
        assert actual == EXPECTED[name], (name, actual, EXPECTED[name])


if __name__ == "__main__":
    if "--record" in sys.argv:
        print(repr(run_cases()))
    else:
        test_equivalence()
        print(f"ok: {len(EXPECTED)} cases")
