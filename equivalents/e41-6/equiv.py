"""Equivalence check for refactoring 6: ``ceos_alos2.sar_image.open_image`` and
``ceos_alos2.sar_image.filename_to_groupname``.

Images are synthesised in fsspec's memory file system; the file system and the files it opens
log every request, the local cache lives in a temporary directory.  Every case records the
result (or the exception), the I/O log and the content of the local cache directory.

Run as a script (``python equiv.py``) or through pytest.  ``python equiv.py --record``
prints the observed results (used once, on the unchanged code, to fill ``EXPECTED``).
"""

import hashlib
import pathlib
import pprint
import struct
import sys
import tempfile

import fsspec
import numpy as np
from fsspec.implementations.memory import MemoryFileSystem

from ceos_alos2 import sar_image
from ceos_alos2.array import Array
from ceos_alos2.hierarchy import Group, Variable
from ceos_alos2.sar_image import caching
from ceos_alos2.sar_image.file_descriptor import file_descriptor_record

HEADER_SIZE = 192
LOG = []


class LoggingFile:
    def __init__(self, f, name):
        self.f = f
        self.name = name

    def __enter__(self):
        LOG.append(("enter", self.name))
        self.f.__enter__()
        return self

    def __exit__(self, *args):
        LOG.append(("exit", self.name, args[0].__name__ if args[0] else None))
        return self.f.__exit__(*args)

    def read(self, *args, **kwargs):
        LOG.append(("read", self.name, args, kwargs, self.f.tell()))
        return self.f.read(*args, **kwargs)

    def seek(self, *args, **kwargs):
        LOG.append(("seek", self.name, args, kwargs))
        return self.f.seek(*args, **kwargs)

    def __getattr__(self, name):
        LOG.append(("file-getattr", name))
        return getattr(self.f, name)


class LoggingMemoryFileSystem(MemoryFileSystem):
    protocol = "logmem"
    cachable = False

    def open(self, path, *args, **kwargs):
        LOG.append(("fs.open", path, args, kwargs))
        return LoggingFile(super().open(path, *args, **kwargs), path)

    def cat(self, path, *args, **kwargs):
        LOG.append(("fs.cat", path, args, kwargs))
        return super().cat(path, *args, **kwargs)

    def isfile(self, path):
        LOG.append(("fs.isfile", path))
        return super().isfile(path)

    def exists(self, path, **kwargs):
        LOG.append(("fs.exists", path))
        return super().exists(path, **kwargs)


def make_descriptor(n_records, record_length, type_code, groups):
    def walk(struct_, out):
        for sc in struct_.subcons:
            inner = sc.subcon if hasattr(sc, "subcon") else sc
            if hasattr(inner, "subcons"):
                sub = []
                walk(inner, sub)
                out.append((sc.name, sub))
            else:
                out.append((sc.name, sc.sizeof()))

    layout = []
    walk(file_descriptor_record, layout)
    values = {
        "number_of_sar_data_records": n_records,
        "sar_data_record_length": record_length,
        "number_of_lines_per_dataset": n_records,
        "number_of_data_groups_per_line": groups,
        "interleaving_id": "BSQ",
        "sar_data_format_type_code": type_code,
        "maximum_data_range_of_pixel": 65535 if type_code == "IU2" else "",
    }

    def emit(layout):
        out = b""
        for name, item in layout:
            if name == "preamble":
                out += struct.pack(">IBBBBI", 1, 50, 192, 18, 18, 720)
            elif isinstance(item, list):
                out += emit(item)
            else:
                out += str(values.get(name, "")).rjust(item).encode("ascii")[:item]
        return out

    raw = emit(layout)
    assert len(raw) == 720, len(raw)
    return raw


def make_record(seq, data):
    header = bytearray(HEADER_SIZE)
    header[0:12] = struct.pack(">IBBBBI", seq, 50, 11, 18, 20, HEADER_SIZE + len(data))
    header[12:16] = struct.pack(">I", seq)
    header[16:20] = struct.pack(">I", seq)
    header[36:48] = struct.pack(">III", 2020, 200, 1000 + seq)
    header[48:50] = struct.pack(">H", 2)
    header[60:64] = struct.pack(">I", 3)
    return bytes(header) + data


def make_image(n_records, type_code="IU2", groups=4):
    if type_code == "IU2":
        lines = [
            np.arange(i * groups, (i + 1) * groups, dtype=">u2").tobytes() for i in range(n_records)
        ]
    else:
        lines = [
            np.arange(2 * i * groups, 2 * (i + 1) * groups, dtype=">f4").tobytes()
            for i in range(n_records)
        ]
    record_length = HEADER_SIZE + len(lines[0]) if lines else HEADER_SIZE
    body = b"".join(make_record(i + 1, line) for i, line in enumerate(lines))
    return make_descriptor(n_records, record_length, type_code, groups) + body


scansar = "IMG-HH-ALOS2225333100-180726-WWDR1.1__D-B3"
stripmap = "IMG-HV-ALOS2290760600-191011-WWDR1.5RUA"
nopol = "IMG-ALOS2290760600-191011-WWDR1.5RUA"
ALIASES = {scansar: "scansar", stripmap: "stripmap", nopol: "nopol"}

FILES = {
    scansar: make_image(5, "C*8", groups=2),
    stripmap: make_image(3, "IU2", groups=4),
    nopol: make_image(1, "IU2", groups=1),
    "IMG-VV-ALOS2290760600-191011-WWDR1.5RUA-F1": make_image(0, "IU2"),
    "not-an-image-name": make_image(2, "IU2"),
    "IMG-VH-ALOS2290760600-191011-WWDR1.5RUA": make_image(2, "IU2")[:-10],
    "IMG-HH-ALOS2290760600-191011-WWDR1.5RUA": make_image(2, "F*4"),
    "sub/" + stripmap: make_image(2, "IU2"),
}


def canon(value):
    if isinstance(value, Group):
        return (
            "Group",
            value.path,
            value.url,
            [(k, canon(v)) for k, v in value.data.items()],
            canon(value.attrs),
        )
    if isinstance(value, Variable):
        return ("Variable", canon(value.dims), canon(value.data), canon(value.attrs))
    if isinstance(value, Array):
        return (
            "Array",
            type(value.fs).__name__,
            value.fs.path,
            type(value.fs.fs).__name__,
            value.url,
            canon(value.byte_ranges),
            canon(value.shape),
            canon(value.dtype),
            value.type_code,
            canon(value.records_per_chunk),
            canon(value.chunk_offsets),
        )
    if isinstance(value, np.ndarray):
        data = value.astype(str).tolist() if value.dtype.kind == "M" else value.tolist()
        return ("ndarray", str(value.dtype), value.shape, repr(data))
    if isinstance(value, dict):
        return (type(value).__name__, [(k, canon(v)) for k, v in value.items()])
    if isinstance(value, (list, tuple)):
        return (type(value).__name__, [canon(v) for v in value])
    return (type(value).__name__, repr(value))


def digest(value):
    return hashlib.sha256(repr(value).encode()).hexdigest()


def summarize(group):
    """the digest covers everything, the rest is there to make a mismatch readable"""
    full = canon(group)
    return (
        digest(full),
        group.path,
        group.url,
        len(group.data),
        repr(group.attrs),
        repr(group.data["data"].dims),
        canon(group.data["data"].data),
    )


def cache_files(cache_dir):
    return sorted(
        (str(p.relative_to(cache_dir)), p.read_text()) for p in cache_dir.rglob("*") if p.is_file()
    )


def cache_listing(cache_dir):
    return [(name, len(content), digest(content)) for name, content in cache_files(cache_dir)]


def fresh_mapper(extra_files=None):
    fs = LoggingMemoryFileSystem()
    fs.store.clear()
    fs.pseudo_dirs[:] = [""]
    mapper = fsspec.FSMap("/equiv6", fs)
    for name, content in {**FILES, **(extra_files or {})}.items():
        fs.pipe_file(f"/equiv6/{name}", content)
    return mapper


def run_open(path, *, remote_cache=None, local_cache=None, read_data=True, **kwargs):
    """one call of `open_image` on a fresh file system and a fresh local cache directory"""
    with tempfile.TemporaryDirectory() as tmp:
        cache_dir = pathlib.Path(tmp)
        original_root = caching.path.cache_root
        caching.path.cache_root = cache_dir
        try:
            extra = {} if remote_cache is None else {f"{path}.index": remote_cache.encode()}
            mapper = fresh_mapper(extra)
            if local_cache is not None:
                local = caching.local_cache_location(mapper.root, path)
                local.parent.mkdir(parents=True)
                local.write_text(local_cache)

            del LOG[:]
            try:
                group = sar_image.open_image(mapper, path, **kwargs)
            except Exception as e:
                return ("raises", type(e).__name__, str(e), list(LOG), cache_listing(cache_dir))

            open_log = list(LOG)
            result = summarize(group)
            pixels = None
            if read_data:
                array = group["data"].data
                pixels = canon(array[(slice(None), slice(None))])
            return ("ok", result, open_log, cache_listing(cache_dir), pixels)
        finally:
            caching.path.cache_root = original_root


def make_cache(path, rpc):
    """a cache index, as written by `open_image(..., create_cache=True)`"""
    with tempfile.TemporaryDirectory() as tmp:
        original_root = caching.path.cache_root
        caching.path.cache_root = pathlib.Path(tmp)
        try:
            sar_image.open_image(
                fresh_mapper(), path, use_cache=False, create_cache=True, records_per_chunk=rpc
            )
            ((_, content),) = cache_files(pathlib.Path(tmp))
        finally:
            caching.path.cache_root = original_root
    return content


def observe():
    results = {}

    names = [
        scansar,
        stripmap,
        nopol,
        "IMG-VV-ALOS2290760600-191011-WWDR1.5RUA-F1",
        "IMG-HH-ALOS2290760600-191011-WWDR1.5RUA-B9",
        "IMG-HH-ALOS2290760600-191011-WWDR1.5RUA-F0",
        "LED-ALOS2290760600-191011-WWDR1.5RUA",
        "VOL-ALOS2290760600-191011-WWDR1.5RUA",
        "IMG-HHH-ALOS2290760600-191011-WWDR1.5RUA",
        "IMG-HH-ALOS2290760600-191011-WWDR1.5RUA-X1",
        "IMG-HH-ALOS2290760600-191011-XXXR1.5RUA",
        "IMG-HH-ALOS2290760600-191311-WWDR1.5RUA",
        "sub/" + stripmap,
        "",
        "not-an-image-name",
        None,
        5,
    ]
    for name in names:
        try:
            value = sar_image.filename_to_groupname(name)
            results[f"groupname/{name!r}"] = ("ok", type(value).__name__, value)
        except Exception as e:
            results[f"groupname/{name!r}"] = ("raises", type(e).__name__, str(e))

    # no cache around
    for path in (scansar, stripmap, nopol):
        for rpc in (1, 2, 1024):
            for use_cache in (False, True):
                results[f"open/{ALIASES[path]}/rpc{rpc}/use_cache={use_cache}"] = run_open(
                    path, use_cache=use_cache, records_per_chunk=rpc
                )
    results["open/defaults"] = run_open(stripmap)
    results["open/defaults-no-cache"] = run_open(stripmap, use_cache=False)
    results["open/rpc-none-create"] = run_open(stripmap, use_cache=False, create_cache=True)
    results["open/rpc-zero"] = run_open(stripmap, use_cache=False, records_per_chunk=0)
    results["open/rpc-str"] = run_open(stripmap, use_cache=False, records_per_chunk="auto")
    results["open/empty-image"] = run_open(
        "IMG-VV-ALOS2290760600-191011-WWDR1.5RUA-F1", use_cache=False, records_per_chunk=2
    )
    results["open/missing-file"] = run_open(
        "IMG-VV-ALOS2290760600-191011-WWDR1.5RUA", records_per_chunk=2, create_cache=True
    )
    results["open/bad-name"] = run_open("not-an-image-name", records_per_chunk=2, create_cache=True)
    results["open/bad-name-no-cache"] = run_open(
        "not-an-image-name", use_cache=False, records_per_chunk=2
    )
    results["open/subdirectory"] = run_open(
        "sub/" + stripmap, records_per_chunk=2, create_cache=True
    )
    results["open/truncated"] = run_open(
        "IMG-VH-ALOS2290760600-191011-WWDR1.5RUA", records_per_chunk=1, create_cache=True
    )
    results["open/unknown-type-code"] = run_open(
        "IMG-HH-ALOS2290760600-191011-WWDR1.5RUA", records_per_chunk=2, create_cache=True
    )

    # creating caches
    for path in (scansar, stripmap):
        for use_cache in (False, True):
            results[f"create/{ALIASES[path]}/use_cache={use_cache}"] = run_open(
                path, use_cache=use_cache, create_cache=True, records_per_chunk=2
            )
    results["create/truthy-flag"] = run_open(
        nopol, use_cache=0, create_cache="yes", records_per_chunk=3
    )
    results["create/falsy-flag"] = run_open(nopol, use_cache="", create_cache=0, records_per_chunk=3)

    # reading caches
    cache = make_cache(stripmap, 2)
    scansar_cache = make_cache(scansar, 2)
    for where in ("local_cache", "remote_cache"):
        for rpc in (1, 2, None):
            results[f"cached/{where}/rpc{rpc}"] = run_open(
                stripmap, records_per_chunk=rpc, read_data=False, **{where: cache}
            )
        results[f"cached/{where}/create_cache"] = run_open(
            stripmap, records_per_chunk=2, create_cache=True, read_data=False, **{where: cache}
        )
        results[f"cached/{where}/ignored"] = run_open(
            stripmap, use_cache=False, records_per_chunk=2, **{where: cache}
        )
        results[f"cached/{where}/ignored-and-recreated"] = run_open(
            stripmap, use_cache=False, create_cache=True, records_per_chunk=1, **{where: cache}
        )
        results[f"cached/{where}/of-another-image"] = run_open(
            stripmap, records_per_chunk=2, read_data=False, **{where: scansar_cache}
        )
        # broken caches: CachingError is swallowed, anything else is not
        results[f"cached/{where}/garbage"] = run_open(
            stripmap, records_per_chunk=2, **{where: "{not json"}
        )
        results[f"cached/{where}/garbage-create"] = run_open(
            stripmap, records_per_chunk=2, create_cache=True, **{where: cache[:100]}
        )
        results[f"cached/{where}/empty"] = run_open(stripmap, records_per_chunk=2, **{where: ""})
        results[f"cached/{where}/valid-json-wrong-content"] = run_open(
            stripmap, records_per_chunk=2, **{where: '{"__type__": "group"}'}
        )
        results[f"cached/{where}/valid-json-scalar"] = run_open(
            stripmap, records_per_chunk=2, read_data=False, **{where: "5"}
        )
    results["cache-file-content"] = (cache, scansar_cache)
    results["cached/both"] = run_open(
        stripmap, records_per_chunk=2, read_data=False, local_cache=cache, remote_cache="{"
    )
    results["cached/local-garbage-remote-fine"] = run_open(
        stripmap, records_per_chunk=2, local_cache="{", remote_cache=cache
    )
    return results


# recorded from the unchanged code (HEAD) with `python equiv.py --record`
EXPECTED = {"groupname/'IMG-HH-ALOS2225333100-180726-WWDR1.1__D-B3'": ('ok', 'str', 'HH_scan3'),
 "groupname/'IMG-HV-ALOS2290760600-191011-WWDR1.5RUA'": ('ok', 'str', 'HV'),
 "groupname/'IMG-ALOS2290760600-191011-WWDR1.5RUA'": ('ok', 'str', ''),
 "groupname/'IMG-VV-ALOS2290760600-191011-WWDR1.5RUA-F1'": ('ok', 'str', 'VV_scan1'),
 "groupname/'IMG-HH-ALOS2290760600-191011-WWDR1.5RUA-B9'": ('ok', 'str', 'HH_scan9'),
 "groupname/'IMG-HH-ALOS2290760600-191011-WWDR1.5RUA-F0'": ('ok', 'str', 'HH_scan0'),
 "groupname/'LED-ALOS2290760600-191011-WWDR1.5RUA'": ('ok', 'str', ''),
 "groupname/'VOL-ALOS2290760600-191011-WWDR1.5RUA'": ('ok', 'str', ''),
 "groupname/'IMG-HHH-ALOS2290760600-191011-WWDR1.5RUA'": ('raises', 'ValueError', 'invalid file name: IMG-HHH-ALOS2290760600-191011-WWDR1.5RUA'),
 "groupname/'IMG-HH-ALOS2290760600-191011-WWDR1.5RUA-X1'": ('raises', 'ValueError', 'invalid file name: IMG-HH-ALOS2290760600-191011-WWDR1.5RUA-X1'),
 "groupname/'IMG-HH-ALOS2290760600-191011-XXXR1.5RUA'": ('raises', 'ValueError', 'invalid product id: XXXR1.5RUA'),
 "groupname/'IMG-HH-ALOS2290760600-191311-WWDR1.5RUA'": ('raises', 'ValueError', 'invalid scene id: ALOS2290760600-191311'),
 "groupname/'sub/IMG-HV-ALOS2290760600-191011-WWDR1.5RUA'": ('raises', 'ValueError',
                                                             'invalid file name: sub/IMG-HV-ALOS2290760600-191011-WWDR1.5RUA'),
 "groupname/''": ('raises', 'ValueError', 'invalid file name: '),
 "groupname/'not-an-image-name'": ('raises', 'ValueError', 'invalid file name: not-an-image-name'),
 'groupname/None': ('raises', 'TypeError', "expected string or bytes-like object, got 'NoneType'"),
 'groupname/5': ('raises', 'TypeError', "expected string or bytes-like object, got 'int'"),
 'open/scansar/rpc1/use_cache=False': ('ok',
                                       ('fb2151ab0fc9bff52a3fb31009f520568be8aa66439a783ae70d637678b06412', 'HH_scan3', None, 26,
                                        "{'sar_image_data_record_index': 1, 'sensor_parameters_update_flag': 0, 'sar_channel_id': "
                                        "'dual_polarization', 'sar_channel_code': 'L', 'transmitted_pulse_polarization': 'horizontal', "
                                        "'received_pulse_polarization': 'horizontal', 'scan_id': 3, 'geographic_reference_parameter_update_flag': 0, "
                                        "'interleaving_id': 'BSQ', 'coordinates': ['rows', 'sensor_acquisition_date', 'prf', "
                                        "'slant_range_to_first_pixel', 'slant_range_to_mid_pixel', 'slant_range_to_last_pixel', "
                                        "'doppler_centroid_value_at_first_pixel', 'doppler_centroid_value_at_mid_pixel', "
                                        "'doppler_centroid_value_at_last_pixel', 'azimuth_fm_rate_of_first_pixel', 'azimuth_fm_rate_of_mid_pixel', "
                                        "'azimuth_fm_rate_of_last_pixel', 'look_angle_of_nadir', 'azimuth_squint_angle', 'latitude_of_first_pixel', "
                                        "'latitude_of_center_pixel', 'latitude_of_last_pixel', 'longitude_of_first_pixel', "
                                        "'longitude_of_center_pixel', 'longitude_of_last_pixel', 'northing_of_first_pixel', "
                                        "'northing_of_last_pixel', 'easting_of_first_pixel', 'easting_of_last_pixel', 'line_heading']}",
                                        "['rows', 'columns']",
                                        ('Array', 'DirFileSystem', '/equiv6', 'LoggingMemoryFileSystem', 'IMG-HH-ALOS2225333100-180726-WWDR1.1__D-B3',
                                         ('list',
                                          [('tuple', [('int', '912'), ('int', '928')]), ('tuple', [('int', '1120'), ('int', '1136')]),
                                           ('tuple', [('int', '1328'), ('int', '1344')]), ('tuple', [('int', '1536'), ('int', '1552')]),
                                           ('tuple', [('int', '1744'), ('int', '1760')])]),
                                         ('tuple', [('int', '5'), ('int', '2')]), ('str', "'complex64'"), 'C*8', ('int', '1'),
                                         ('dict',
                                          [(0, ('dict', [('offset', ('int', '912')), ('size', ('int', '16'))])),
                                           (1, ('dict', [('offset', ('int', '1120')), ('size', ('int', '16'))])),
                                           (2, ('dict', [('offset', ('int', '1328')), ('size', ('int', '16'))])),
                                           (3, ('dict', [('offset', ('int', '1536')), ('size', ('int', '16'))])),
                                           (4, ('dict', [('offset', ('int', '1744')), ('size', ('int', '16'))]))]))),
                                       [('fs.open', '/equiv6/IMG-HH-ALOS2225333100-180726-WWDR1.1__D-B3', (), {'mode': 'rb'}),
                                        ('fs.isfile', '/equiv6'), ('fs.isfile', '/'), ('enter', '/equiv6/IMG-HH-ALOS2225333100-180726-WWDR1.1__D-B3'),
                                        ('read', '/equiv6/IMG-HH-ALOS2225333100-180726-WWDR1.1__D-B3', (720,), {}, 0),
                                        ('read', '/equiv6/IMG-HH-ALOS2225333100-180726-WWDR1.1__D-B3', (208,), {}, 720),
                                        ('read', '/equiv6/IMG-HH-ALOS2225333100-180726-WWDR1.1__D-B3', (208,), {}, 928),
                                        ('read', '/equiv6/IMG-HH-ALOS2225333100-180726-WWDR1.1__D-B3', (208,), {}, 1136),
                                        ('read', '/equiv6/IMG-HH-ALOS2225333100-180726-WWDR1.1__D-B3', (208,), {}, 1344),
                                        ('read', '/equiv6/IMG-HH-ALOS2225333100-180726-WWDR1.1__D-B3', (208,), {}, 1552),
                                        ('exit', '/equiv6/IMG-HH-ALOS2225333100-180726-WWDR1.1__D-B3', None)],
                                       [],
                                       ('ndarray', 'complex64', (5, 2),
                                        '[[1j, (2+3j)], [(4+5j), (6+7j)], [(8+9j), (10+11j)], [(12+13j), (14+15j)], [(16+17j), (18+19j)]]')),
 'open/scansar/rpc1/use_cache=True': ('ok',
                                      ('fb2151ab0fc9bff52a3fb31009f520568be8aa66439a783ae70d637678b06412', 'HH_scan3', None, 26,
                                       "{'sar_image_data_record_index': 1, 'sensor_parameters_update_flag': 0, 'sar_channel_id': "
                                       "'dual_polarization', 'sar_channel_code': 'L', 'transmitted_pulse_polarization': 'horizontal', "
                                       "'received_pulse_polarization': 'horizontal', 'scan_id': 3, 'geographic_reference_parameter_update_flag': 0, "
                                       "'interleaving_id': 'BSQ', 'coordinates': ['rows', 'sensor_acquisition_date', 'prf', "
                                       "'slant_range_to_first_pixel', 'slant_range_to_mid_pixel', 'slant_range_to_last_pixel', "
                                       "'doppler_centroid_value_at_first_pixel', 'doppler_centroid_value_at_mid_pixel', "
                                       "'doppler_centroid_value_at_last_pixel', 'azimuth_fm_rate_of_first_pixel', 'azimuth_fm_rate_of_mid_pixel', "
                                       "'azimuth_fm_rate_of_last_pixel', 'look_angle_of_nadir', 'azimuth_squint_angle', 'latitude_of_first_pixel', "
                                       "'latitude_of_center_pixel', 'latitude_of_last_pixel', 'longitude_of_first_pixel', "
                                       "'longitude_of_center_pixel', 'longitude_of_last_pixel', 'northing_of_first_pixel', 'northing_of_last_pixel', "
                                       "'easting_of_first_pixel', 'easting_of_last_pixel', 'line_heading']}",
                                       "['rows', 'columns']",
                                       ('Array', 'DirFileSystem', '/equiv6', 'LoggingMemoryFileSystem', 'IMG-HH-ALOS2225333100-180726-WWDR1.1__D-B3',
                                        ('list',
                                         [('tuple', [('int', '912'), ('int', '928')]), ('tuple', [('int', '1120'), ('int', '1136')]),
                                          ('tuple', [('int', '1328'), ('int', '1344')]), ('tuple', [('int', '1536'), ('int', '1552')]),
                                          ('tuple', [('int', '1744'), ('int', '1760')])]),
                                        ('tuple', [('int', '5'), ('int', '2')]), ('str', "'complex64'"), 'C*8', ('int', '1'),
                                        ('dict',
                                         [(0, ('dict', [('offset', ('int', '912')), ('size', ('int', '16'))])),
                                          (1, ('dict', [('offset', ('int', '1120')), ('size', ('int', '16'))])),
                                          (2, ('dict', [('offset', ('int', '1328')), ('size', ('int', '16'))])),
                                          (3, ('dict', [('offset', ('int', '1536')), ('size', ('int', '16'))])),
                                          (4, ('dict', [('offset', ('int', '1744')), ('size', ('int', '16'))]))]))),
                                      [('fs.isfile', '/equiv6/IMG-HH-ALOS2225333100-180726-WWDR1.1__D-B3.index'),
                                       ('fs.open', '/equiv6/IMG-HH-ALOS2225333100-180726-WWDR1.1__D-B3', (), {'mode': 'rb'}),
                                       ('fs.isfile', '/equiv6'), ('fs.isfile', '/'), ('enter', '/equiv6/IMG-HH-ALOS2225333100-180726-WWDR1.1__D-B3'),
                                       ('read', '/equiv6/IMG-HH-ALOS2225333100-180726-WWDR1.1__D-B3', (720,), {}, 0),
                                       ('read', '/equiv6/IMG-HH-ALOS2225333100-180726-WWDR1.1__D-B3', (208,), {}, 720),
                                       ('read', '/equiv6/IMG-HH-ALOS2225333100-180726-WWDR1.1__D-B3', (208,), {}, 928),
                                       ('read', '/equiv6/IMG-HH-ALOS2225333100-180726-WWDR1.1__D-B3', (208,), {}, 1136),
                                       ('read', '/equiv6/IMG-HH-ALOS2225333100-180726-WWDR1.1__D-B3', (208,), {}, 1344),
                                       ('read', '/equiv6/IMG-HH-ALOS2225333100-180726-WWDR1.1__D-B3', (208,), {}, 1552),
                                       ('exit', '/equiv6/IMG-HH-ALOS2225333100-180726-WWDR1.1__D-B3', None)],
                                      [],
                                      ('ndarray', 'complex64', (5, 2),
                                       '[[1j, (2+3j)], [(4+5j), (6+7j)], [(8+9j), (10+11j)], [(12+13j), (14+15j)], [(16+17j), (18+19j)]]')),
 'open/scansar/rpc2/use_cache=False': ('ok',
                                       ('acc09acb076d8ccae9b9a81a31086c400204bd5c2cab7472040deb91779f906b', 'HH_scan3', None, 26,
                                        "{'sar_image_data_record_index': 1, 'sensor_parameters_update_flag': 0, 'sar_channel_id': "
                                        "'dual_polarization', 'sar_channel_code': 'L', 'transmitted_pulse_polarization': 'horizontal', "
                                        "'received_pulse_polarization': 'horizontal', 'scan_id': 3, 'geographic_reference_parameter_update_flag': 0, "
                                        "'interleaving_id': 'BSQ', 'coordinates': ['rows', 'sensor_acquisition_date', 'prf', "
                                        "'slant_range_to_first_pixel', 'slant_range_to_mid_pixel', 'slant_range_to_last_pixel', "
                                        "'doppler_centroid_value_at_first_pixel', 'doppler_centroid_value_at_mid_pixel', "
                                        "'doppler_centroid_value_at_last_pixel', 'azimuth_fm_rate_of_first_pixel', 'azimuth_fm_rate_of_mid_pixel', "
                                        "'azimuth_fm_rate_of_last_pixel', 'look_angle_of_nadir', 'azimuth_squint_angle', 'latitude_of_first_pixel', "
                                        "'latitude_of_center_pixel', 'latitude_of_last_pixel', 'longitude_of_first_pixel', "
                                        "'longitude_of_center_pixel', 'longitude_of_last_pixel', 'northing_of_first_pixel', "
                                        "'northing_of_last_pixel', 'easting_of_first_pixel', 'easting_of_last_pixel', 'line_heading']}",
                                        "['rows', 'columns']",
                                        ('Array', 'DirFileSystem', '/equiv6', 'LoggingMemoryFileSystem', 'IMG-HH-ALOS2225333100-180726-WWDR1.1__D-B3',
                                         ('list',
                                          [('tuple', [('int', '912'), ('int', '928')]), ('tuple', [('int', '1120'), ('int', '1136')]),
                                           ('tuple', [('int', '1328'), ('int', '1344')]), ('tuple', [('int', '1536'), ('int', '1552')]),
                                           ('tuple', [('int', '1744'), ('int', '1760')])]),
                                         ('tuple', [('int', '5'), ('int', '2')]), ('str', "'complex64'"), 'C*8', ('int', '2'),
                                         ('dict',
                                          [(0, ('dict', [('offset', ('int', '912')), ('size', ('int', '224'))])),
                                           (1, ('dict', [('offset', ('int', '1328')), ('size', ('int', '224'))])),
                                           (2, ('dict', [('offset', ('int', '1744')), ('size', ('int', '16'))]))]))),
                                       [('fs.open', '/equiv6/IMG-HH-ALOS2225333100-180726-WWDR1.1__D-B3', (), {'mode': 'rb'}),
                                        ('fs.isfile', '/equiv6'), ('fs.isfile', '/'), ('enter', '/equiv6/IMG-HH-ALOS2225333100-180726-WWDR1.1__D-B3'),
                                        ('read', '/equiv6/IMG-HH-ALOS2225333100-180726-WWDR1.1__D-B3', (720,), {}, 0),
                                        ('read', '/equiv6/IMG-HH-ALOS2225333100-180726-WWDR1.1__D-B3', (416,), {}, 720),
                                        ('read', '/equiv6/IMG-HH-ALOS2225333100-180726-WWDR1.1__D-B3', (416,), {}, 1136),
                                        ('read', '/equiv6/IMG-HH-ALOS2225333100-180726-WWDR1.1__D-B3', (208,), {}, 1552),
                                        ('exit', '/equiv6/IMG-HH-ALOS2225333100-180726-WWDR1.1__D-B3', None)],
                                       [],
                                       ('ndarray', 'complex64', (5, 2),
                                        '[[1j, (2+3j)], [(4+5j), (6+7j)], [(8+9j), (10+11j)], [(12+13j), (14+15j)], [(16+17j), (18+19j)]]')),
 'open/scansar/rpc2/use_cache=True': ('ok',
                                      ('acc09acb076d8ccae9b9a81a31086c400204bd5c2cab7472040deb91779f906b', 'HH_scan3', None, 26,
                                       "{'sar_image_data_record_index': 1, 'sensor_parameters_update_flag': 0, 'sar_channel_id': "
                                       "'dual_polarization', 'sar_channel_code': 'L', 'transmitted_pulse_polarization': 'horizontal', "
                                       "'received_pulse_polarization': 'horizontal', 'scan_id': 3, 'geographic_reference_parameter_update_flag': 0, "
                                       "'interleaving_id': 'BSQ', 'coordinates': ['rows', 'sensor_acquisition_date', 'prf', "
                                       "'slant_range_to_first_pixel', 'slant_range_to_mid_pixel', 'slant_range_to_last_pixel', "
                                       "'doppler_centroid_value_at_first_pixel', 'doppler_centroid_value_at_mid_pixel', "
                                       "'doppler_centroid_value_at_last_pixel', 'azimuth_fm_rate_of_first_pixel', 'azimuth_fm_rate_of_mid_pixel', "
                                       "'azimuth_fm_rate_of_last_pixel', 'look_angle_of_nadir', 'azimuth_squint_angle', 'latitude_of_first_pixel', "
                                       "'latitude_of_center_pixel', 'latitude_of_last_pixel', 'longitude_of_first_pixel', "
                                       "'longitude_of_center_pixel', 'longitude_of_last_pixel', 'northing_of_first_pixel', 'northing_of_last_pixel', "
                                       "'easting_of_first_pixel', 'easting_of_last_pixel', 'line_heading']}",
                                       "['rows', 'columns']",
                                       ('Array', 'DirFileSystem', '/equiv6', 'LoggingMemoryFileSystem', 'IMG-HH-ALOS2225333100-180726-WWDR1.1__D-B3',
                                        ('list',
                                         [('tuple', [('int', '912'), ('int', '928')]), ('tuple', [('int', '1120'), ('int', '1136')]),
                                          ('tuple', [('int', '1328'), ('int', '1344')]), ('tuple', [('int', '1536'), ('int', '1552')]),
                                          ('tuple', [('int', '1744'), ('int', '1760')])]),
                                        ('tuple', [('int', '5'), ('int', '2')]), ('str', "'complex64'"), 'C*8', ('int', '2'),
                                        ('dict',
                                         [(0, ('dict', [('offset', ('int', '912')), ('size', ('int', '224'))])),
                                          (1, ('dict', [('offset', ('int', '1328')), ('size', ('int', '224'))])),
                                          (2, ('dict', [('offset', ('int', '1744')), ('size', ('int', '16'))]))]))),
                                      [('fs.isfile', '/equiv6/IMG-HH-ALOS2225333100-180726-WWDR1.1__D-B3.index'),
                                       ('fs.open', '/equiv6/IMG-HH-ALOS2225333100-180726-WWDR1.1__D-B3', (), {'mode': 'rb'}),
                                       ('fs.isfile', '/equiv6'), ('fs.isfile', '/'), ('enter', '/equiv6/IMG-HH-ALOS2225333100-180726-WWDR1.1__D-B3'),
                                       ('read', '/equiv6/IMG-HH-ALOS2225333100-180726-WWDR1.1__D-B3', (720,), {}, 0),
                                       ('read', '/equiv6/IMG-HH-ALOS2225333100-180726-WWDR1.1__D-B3', (416,), {}, 720),
                                       ('read', '/equiv6/IMG-HH-ALOS2225333100-180726-WWDR1.1__D-B3', (416,), {}, 1136),
                                       ('read', '/equiv6/IMG-HH-ALOS2225333100-180726-WWDR1.1__D-B3', (208,), {}, 1552),
                                       ('exit', '/equiv6/IMG-HH-ALOS2225333100-180726-WWDR1.1__D-B3', None)],
                                      [],
                                      ('ndarray', 'complex64', (5, 2),
                                       '[[1j, (2+3j)], [(4+5j), (6+7j)], [(8+9j), (10+11j)], [(12+13j), (14+15j)], [(16+17j), (18+19j)]]')),
 'open/scansar/rpc1024/use_cache=False': ('ok',
                                          ('7f843e74a04dd238a9c6ec63c911f308784abf321eb2512aa0fcbef71b388b86', 'HH_scan3', None, 26,
                                           "{'sar_image_data_record_index': 1, 'sensor_parameters_update_flag': 0, 'sar_channel_id': "
                                           "'dual_polarization', 'sar_channel_code': 'L', 'transmitted_pulse_polarization': 'horizontal', "
                                           "'received_pulse_polarization': 'horizontal', 'scan_id': 3, 'geographic_reference_parameter_update_flag': "
                                           "0, 'interleaving_id': 'BSQ', 'coordinates': ['rows', 'sensor_acquisition_date', 'prf', "
                                           "'slant_range_to_first_pixel', 'slant_range_to_mid_pixel', 'slant_range_to_last_pixel', "
                                           "'doppler_centroid_value_at_first_pixel', 'doppler_centroid_value_at_mid_pixel', "
                                           "'doppler_centroid_value_at_last_pixel', 'azimuth_fm_rate_of_first_pixel', "
                                           "'azimuth_fm_rate_of_mid_pixel', 'azimuth_fm_rate_of_last_pixel', 'look_angle_of_nadir', "
                                           "'azimuth_squint_angle', 'latitude_of_first_pixel', 'latitude_of_center_pixel', 'latitude_of_last_pixel', "
                                           "'longitude_of_first_pixel', 'longitude_of_center_pixel', 'longitude_of_last_pixel', "
                                           "'northing_of_first_pixel', 'northing_of_last_pixel', 'easting_of_first_pixel', 'easting_of_last_pixel', "
                                           "'line_heading']}",
                                           "['rows', 'columns']",
                                           ('Array', 'DirFileSystem', '/equiv6', 'LoggingMemoryFileSystem',
                                            'IMG-HH-ALOS2225333100-180726-WWDR1.1__D-B3',
                                            ('list',
                                             [('tuple', [('int', '912'), ('int', '928')]), ('tuple', [('int', '1120'), ('int', '1136')]),
                                              ('tuple', [('int', '1328'), ('int', '1344')]), ('tuple', [('int', '1536'), ('int', '1552')]),
                                              ('tuple', [('int', '1744'), ('int', '1760')])]),
                                            ('tuple', [('int', '5'), ('int', '2')]), ('str', "'complex64'"), 'C*8', ('int', '5'),
                                            ('dict', [(0, ('dict', [('offset', ('int', '912')), ('size', ('int', '848'))]))]))),
                                          [('fs.open', '/equiv6/IMG-HH-ALOS2225333100-180726-WWDR1.1__D-B3', (), {'mode': 'rb'}),
                                           ('fs.isfile', '/equiv6'), ('fs.isfile', '/'),
                                           ('enter', '/equiv6/IMG-HH-ALOS2225333100-180726-WWDR1.1__D-B3'),
                                           ('read', '/equiv6/IMG-HH-ALOS2225333100-180726-WWDR1.1__D-B3', (720,), {}, 0),
                                           ('read', '/equiv6/IMG-HH-ALOS2225333100-180726-WWDR1.1__D-B3', (1040,), {}, 720),
                                           ('exit', '/equiv6/IMG-HH-ALOS2225333100-180726-WWDR1.1__D-B3', None)],
                                          [],
                                          ('ndarray', 'complex64', (5, 2),
                                           '[[1j, (2+3j)], [(4+5j), (6+7j)], [(8+9j), (10+11j)], [(12+13j), (14+15j)], [(16+17j), (18+19j)]]')),
 'open/scansar/rpc1024/use_cache=True': ('ok',
                                         ('7f843e74a04dd238a9c6ec63c911f308784abf321eb2512aa0fcbef71b388b86', 'HH_scan3', None, 26,
                                          "{'sar_image_data_record_index': 1, 'sensor_parameters_update_flag': 0, 'sar_channel_id': "
                                          "'dual_polarization', 'sar_channel_code': 'L', 'transmitted_pulse_polarization': 'horizontal', "
                                          "'received_pulse_polarization': 'horizontal', 'scan_id': 3, 'geographic_reference_parameter_update_flag': "
                                          "0, 'interleaving_id': 'BSQ', 'coordinates': ['rows', 'sensor_acquisition_date', 'prf', "
                                          "'slant_range_to_first_pixel', 'slant_range_to_mid_pixel', 'slant_range_to_last_pixel', "
                                          "'doppler_centroid_value_at_first_pixel', 'doppler_centroid_value_at_mid_pixel', "
                                          "'doppler_centroid_value_at_last_pixel', 'azimuth_fm_rate_of_first_pixel', 'azimuth_fm_rate_of_mid_pixel', "
                                          "'azimuth_fm_rate_of_last_pixel', 'look_angle_of_nadir', 'azimuth_squint_angle', "
                                          "'latitude_of_first_pixel', 'latitude_of_center_pixel', 'latitude_of_last_pixel', "
                                          "'longitude_of_first_pixel', 'longitude_of_center_pixel', 'longitude_of_last_pixel', "
                                          "'northing_of_first_pixel', 'northing_of_last_pixel', 'easting_of_first_pixel', 'easting_of_last_pixel', "
                                          "'line_heading']}",
                                          "['rows', 'columns']",
                                          ('Array', 'DirFileSystem', '/equiv6', 'LoggingMemoryFileSystem',
                                           'IMG-HH-ALOS2225333100-180726-WWDR1.1__D-B3',
                                           ('list',
                                            [('tuple', [('int', '912'), ('int', '928')]), ('tuple', [('int', '1120'), ('int', '1136')]),
                                             ('tuple', [('int', '1328'), ('int', '1344')]), ('tuple', [('int', '1536'), ('int', '1552')]),
                                             ('tuple', [('int', '1744'), ('int', '1760')])]),
                                           ('tuple', [('int', '5'), ('int', '2')]), ('str', "'complex64'"), 'C*8', ('int', '5'),
                                           ('dict', [(0, ('dict', [('offset', ('int', '912')), ('size', ('int', '848'))]))]))),
                                         [('fs.isfile', '/equiv6/IMG-HH-ALOS2225333100-180726-WWDR1.1__D-B3.index'),
                                          ('fs.open', '/equiv6/IMG-HH-ALOS2225333100-180726-WWDR1.1__D-B3', (), {'mode': 'rb'}),
                                          ('fs.isfile', '/equiv6'), ('fs.isfile', '/'),
                                          ('enter', '/equiv6/IMG-HH-ALOS2225333100-180726-WWDR1.1__D-B3'),
                                          ('read', '/equiv6/IMG-HH-ALOS2225333100-180726-WWDR1.1__D-B3', (720,), {}, 0),
                                          ('read', '/equiv6/IMG-HH-ALOS2225333100-180726-WWDR1.1__D-B3', (1040,), {}, 720),
                                          ('exit', '/equiv6/IMG-HH-ALOS2225333100-180726-WWDR1.1__D-B3', None)],
                                         [],
                                         ('ndarray', 'complex64', (5, 2),
                                          '[[1j, (2+3j)], [(4+5j), (6+7j)], [(8+9j), (10+11j)], [(12+13j), (14+15j)], [(16+17j), (18+19j)]]')),
 'open/stripmap/rpc1/use_cache=False': ('ok',
                                        ('e0d15b44a9cdd26d02b1ece8c376d3a983a9536136e683a5d253d396c5a5d502', 'HV', None, 26,
                                         "{'sar_image_data_record_index': 1, 'sensor_parameters_update_flag': 0, 'sar_channel_id': "
                                         "'dual_polarization', 'sar_channel_code': 'L', 'transmitted_pulse_polarization': 'horizontal', "
                                         "'received_pulse_polarization': 'horizontal', 'scan_id': 3, 'geographic_reference_parameter_update_flag': "
                                         "0, 'interleaving_id': 'BSQ', 'valid_range': [0, 65535], 'coordinates': ['rows', 'sensor_acquisition_date', "
                                         "'prf', 'slant_range_to_first_pixel', 'slant_range_to_mid_pixel', 'slant_range_to_last_pixel', "
                                         "'doppler_centroid_value_at_first_pixel', 'doppler_centroid_value_at_mid_pixel', "
                                         "'doppler_centroid_value_at_last_pixel', 'azimuth_fm_rate_of_first_pixel', 'azimuth_fm_rate_of_mid_pixel', "
                                         "'azimuth_fm_rate_of_last_pixel', 'look_angle_of_nadir', 'azimuth_squint_angle', 'latitude_of_first_pixel', "
                                         "'latitude_of_center_pixel', 'latitude_of_last_pixel', 'longitude_of_first_pixel', "
                                         "'longitude_of_center_pixel', 'longitude_of_last_pixel', 'northing_of_first_pixel', "
                                         "'northing_of_last_pixel', 'easting_of_first_pixel', 'easting_of_last_pixel', 'line_heading']}",
                                         "['rows', 'columns']",
                                         ('Array', 'DirFileSystem', '/equiv6', 'LoggingMemoryFileSystem', 'IMG-HV-ALOS2290760600-191011-WWDR1.5RUA',
                                          ('list',
                                           [('tuple', [('int', '912'), ('int', '920')]), ('tuple', [('int', '1112'), ('int', '1120')]),
                                            ('tuple', [('int', '1312'), ('int', '1320')])]),
                                          ('tuple', [('int', '3'), ('int', '4')]), ('str', "'uint16'"), 'IU2', ('int', '1'),
                                          ('dict',
                                           [(0, ('dict', [('offset', ('int', '912')), ('size', ('int', '8'))])),
                                            (1, ('dict', [('offset', ('int', '1112')), ('size', ('int', '8'))])),
                                            (2, ('dict', [('offset', ('int', '1312')), ('size', ('int', '8'))]))]))),
                                        [('fs.open', '/equiv6/IMG-HV-ALOS2290760600-191011-WWDR1.5RUA', (), {'mode': 'rb'}), ('fs.isfile', '/equiv6'),
                                         ('fs.isfile', '/'), ('enter', '/equiv6/IMG-HV-ALOS2290760600-191011-WWDR1.5RUA'),
                                         ('read', '/equiv6/IMG-HV-ALOS2290760600-191011-WWDR1.5RUA', (720,), {}, 0),
                                         ('read', '/equiv6/IMG-HV-ALOS2290760600-191011-WWDR1.5RUA', (200,), {}, 720),
                                         ('read', '/equiv6/IMG-HV-ALOS2290760600-191011-WWDR1.5RUA', (200,), {}, 920),
                                         ('read', '/equiv6/IMG-HV-ALOS2290760600-191011-WWDR1.5RUA', (200,), {}, 1120),
                                         ('exit', '/equiv6/IMG-HV-ALOS2290760600-191011-WWDR1.5RUA', None)],
                                        [], ('ndarray', 'uint16', (3, 4), '[[0, 1, 2, 3], [4, 5, 6, 7], [8, 9, 10, 11]]')),
 'open/stripmap/rpc1/use_cache=True': ('ok',
                                       ('e0d15b44a9cdd26d02b1ece8c376d3a983a9536136e683a5d253d396c5a5d502', 'HV', None, 26,
                                        "{'sar_image_data_record_index': 1, 'sensor_parameters_update_flag': 0, 'sar_channel_id': "
                                        "'dual_polarization', 'sar_channel_code': 'L', 'transmitted_pulse_polarization': 'horizontal', "
                                        "'received_pulse_polarization': 'horizontal', 'scan_id': 3, 'geographic_reference_parameter_update_flag': 0, "
                                        "'interleaving_id': 'BSQ', 'valid_range': [0, 65535], 'coordinates': ['rows', 'sensor_acquisition_date', "
                                        "'prf', 'slant_range_to_first_pixel', 'slant_range_to_mid_pixel', 'slant_range_to_last_pixel', "
                                        "'doppler_centroid_value_at_first_pixel', 'doppler_centroid_value_at_mid_pixel', "
                                        "'doppler_centroid_value_at_last_pixel', 'azimuth_fm_rate_of_first_pixel', 'azimuth_fm_rate_of_mid_pixel', "
                                        "'azimuth_fm_rate_of_last_pixel', 'look_angle_of_nadir', 'azimuth_squint_angle', 'latitude_of_first_pixel', "
                                        "'latitude_of_center_pixel', 'latitude_of_last_pixel', 'longitude_of_first_pixel', "
                                        "'longitude_of_center_pixel', 'longitude_of_last_pixel', 'northing_of_first_pixel', "
                                        "'northing_of_last_pixel', 'easting_of_first_pixel', 'easting_of_last_pixel', 'line_heading']}",
                                        "['rows', 'columns']",
                                        ('Array', 'DirFileSystem', '/equiv6', 'LoggingMemoryFileSystem', 'IMG-HV-ALOS2290760600-191011-WWDR1.5RUA',
                                         ('list',
                                          [('tuple', [('int', '912'), ('int', '920')]), ('tuple', [('int', '1112'), ('int', '1120')]),
                                           ('tuple', [('int', '1312'), ('int', '1320')])]),
                                         ('tuple', [('int', '3'), ('int', '4')]), ('str', "'uint16'"), 'IU2', ('int', '1'),
                                         ('dict',
                                          [(0, ('dict', [('offset', ('int', '912')), ('size', ('int', '8'))])),
                                           (1, ('dict', [('offset', ('int', '1112')), ('size', ('int', '8'))])),
                                           (2, ('dict', [('offset', ('int', '1312')), ('size', ('int', '8'))]))]))),
                                       [('fs.isfile', '/equiv6/IMG-HV-ALOS2290760600-191011-WWDR1.5RUA.index'),
                                        ('fs.open', '/equiv6/IMG-HV-ALOS2290760600-191011-WWDR1.5RUA', (), {'mode': 'rb'}), ('fs.isfile', '/equiv6'),
                                        ('fs.isfile', '/'), ('enter', '/equiv6/IMG-HV-ALOS2290760600-191011-WWDR1.5RUA'),
                                        ('read', '/equiv6/IMG-HV-ALOS2290760600-191011-WWDR1.5RUA', (720,), {}, 0),
                                        ('read', '/equiv6/IMG-HV-ALOS2290760600-191011-WWDR1.5RUA', (200,), {}, 720),
                                        ('read', '/equiv6/IMG-HV-ALOS2290760600-191011-WWDR1.5RUA', (200,), {}, 920),
                                        ('read', '/equiv6/IMG-HV-ALOS2290760600-191011-WWDR1.5RUA', (200,), {}, 1120),
                                        ('exit', '/equiv6/IMG-HV-ALOS2290760600-191011-WWDR1.5RUA', None)],
                                       [], ('ndarray', 'uint16', (3, 4), '[[0, 1, 2, 3], [4, 5, 6, 7], [8, 9, 10, 11]]')),
 'open/stripmap/rpc2/use_cache=False': ('ok',
                                        ('4fc396169214bd3e584ba84631f01a70e9fc32374364ee026f6d503737149e28', 'HV', None, 26,
                                         "{'sar_image_data_record_index': 1, 'sensor_parameters_update_flag': 0, 'sar_channel_id': "
                                         "'dual_polarization', 'sar_channel_code': 'L', 'transmitted_pulse_polarization': 'horizontal', "
                                         "'received_pulse_polarization': 'horizontal', 'scan_id': 3, 'geographic_reference_parameter_update_flag': "
                                         "0, 'interleaving_id': 'BSQ', 'valid_range': [0, 65535], 'coordinates': ['rows', 'sensor_acquisition_date', "
                                         "'prf', 'slant_range_to_first_pixel', 'slant_range_to_mid_pixel', 'slant_range_to_last_pixel', "
                                         "'doppler_centroid_value_at_first_pixel', 'doppler_centroid_value_at_mid_pixel', "
                                         "'doppler_centroid_value_at_last_pixel', 'azimuth_fm_rate_of_first_pixel', 'azimuth_fm_rate_of_mid_pixel', "
                                         "'azimuth_fm_rate_of_last_pixel', 'look_angle_of_nadir', 'azimuth_squint_angle', 'latitude_of_first_pixel', "
                                         "'latitude_of_center_pixel', 'latitude_of_last_pixel', 'longitude_of_first_pixel', "
                                         "'longitude_of_center_pixel', 'longitude_of_last_pixel', 'northing_of_first_pixel', "
                                         "'northing_of_last_pixel', 'easting_of_first_pixel', 'easting_of_last_pixel', 'line_heading']}",
                                         "['rows', 'columns']",
                                         ('Array', 'DirFileSystem', '/equiv6', 'LoggingMemoryFileSystem', 'IMG-HV-ALOS2290760600-191011-WWDR1.5RUA',
                                          ('list',
                                           [('tuple', [('int', '912'), ('int', '920')]), ('tuple', [('int', '1112'), ('int', '1120')]),
                                            ('tuple', [('int', '1312'), ('int', '1320')])]),
                                          ('tuple', [('int', '3'), ('int', '4')]), ('str', "'uint16'"), 'IU2', ('int', '2'),
                                          ('dict',
                                           [(0, ('dict', [('offset', ('int', '912')), ('size', ('int', '208'))])),
                                            (1, ('dict', [('offset', ('int', '1312')), ('size', ('int', '8'))]))]))),
                                        [('fs.open', '/equiv6/IMG-HV-ALOS2290760600-191011-WWDR1.5RUA', (), {'mode': 'rb'}), ('fs.isfile', '/equiv6'),
                                         ('fs.isfile', '/'), ('enter', '/equiv6/IMG-HV-ALOS2290760600-191011-WWDR1.5RUA'),
                                         ('read', '/equiv6/IMG-HV-ALOS2290760600-191011-WWDR1.5RUA', (720,), {}, 0),
                                         ('read', '/equiv6/IMG-HV-ALOS2290760600-191011-WWDR1.5RUA', (400,), {}, 720),
                                         ('read', '/equiv6/IMG-HV-ALOS2290760600-191011-WWDR1.5RUA', (200,), {}, 1120),
                                         ('exit', '/equiv6/IMG-HV-ALOS2290760600-191011-WWDR1.5RUA', None)],
                                        [], ('ndarray', 'uint16', (3, 4), '[[0, 1, 2, 3], [4, 5, 6, 7], [8, 9, 10, 11]]')),
 'open/stripmap/rpc2/use_cache=True': ('ok',
                                       ('4fc396169214bd3e584ba84631f01a70e9fc32374364ee026f6d503737149e28', 'HV', None, 26,
                                        "{'sar_image_data_record_index': 1, 'sensor_parameters_update_flag': 0, 'sar_channel_id': "
                                        "'dual_polarization', 'sar_channel_code': 'L', 'transmitted_pulse_polarization': 'horizontal', "
                                        "'received_pulse_polarization': 'horizontal', 'scan_id': 3, 'geographic_reference_parameter_update_flag': 0, "
                                        "'interleaving_id': 'BSQ', 'valid_range': [0, 65535], 'coordinates': ['rows', 'sensor_acquisition_date', "
                                        "'prf', 'slant_range_to_first_pixel', 'slant_range_to_mid_pixel', 'slant_range_to_last_pixel', "
                                        "'doppler_centroid_value_at_first_pixel', 'doppler_centroid_value_at_mid_pixel', "
                                        "'doppler_centroid_value_at_last_pixel', 'azimuth_fm_rate_of_first_pixel', 'azimuth_fm_rate_of_mid_pixel', "
                                        "'azimuth_fm_rate_of_last_pixel', 'look_angle_of_nadir', 'azimuth_squint_angle', 'latitude_of_first_pixel', "
                                        "'latitude_of_center_pixel', 'latitude_of_last_pixel', 'longitude_of_first_pixel', "
                                        "'longitude_of_center_pixel', 'longitude_of_last_pixel', 'northing_of_first_pixel', "
                                        "'northing_of_last_pixel', 'easting_of_first_pixel', 'easting_of_last_pixel', 'line_heading']}",
                                        "['rows', 'columns']",
                                        ('Array', 'DirFileSystem', '/equiv6', 'LoggingMemoryFileSystem', 'IMG-HV-ALOS2290760600-191011-WWDR1.5RUA',
                                         ('list',
                                          [('tuple', [('int', '912'), ('int', '920')]), ('tuple', [('int', '1112'), ('int', '1120')]),
                                           ('tuple', [('int', '1312'), ('int', '1320')])]),
                                         ('tuple', [('int', '3'), ('int', '4')]), ('str', "'uint16'"), 'IU2', ('int', '2'),
                                         ('dict',
                                          [(0, ('dict', [('offset', ('int', '912')), ('size', ('int', '208'))])),
                                           (1, ('dict', [('offset', ('int', '1312')), ('size', ('int', '8'))]))]))),
                                       [('fs.isfile', '/equiv6/IMG-HV-ALOS2290760600-191011-WWDR1.5RUA.index'),
                                        ('fs.open', '/equiv6/IMG-HV-ALOS2290760600-191011-WWDR1.5RUA', (), {'mode': 'rb'}), ('fs.isfile', '/equiv6'),
                                        ('fs.isfile', '/'), ('enter', '/equiv6/IMG-HV-ALOS2290760600-191011-WWDR1.5RUA'),
                                        ('read', '/equiv6/IMG-HV-ALOS2290760600-191011-WWDR1.5RUA', (720,), {}, 0),
                                        ('read', '/equiv6/IMG-HV-ALOS2290760600-191011-WWDR1.5RUA', (400,), {}, 720),
                                        ('read', '/equiv6/IMG-HV-ALOS2290760600-191011-WWDR1.5RUA', (200,), {}, 1120),
                                        ('exit', '/equiv6/IMG-HV-ALOS2290760600-191011-WWDR1.5RUA', None)],
                                       [], ('ndarray', 'uint16', (3, 4), '[[0, 1, 2, 3], [4, 5, 6, 7], [8, 9, 10, 11]]')),
 'open/stripmap/rpc1024/use_cache=False': ('ok',
                                           ('d52b498090c7d1cb84f3e79cb01a4a0bbcb098a224de16c7a37eb3a34b2e5487', 'HV', None, 26,
                                            "{'sar_image_data_record_index': 1, 'sensor_parameters_update_flag': 0, 'sar_channel_id': "
                                            "'dual_polarization', 'sar_channel_code': 'L', 'transmitted_pulse_polarization': 'horizontal', "
                                            "'received_pulse_polarization': 'horizontal', 'scan_id': 3, "
                                            "'geographic_reference_parameter_update_flag': 0, 'interleaving_id': 'BSQ', 'valid_range': [0, 65535], "
                                            "'coordinates': ['rows', 'sensor_acquisition_date', 'prf', 'slant_range_to_first_pixel', "
                                            "'slant_range_to_mid_pixel', 'slant_range_to_last_pixel', 'doppler_centroid_value_at_first_pixel', "
                                            "'doppler_centroid_value_at_mid_pixel', 'doppler_centroid_value_at_last_pixel', "
                                            "'azimuth_fm_rate_of_first_pixel', 'azimuth_fm_rate_of_mid_pixel', 'azimuth_fm_rate_of_last_pixel', "
                                            "'look_angle_of_nadir', 'azimuth_squint_angle', 'latitude_of_first_pixel', 'latitude_of_center_pixel', "
                                            "'latitude_of_last_pixel', 'longitude_of_first_pixel', 'longitude_of_center_pixel', "
                                            "'longitude_of_last_pixel', 'northing_of_first_pixel', 'northing_of_last_pixel', "
                                            "'easting_of_first_pixel', 'easting_of_last_pixel', 'line_heading']}",
                                            "['rows', 'columns']",
                                            ('Array', 'DirFileSystem', '/equiv6', 'LoggingMemoryFileSystem',
                                             'IMG-HV-ALOS2290760600-191011-WWDR1.5RUA',
                                             ('list',
                                              [('tuple', [('int', '912'), ('int', '920')]), ('tuple', [('int', '1112'), ('int', '1120')]),
                                               ('tuple', [('int', '1312'), ('int', '1320')])]),
                                             ('tuple', [('int', '3'), ('int', '4')]), ('str', "'uint16'"), 'IU2', ('int', '3'),
                                             ('dict', [(0, ('dict', [('offset', ('int', '912')), ('size', ('int', '408'))]))]))),
                                           [('fs.open', '/equiv6/IMG-HV-ALOS2290760600-191011-WWDR1.5RUA', (), {'mode': 'rb'}),
                                            ('fs.isfile', '/equiv6'), ('fs.isfile', '/'),
                                            ('enter', '/equiv6/IMG-HV-ALOS2290760600-191011-WWDR1.5RUA'),
                                            ('read', '/equiv6/IMG-HV-ALOS2290760600-191011-WWDR1.5RUA', (720,), {}, 0),
                                            ('read', '/equiv6/IMG-HV-ALOS2290760600-191011-WWDR1.5RUA', (600,), {}, 720),
                                            ('exit', '/equiv6/IMG-HV-ALOS2290760600-191011-WWDR1.5RUA', None)],
                                           [], ('ndarray', 'uint16', (3, 4), '[[0, 1, 2, 3], [4, 5, 6, 7], [8, 9, 10, 11]]')),
 'open/stripmap/rpc1024/use_cache=True': ('ok',
                                          ('d52b498090c7d1cb84f3e79cb01a4a0bbcb098a224de16c7a37eb3a34b2e5487', 'HV', None, 26,
                                           "{'sar_image_data_record_index': 1, 'sensor_parameters_update_flag': 0, 'sar_channel_id': "
                                           "'dual_polarization', 'sar_channel_code': 'L', 'transmitted_pulse_polarization': 'horizontal', "
                                           "'received_pulse_polarization': 'horizontal', 'scan_id': 3, 'geographic_reference_parameter_update_flag': "
                                           "0, 'interleaving_id': 'BSQ', 'valid_range': [0, 65535], 'coordinates': ['rows', "
                                           "'sensor_acquisition_date', 'prf', 'slant_range_to_first_pixel', 'slant_range_to_mid_pixel', "
                                           "'slant_range_to_last_pixel', 'doppler_centroid_value_at_first_pixel', "
                                           "'doppler_centroid_value_at_mid_pixel', 'doppler_centroid_value_at_last_pixel', "
                                           "'azimuth_fm_rate_of_first_pixel', 'azimuth_fm_rate_of_mid_pixel', 'azimuth_fm_rate_of_last_pixel', "
                                           "'look_angle_of_nadir', 'azimuth_squint_angle', 'latitude_of_first_pixel', 'latitude_of_center_pixel', "
                                           "'latitude_of_last_pixel', 'longitude_of_first_pixel', 'longitude_of_center_pixel', "
                                           "'longitude_of_last_pixel', 'northing_of_first_pixel', 'northing_of_last_pixel', "
                                           "'easting_of_first_pixel', 'easting_of_last_pixel', 'line_heading']}",
                                           "['rows', 'columns']",
                                           ('Array', 'DirFileSystem', '/equiv6', 'LoggingMemoryFileSystem', 'IMG-HV-ALOS2290760600-191011-WWDR1.5RUA',
                                            ('list',
                                             [('tuple', [('int', '912'), ('int', '920')]), ('tuple', [('int', '1112'), ('int', '1120')]),
                                              ('tuple', [('int', '1312'), ('int', '1320')])]),
                                            ('tuple', [('int', '3'), ('int', '4')]), ('str', "'uint16'"), 'IU2', ('int', '3'),
                                            ('dict', [(0, ('dict', [('offset', ('int', '912')), ('size', ('int', '408'))]))]))),
                                          [('fs.isfile', '/equiv6/IMG-HV-ALOS2290760600-191011-WWDR1.5RUA.index'),
                                           ('fs.open', '/equiv6/IMG-HV-ALOS2290760600-191011-WWDR1.5RUA', (), {'mode': 'rb'}),
                                           ('fs.isfile', '/equiv6'), ('fs.isfile', '/'), ('enter', '/equiv6/IMG-HV-ALOS2290760600-191011-WWDR1.5RUA'),
                                           ('read', '/equiv6/IMG-HV-ALOS2290760600-191011-WWDR1.5RUA', (720,), {}, 0),
                                           ('read', '/equiv6/IMG-HV-ALOS2290760600-191011-WWDR1.5RUA', (600,), {}, 720),
                                           ('exit', '/equiv6/IMG-HV-ALOS2290760600-191011-WWDR1.5RUA', None)],
                                          [], ('ndarray', 'uint16', (3, 4), '[[0, 1, 2, 3], [4, 5, 6, 7], [8, 9, 10, 11]]')),
 'open/nopol/rpc1/use_cache=False': ('ok',
                                     ('3b859a0d61d7fa82ba84c26ecf36903c810c84411c0cad2ac16458e876082b89', '', None, 26,
                                      "{'sar_image_data_record_index': 1, 'sensor_parameters_update_flag': 0, 'sar_channel_id': 'dual_polarization', "
                                      "'sar_channel_code': 'L', 'transmitted_pulse_polarization': 'horizontal', 'received_pulse_polarization': "
                                      "'horizontal', 'scan_id': 3, 'geographic_reference_parameter_update_flag': 0, 'interleaving_id': 'BSQ', "
                                      "'valid_range': [0, 65535], 'coordinates': ['rows', 'sensor_acquisition_date', 'prf', "
                                      "'slant_range_to_first_pixel', 'slant_range_to_mid_pixel', 'slant_range_to_last_pixel', "
                                      "'doppler_centroid_value_at_first_pixel', 'doppler_centroid_value_at_mid_pixel', "
                                      "'doppler_centroid_value_at_last_pixel', 'azimuth_fm_rate_of_first_pixel', 'azimuth_fm_rate_of_mid_pixel', "
                                      "'azimuth_fm_rate_of_last_pixel', 'look_angle_of_nadir', 'azimuth_squint_angle', 'latitude_of_first_pixel', "
                                      "'latitude_of_center_pixel', 'latitude_of_last_pixel', 'longitude_of_first_pixel', "
                                      "'longitude_of_center_pixel', 'longitude_of_last_pixel', 'northing_of_first_pixel', 'northing_of_last_pixel', "
                                      "'easting_of_first_pixel', 'easting_of_last_pixel', 'line_heading']}",
                                      "['rows', 'columns']",
                                      ('Array', 'DirFileSystem', '/equiv6', 'LoggingMemoryFileSystem', 'IMG-ALOS2290760600-191011-WWDR1.5RUA',
                                       ('list', [('tuple', [('int', '912'), ('int', '914')])]), ('tuple', [('int', '1'), ('int', '1')]),
                                       ('str', "'uint16'"), 'IU2', ('int', '1'),
                                       ('dict', [(0, ('dict', [('offset', ('int', '912')), ('size', ('int', '2'))]))]))),
                                     [('fs.open', '/equiv6/IMG-ALOS2290760600-191011-WWDR1.5RUA', (), {'mode': 'rb'}), ('fs.isfile', '/equiv6'),
                                      ('fs.isfile', '/'), ('enter', '/equiv6/IMG-ALOS2290760600-191011-WWDR1.5RUA'),
                                      ('read', '/equiv6/IMG-ALOS2290760600-191011-WWDR1.5RUA', (720,), {}, 0),
                                      ('read', '/equiv6/IMG-ALOS2290760600-191011-WWDR1.5RUA', (194,), {}, 720),
                                      ('exit', '/equiv6/IMG-ALOS2290760600-191011-WWDR1.5RUA', None)],
                                     [], ('ndarray', 'uint16', (1, 1), '[[0]]')),
 'open/nopol/rpc1/use_cache=True': ('ok',
                                    ('3b859a0d61d7fa82ba84c26ecf36903c810c84411c0cad2ac16458e876082b89', '', None, 26,
                                     "{'sar_image_data_record_index': 1, 'sensor_parameters_update_flag': 0, 'sar_channel_id': 'dual_polarization', "
                                     "'sar_channel_code': 'L', 'transmitted_pulse_polarization': 'horizontal', 'received_pulse_polarization': "
                                     "'horizontal', 'scan_id': 3, 'geographic_reference_parameter_update_flag': 0, 'interleaving_id': 'BSQ', "
                                     "'valid_range': [0, 65535], 'coordinates': ['rows', 'sensor_acquisition_date', 'prf', "
                                     "'slant_range_to_first_pixel', 'slant_range_to_mid_pixel', 'slant_range_to_last_pixel', "
                                     "'doppler_centroid_value_at_first_pixel', 'doppler_centroid_value_at_mid_pixel', "
                                     "'doppler_centroid_value_at_last_pixel', 'azimuth_fm_rate_of_first_pixel', 'azimuth_fm_rate_of_mid_pixel', "
                                     "'azimuth_fm_rate_of_last_pixel', 'look_angle_of_nadir', 'azimuth_squint_angle', 'latitude_of_first_pixel', "
                                     "'latitude_of_center_pixel', 'latitude_of_last_pixel', 'longitude_of_first_pixel', 'longitude_of_center_pixel', "
                                     "'longitude_of_last_pixel', 'northing_of_first_pixel', 'northing_of_last_pixel', 'easting_of_first_pixel', "
                                     "'easting_of_last_pixel', 'line_heading']}",
                                     "['rows', 'columns']",
                                     ('Array', 'DirFileSystem', '/equiv6', 'LoggingMemoryFileSystem', 'IMG-ALOS2290760600-191011-WWDR1.5RUA',
                                      ('list', [('tuple', [('int', '912'), ('int', '914')])]), ('tuple', [('int', '1'), ('int', '1')]),
                                      ('str', "'uint16'"), 'IU2', ('int', '1'),
                                      ('dict', [(0, ('dict', [('offset', ('int', '912')), ('size', ('int', '2'))]))]))),
                                    [('fs.isfile', '/equiv6/IMG-ALOS2290760600-191011-WWDR1.5RUA.index'),
                                     ('fs.open', '/equiv6/IMG-ALOS2290760600-191011-WWDR1.5RUA', (), {'mode': 'rb'}), ('fs.isfile', '/equiv6'),
                                     ('fs.isfile', '/'), ('enter', '/equiv6/IMG-ALOS2290760600-191011-WWDR1.5RUA'),
                                     ('read', '/equiv6/IMG-ALOS2290760600-191011-WWDR1.5RUA', (720,), {}, 0),
                                     ('read', '/equiv6/IMG-ALOS2290760600-191011-WWDR1.5RUA', (194,), {}, 720),
                                     ('exit', '/equiv6/IMG-ALOS2290760600-191011-WWDR1.5RUA', None)],
                                    [], ('ndarray', 'uint16', (1, 1), '[[0]]')),
 'open/nopol/rpc2/use_cache=False': ('ok',
                                     ('3b859a0d61d7fa82ba84c26ecf36903c810c84411c0cad2ac16458e876082b89', '', None, 26,
                                      "{'sar_image_data_record_index': 1, 'sensor_parameters_update_flag': 0, 'sar_channel_id': 'dual_polarization', "
                                      "'sar_channel_code': 'L', 'transmitted_pulse_polarization': 'horizontal', 'received_pulse_polarization': "
                                      "'horizontal', 'scan_id': 3, 'geographic_reference_parameter_update_flag': 0, 'interleaving_id': 'BSQ', "
                                      "'valid_range': [0, 65535], 'coordinates': ['rows', 'sensor_acquisition_date', 'prf', "
                                      "'slant_range_to_first_pixel', 'slant_range_to_mid_pixel', 'slant_range_to_last_pixel', "
                                      "'doppler_centroid_value_at_first_pixel', 'doppler_centroid_value_at_mid_pixel', "
                                      "'doppler_centroid_value_at_last_pixel', 'azimuth_fm_rate_of_first_pixel', 'azimuth_fm_rate_of_mid_pixel', "
                                      "'azimuth_fm_rate_of_last_pixel', 'look_angle_of_nadir', 'azimuth_squint_angle', 'latitude_of_first_pixel', "
                                      "'latitude_of_center_pixel', 'latitude_of_last_pixel', 'longitude_of_first_pixel', "
                                      "'longitude_of_center_pixel', 'longitude_of_last_pixel', 'northing_of_first_pixel', 'northing_of_last_pixel', "
                                      "'easting_of_first_pixel', 'easting_of_last_pixel', 'line_heading']}",
                                      "['rows', 'columns']",
                                      ('Array', 'DirFileSystem', '/equiv6', 'LoggingMemoryFileSystem', 'IMG-ALOS2290760600-191011-WWDR1.5RUA',
                                       ('list', [('tuple', [('int', '912'), ('int', '914')])]), ('tuple', [('int', '1'), ('int', '1')]),
                                       ('str', "'uint16'"), 'IU2', ('int', '1'),
                                       ('dict', [(0, ('dict', [('offset', ('int', '912')), ('size', ('int', '2'))]))]))),
                                     [('fs.open', '/equiv6/IMG-ALOS2290760600-191011-WWDR1.5RUA', (), {'mode': 'rb'}), ('fs.isfile', '/equiv6'),
                                      ('fs.isfile', '/'), ('enter', '/equiv6/IMG-ALOS2290760600-191011-WWDR1.5RUA'),
                                      ('read', '/equiv6/IMG-ALOS2290760600-191011-WWDR1.5RUA', (720,), {}, 0),
                                      ('read', '/equiv6/IMG-ALOS2290760600-191011-WWDR1.5RUA', (194,), {}, 720),
                                      ('exit', '/equiv6/IMG-ALOS2290760600-191011-WWDR1.5RUA', None)],
                                     [], ('ndarray', 'uint16', (1, 1), '[[0]]')),
 'open/nopol/rpc2/use_cache=True': ('ok',
                                    ('3b859a0d61d7fa82ba84c26ecf36903c810c84411c0cad2ac16458e876082b89', '', None, 26,
                                     "{'sar_image_data_record_index': 1, 'sensor_parameters_update_flag': 0, 'sar_channel_id': 'dual_polarization', "
                                     "'sar_channel_code': 'L', 'transmitted_pulse_polarization': 'horizontal', 'received_pulse_polarization': "
                                     "'horizontal', 'scan_id': 3, 'geographic_reference_parameter_update_flag': 0, 'interleaving_id': 'BSQ', "
                                     "'valid_range': [0, 65535], 'coordinates': ['rows', 'sensor_acquisition_date', 'prf', "
                                     "'slant_range_to_first_pixel', 'slant_range_to_mid_pixel', 'slant_range_to_last_pixel', "
                                     "'doppler_centroid_value_at_first_pixel', 'doppler_centroid_value_at_mid_pixel', "
                                     "'doppler_centroid_value_at_last_pixel', 'azimuth_fm_rate_of_first_pixel', 'azimuth_fm_rate_of_mid_pixel', "
                                     "'azimuth_fm_rate_of_last_pixel', 'look_angle_of_nadir', 'azimuth_squint_angle', 'latitude_of_first_pixel', "
                                     "'latitude_of_center_pixel', 'latitude_of_last_pixel', 'longitude_of_first_pixel', 'longitude_of_center_pixel', "
                                     "'longitude_of_last_pixel', 'northing_of_first_pixel', 'northing_of_last_pixel', 'easting_of_first_pixel', "
                                     "'easting_of_last_pixel', 'line_heading']}",
                                     "['rows', 'columns']",
                                     ('Array', 'DirFileSystem', '/equiv6', 'LoggingMemoryFileSystem', 'IMG-ALOS2290760600-191011-WWDR1.5RUA',
                                      ('list', [('tuple', [('int', '912'), ('int', '914')])]), ('tuple', [('int', '1'), ('int', '1')]),
                                      ('str', "'uint16'"), 'IU2', ('int', '1'),
                                      ('dict', [(0, ('dict', [('offset', ('int', '912')), ('size', ('int', '2'))]))]))),
                                    [('fs.isfile', '/equiv6/IMG-ALOS2290760600-191011-WWDR1.5RUA.index'),
                                     ('fs.open', '/equiv6/IMG-ALOS2290760600-191011-WWDR1.5RUA', (), {'mode': 'rb'}), ('fs.isfile', '/equiv6'),
                                     ('fs.isfile', '/'), ('enter', '/equiv6/IMG-ALOS2290760600-191011-WWDR1.5RUA'),
                                     ('read', '/equiv6/IMG-ALOS2290760600-191011-WWDR1.5RUA', (720,), {}, 0),
                                     ('read', '/equiv6/IMG-ALOS2290760600-191011-WWDR1.5RUA', (194,), {}, 720),
                                     ('exit', '/equiv6/IMG-ALOS2290760600-191011-WWDR1.5RUA', None)],
                                    [], ('ndarray', 'uint16', (1, 1), '[[0]]')),
 'open/nopol/rpc1024/use_cache=False': ('ok',
                                        ('3b859a0d61d7fa82ba84c26ecf36903c810c84411c0cad2ac16458e876082b89', '', None, 26,
                                         "{'sar_image_data_record_index': 1, 'sensor_parameters_update_flag': 0, 'sar_channel_id': "
                                         "'dual_polarization', 'sar_channel_code': 'L', 'transmitted_pulse_polarization': 'horizontal', "
                                         "'received_pulse_polarization': 'horizontal', 'scan_id': 3, 'geographic_reference_parameter_update_flag': "
                                         "0, 'interleaving_id': 'BSQ', 'valid_range': [0, 65535], 'coordinates': ['rows', 'sensor_acquisition_date', "
                                         "'prf', 'slant_range_to_first_pixel', 'slant_range_to_mid_pixel', 'slant_range_to_last_pixel', "
                                         "'doppler_centroid_value_at_first_pixel', 'doppler_centroid_value_at_mid_pixel', "
                                         "'doppler_centroid_value_at_last_pixel', 'azimuth_fm_rate_of_first_pixel', 'azimuth_fm_rate_of_mid_pixel', "
                                         "'azimuth_fm_rate_of_last_pixel', 'look_angle_of_nadir', 'azimuth_squint_angle', 'latitude_of_first_pixel', "
                                         "'latitude_of_center_pixel', 'latitude_of_last_pixel', 'longitude_of_first_pixel', "
                                         "'longitude_of_center_pixel', 'longitude_of_last_pixel', 'northing_of_first_pixel', "
                                         "'northing_of_last_pixel', 'easting_of_first_pixel', 'easting_of_last_pixel', 'line_heading']}",
                                         "['rows', 'columns']",
                                         ('Array', 'DirFileSystem', '/equiv6', 'LoggingMemoryFileSystem', 'IMG-ALOS2290760600-191011-WWDR1.5RUA',
                                          ('list', [('tuple', [('int', '912'), ('int', '914')])]), ('tuple', [('int', '1'), ('int', '1')]),
                                          ('str', "'uint16'"), 'IU2', ('int', '1'),
                                          ('dict', [(0, ('dict', [('offset', ('int', '912')), ('size', ('int', '2'))]))]))),
                                        [('fs.open', '/equiv6/IMG-ALOS2290760600-191011-WWDR1.5RUA', (), {'mode': 'rb'}), ('fs.isfile', '/equiv6'),
                                         ('fs.isfile', '/'), ('enter', '/equiv6/IMG-ALOS2290760600-191011-WWDR1.5RUA'),
                                         ('read', '/equiv6/IMG-ALOS2290760600-191011-WWDR1.5RUA', (720,), {}, 0),
                                         ('read', '/equiv6/IMG-ALOS2290760600-191011-WWDR1.5RUA', (194,), {}, 720),
                                         ('exit', '/equiv6/IMG-ALOS2290760600-191011-WWDR1.5RUA', None)],
                                        [], ('ndarray', 'uint16', (1, 1), '[[0]]')),
 'open/nopol/rpc1024/use_cache=True': ('ok',
                                       ('3b859a0d61d7fa82ba84c26ecf36903c810c84411c0cad2ac16458e876082b89', '', None, 26,
                                        "{'sar_image_data_record_index': 1, 'sensor_parameters_update_flag': 0, 'sar_channel_id': "
                                        "'dual_polarization', 'sar_channel_code': 'L', 'transmitted_pulse_polarization': 'horizontal', "
                                        "'received_pulse_polarization': 'horizontal', 'scan_id': 3, 'geographic_reference_parameter_update_flag': 0, "
                                        "'interleaving_id': 'BSQ', 'valid_range': [0, 65535], 'coordinates': ['rows', 'sensor_acquisition_date', "
                                        "'prf', 'slant_range_to_first_pixel', 'slant_range_to_mid_pixel', 'slant_range_to_last_pixel', "
                                        "'doppler_centroid_value_at_first_pixel', 'doppler_centroid_value_at_mid_pixel', "
                                        "'doppler_centroid_value_at_last_pixel', 'azimuth_fm_rate_of_first_pixel', 'azimuth_fm_rate_of_mid_pixel', "
                                        "'azimuth_fm_rate_of_last_pixel', 'look_angle_of_nadir', 'azimuth_squint_angle', 'latitude_of_first_pixel', "
                                        "'latitude_of_center_pixel', 'latitude_of_last_pixel', 'longitude_of_first_pixel', "
                                        "'longitude_of_center_pixel', 'longitude_of_last_pixel', 'northing_of_first_pixel', "
                                        "'northing_of_last_pixel', 'easting_of_first_pixel', 'easting_of_last_pixel', 'line_heading']}",
                                        "['rows', 'columns']",
                                        ('Array', 'DirFileSystem', '/equiv6', 'LoggingMemoryFileSystem', 'IMG-ALOS2290760600-191011-WWDR1.5RUA',
                                         ('list', [('tuple', [('int', '912'), ('int', '914')])]), ('tuple', [('int', '1'), ('int', '1')]),
                                         ('str', "'uint16'"), 'IU2', ('int', '1'),
                                         ('dict', [(0, ('dict', [('offset', ('int', '912')), ('size', ('int', '2'))]))]))),
                                       [('fs.isfile', '/equiv6/IMG-ALOS2290760600-191011-WWDR1.5RUA.index'),
                                        ('fs.open', '/equiv6/IMG-ALOS2290760600-191011-WWDR1.5RUA', (), {'mode': 'rb'}), ('fs.isfile', '/equiv6'),
                                        ('fs.isfile', '/'), ('enter', '/equiv6/IMG-ALOS2290760600-191011-WWDR1.5RUA'),
                                        ('read', '/equiv6/IMG-ALOS2290760600-191011-WWDR1.5RUA', (720,), {}, 0),
                                        ('read', '/equiv6/IMG-ALOS2290760600-191011-WWDR1.5RUA', (194,), {}, 720),
                                        ('exit', '/equiv6/IMG-ALOS2290760600-191011-WWDR1.5RUA', None)],
                                       [], ('ndarray', 'uint16', (1, 1), '[[0]]')),
 'open/defaults': ('raises', 'TypeError', "unsupported operand type(s) for /: 'int' and 'NoneType'",
                   [('fs.isfile', '/equiv6/IMG-HV-ALOS2290760600-191011-WWDR1.5RUA.index'),
                    ('fs.open', '/equiv6/IMG-HV-ALOS2290760600-191011-WWDR1.5RUA', (), {'mode': 'rb'}), ('fs.isfile', '/equiv6'), ('fs.isfile', '/'),
                    ('enter', '/equiv6/IMG-HV-ALOS2290760600-191011-WWDR1.5RUA'),
                    ('read', '/equiv6/IMG-HV-ALOS2290760600-191011-WWDR1.5RUA', (720,), {}, 0),
                    ('exit', '/equiv6/IMG-HV-ALOS2290760600-191011-WWDR1.5RUA', 'TypeError')],
                   []),
 'open/defaults-no-cache': ('raises', 'TypeError', "unsupported operand type(s) for /: 'int' and 'NoneType'",
                            [('fs.open', '/equiv6/IMG-HV-ALOS2290760600-191011-WWDR1.5RUA', (), {'mode': 'rb'}), ('fs.isfile', '/equiv6'),
                             ('fs.isfile', '/'), ('enter', '/equiv6/IMG-HV-ALOS2290760600-191011-WWDR1.5RUA'),
                             ('read', '/equiv6/IMG-HV-ALOS2290760600-191011-WWDR1.5RUA', (720,), {}, 0),
                             ('exit', '/equiv6/IMG-HV-ALOS2290760600-191011-WWDR1.5RUA', 'TypeError')],
                            []),
 'open/rpc-none-create': ('raises', 'TypeError', "unsupported operand type(s) for /: 'int' and 'NoneType'",
                          [('fs.open', '/equiv6/IMG-HV-ALOS2290760600-191011-WWDR1.5RUA', (), {'mode': 'rb'}), ('fs.isfile', '/equiv6'),
                           ('fs.isfile', '/'), ('enter', '/equiv6/IMG-HV-ALOS2290760600-191011-WWDR1.5RUA'),
                           ('read', '/equiv6/IMG-HV-ALOS2290760600-191011-WWDR1.5RUA', (720,), {}, 0),
                           ('exit', '/equiv6/IMG-HV-ALOS2290760600-191011-WWDR1.5RUA', 'TypeError')],
                          []),
 'open/rpc-zero': ('raises', 'ZeroDivisionError', 'division by zero',
                   [('fs.open', '/equiv6/IMG-HV-ALOS2290760600-191011-WWDR1.5RUA', (), {'mode': 'rb'}), ('fs.isfile', '/equiv6'), ('fs.isfile', '/'),
                    ('enter', '/equiv6/IMG-HV-ALOS2290760600-191011-WWDR1.5RUA'),
                    ('read', '/equiv6/IMG-HV-ALOS2290760600-191011-WWDR1.5RUA', (720,), {}, 0),
                    ('exit', '/equiv6/IMG-HV-ALOS2290760600-191011-WWDR1.5RUA', 'ZeroDivisionError')],
                   []),
 'open/rpc-str': ('raises', 'TypeError', "unsupported operand type(s) for /: 'int' and 'str'",
                  [('fs.open', '/equiv6/IMG-HV-ALOS2290760600-191011-WWDR1.5RUA', (), {'mode': 'rb'}), ('fs.isfile', '/equiv6'), ('fs.isfile', '/'),
                   ('enter', '/equiv6/IMG-HV-ALOS2290760600-191011-WWDR1.5RUA'),
                   ('read', '/equiv6/IMG-HV-ALOS2290760600-191011-WWDR1.5RUA', (720,), {}, 0),
                   ('exit', '/equiv6/IMG-HV-ALOS2290760600-191011-WWDR1.5RUA', 'TypeError')],
                  []),
 'open/empty-image': ('ok',
                      ('280ed11432245af7f0e2e1a1a10fdd6e54aae609f93c052607eaf57f27c39f87', 'VV_scan1', None, 1,
                       "{'interleaving_id': 'BSQ', 'valid_range': [0, 65535], 'coordinates': []}", "['rows', 'columns']",
                       ('Array', 'DirFileSystem', '/equiv6', 'LoggingMemoryFileSystem', 'IMG-VV-ALOS2290760600-191011-WWDR1.5RUA-F1', ('list', []),
                        ('tuple', [('int', '0'), ('int', '4')]), ('str', "'uint16'"), 'IU2', ('int', '0'), ('dict', []))),
                      [('fs.open', '/equiv6/IMG-VV-ALOS2290760600-191011-WWDR1.5RUA-F1', (), {'mode': 'rb'}), ('fs.isfile', '/equiv6'),
                       ('fs.isfile', '/'), ('enter', '/equiv6/IMG-VV-ALOS2290760600-191011-WWDR1.5RUA-F1'),
                       ('read', '/equiv6/IMG-VV-ALOS2290760600-191011-WWDR1.5RUA-F1', (720,), {}, 0),
                       ('exit', '/equiv6/IMG-VV-ALOS2290760600-191011-WWDR1.5RUA-F1', None)],
                      [], ('ndarray', 'uint16', (0, 4), '[]')),
 'open/missing-file': ('raises', 'FileNotFoundError', '/equiv6/IMG-VV-ALOS2290760600-191011-WWDR1.5RUA',
                       [('fs.isfile', '/equiv6/IMG-VV-ALOS2290760600-191011-WWDR1.5RUA.index'),
                        ('fs.open', '/equiv6/IMG-VV-ALOS2290760600-191011-WWDR1.5RUA', (), {'mode': 'rb'}), ('fs.isfile', '/equiv6'),
                        ('fs.isfile', '/')],
                       []),
 'open/bad-name': ('raises', 'ValueError', 'invalid file name: not-an-image-name',
                   [('fs.isfile', '/equiv6/not-an-image-name.index'), ('fs.open', '/equiv6/not-an-image-name', (), {'mode': 'rb'}),
                    ('fs.isfile', '/equiv6'), ('fs.isfile', '/'), ('enter', '/equiv6/not-an-image-name'),
                    ('read', '/equiv6/not-an-image-name', (720,), {}, 0), ('read', '/equiv6/not-an-image-name', (400,), {}, 720),
                    ('exit', '/equiv6/not-an-image-name', None)],
                   []),
 'open/bad-name-no-cache': ('raises', 'ValueError', 'invalid file name: not-an-image-name',
                            [('fs.open', '/equiv6/not-an-image-name', (), {'mode': 'rb'}), ('fs.isfile', '/equiv6'), ('fs.isfile', '/'),
                             ('enter', '/equiv6/not-an-image-name'), ('read', '/equiv6/not-an-image-name', (720,), {}, 0),
                             ('read', '/equiv6/not-an-image-name', (400,), {}, 720), ('exit', '/equiv6/not-an-image-name', None)],
                            []),
 'open/subdirectory': ('raises', 'ValueError', 'invalid file name: sub/IMG-HV-ALOS2290760600-191011-WWDR1.5RUA',
                       [('fs.isfile', '/equiv6/sub/IMG-HV-ALOS2290760600-191011-WWDR1.5RUA.index'),
                        ('fs.open', '/equiv6/sub/IMG-HV-ALOS2290760600-191011-WWDR1.5RUA', (), {'mode': 'rb'}), ('fs.isfile', '/equiv6/sub'),
                        ('fs.isfile', '/equiv6'), ('fs.isfile', '/'), ('enter', '/equiv6/sub/IMG-HV-ALOS2290760600-191011-WWDR1.5RUA'),
                        ('read', '/equiv6/sub/IMG-HV-ALOS2290760600-191011-WWDR1.5RUA', (720,), {}, 0),
                        ('read', '/equiv6/sub/IMG-HV-ALOS2290760600-191011-WWDR1.5RUA', (400,), {}, 720),
                        ('exit', '/equiv6/sub/IMG-HV-ALOS2290760600-191011-WWDR1.5RUA', None)],
                       []),
 'open/truncated': ('raises', 'ValueError', 'sizes mismatch: chunksize is 0 but got 190 bytes',
                    [('fs.isfile', '/equiv6/IMG-VH-ALOS2290760600-191011-WWDR1.5RUA.index'),
                     ('fs.open', '/equiv6/IMG-VH-ALOS2290760600-191011-WWDR1.5RUA', (), {'mode': 'rb'}), ('fs.isfile', '/equiv6'), ('fs.isfile', '/'),
                     ('enter', '/equiv6/IMG-VH-ALOS2290760600-191011-WWDR1.5RUA'),
                     ('read', '/equiv6/IMG-VH-ALOS2290760600-191011-WWDR1.5RUA', (720,), {}, 0),
                     ('read', '/equiv6/IMG-VH-ALOS2290760600-191011-WWDR1.5RUA', (200,), {}, 720),
                     ('read', '/equiv6/IMG-VH-ALOS2290760600-191011-WWDR1.5RUA', (200,), {}, 920),
                     ('exit', '/equiv6/IMG-VH-ALOS2290760600-191011-WWDR1.5RUA', 'ValueError')],
                    []),
 'open/unknown-type-code': ('raises', 'ValueError', 'unknown type code: F*4',
                            [('fs.isfile', '/equiv6/IMG-HH-ALOS2290760600-191011-WWDR1.5RUA.index'),
                             ('fs.open', '/equiv6/IMG-HH-ALOS2290760600-191011-WWDR1.5RUA', (), {'mode': 'rb'}), ('fs.isfile', '/equiv6'),
                             ('fs.isfile', '/'), ('enter', '/equiv6/IMG-HH-ALOS2290760600-191011-WWDR1.5RUA'),
                             ('read', '/equiv6/IMG-HH-ALOS2290760600-191011-WWDR1.5RUA', (720,), {}, 0),
                             ('read', '/equiv6/IMG-HH-ALOS2290760600-191011-WWDR1.5RUA', (448,), {}, 720),
                             ('exit', '/equiv6/IMG-HH-ALOS2290760600-191011-WWDR1.5RUA', 'ValueError')],
                            []),
 'create/scansar/use_cache=False': ('ok',
                                    ('acc09acb076d8ccae9b9a81a31086c400204bd5c2cab7472040deb91779f906b', 'HH_scan3', None, 26,
                                     "{'sar_image_data_record_index': 1, 'sensor_parameters_update_flag': 0, 'sar_channel_id': 'dual_polarization', "
                                     "'sar_channel_code': 'L', 'transmitted_pulse_polarization': 'horizontal', 'received_pulse_polarization': "
                                     "'horizontal', 'scan_id': 3, 'geographic_reference_parameter_update_flag': 0, 'interleaving_id': 'BSQ', "
                                     "'coordinates': ['rows', 'sensor_acquisition_date', 'prf', 'slant_range_to_first_pixel', "
                                     "'slant_range_to_mid_pixel', 'slant_range_to_last_pixel', 'doppler_centroid_value_at_first_pixel', "
                                     "'doppler_centroid_value_at_mid_pixel', 'doppler_centroid_value_at_last_pixel', "
                                     "'azimuth_fm_rate_of_first_pixel', 'azimuth_fm_rate_of_mid_pixel', 'azimuth_fm_rate_of_last_pixel', "
                                     "'look_angle_of_nadir', 'azimuth_squint_angle', 'latitude_of_first_pixel', 'latitude_of_center_pixel', "
                                     "'latitude_of_last_pixel', 'longitude_of_first_pixel', 'longitude_of_center_pixel', 'longitude_of_last_pixel', "
                                     "'northing_of_first_pixel', 'northing_of_last_pixel', 'easting_of_first_pixel', 'easting_of_last_pixel', "
                                     "'line_heading']}",
                                     "['rows', 'columns']",
                                     ('Array', 'DirFileSystem', '/equiv6', 'LoggingMemoryFileSystem', 'IMG-HH-ALOS2225333100-180726-WWDR1.1__D-B3',
                                      ('list',
                                       [('tuple', [('int', '912'), ('int', '928')]), ('tuple', [('int', '1120'), ('int', '1136')]),
                                        ('tuple', [('int', '1328'), ('int', '1344')]), ('tuple', [('int', '1536'), ('int', '1552')]),
                                        ('tuple', [('int', '1744'), ('int', '1760')])]),
                                      ('tuple', [('int', '5'), ('int', '2')]), ('str', "'complex64'"), 'C*8', ('int', '2'),
                                      ('dict',
                                       [(0, ('dict', [('offset', ('int', '912')), ('size', ('int', '224'))])),
                                        (1, ('dict', [('offset', ('int', '1328')), ('size', ('int', '224'))])),
                                        (2, ('dict', [('offset', ('int', '1744')), ('size', ('int', '16'))]))]))),
                                    [('fs.open', '/equiv6/IMG-HH-ALOS2225333100-180726-WWDR1.1__D-B3', (), {'mode': 'rb'}), ('fs.isfile', '/equiv6'),
                                     ('fs.isfile', '/'), ('enter', '/equiv6/IMG-HH-ALOS2225333100-180726-WWDR1.1__D-B3'),
                                     ('read', '/equiv6/IMG-HH-ALOS2225333100-180726-WWDR1.1__D-B3', (720,), {}, 0),
                                     ('read', '/equiv6/IMG-HH-ALOS2225333100-180726-WWDR1.1__D-B3', (416,), {}, 720),
                                     ('read', '/equiv6/IMG-HH-ALOS2225333100-180726-WWDR1.1__D-B3', (416,), {}, 1136),
                                     ('read', '/equiv6/IMG-HH-ALOS2225333100-180726-WWDR1.1__D-B3', (208,), {}, 1552),
                                     ('exit', '/equiv6/IMG-HH-ALOS2225333100-180726-WWDR1.1__D-B3', None)],
                                    [('f09b5d1ef50a4bf4859cb8bec5a929ea0f5aba47aa46afbb95b3e07ca7c1a017/IMG-HH-ALOS2225333100-180726-WWDR1.1__D-B3.index',
                                      6507, '350bcece5bac2f68519b368aa7e1918c7dddd50f90ed7075bbe6384b44b3f20d')],
                                    ('ndarray', 'complex64', (5, 2),
                                     '[[1j, (2+3j)], [(4+5j), (6+7j)], [(8+9j), (10+11j)], [(12+13j), (14+15j)], [(16+17j), (18+19j)]]')),
 'create/scansar/use_cache=True': ('ok',
                                   ('acc09acb076d8ccae9b9a81a31086c400204bd5c2cab7472040deb91779f906b', 'HH_scan3', None, 26,
                                    "{'sar_image_data_record_index': 1, 'sensor_parameters_update_flag': 0, 'sar_channel_id': 'dual_polarization', "
                                    "'sar_channel_code': 'L', 'transmitted_pulse_polarization': 'horizontal', 'received_pulse_polarization': "
                                    "'horizontal', 'scan_id': 3, 'geographic_reference_parameter_update_flag': 0, 'interleaving_id': 'BSQ', "
                                    "'coordinates': ['rows', 'sensor_acquisition_date', 'prf', 'slant_range_to_first_pixel', "
                                    "'slant_range_to_mid_pixel', 'slant_range_to_last_pixel', 'doppler_centroid_value_at_first_pixel', "
                                    "'doppler_centroid_value_at_mid_pixel', 'doppler_centroid_value_at_last_pixel', "
                                    "'azimuth_fm_rate_of_first_pixel', 'azimuth_fm_rate_of_mid_pixel', 'azimuth_fm_rate_of_last_pixel', "
                                    "'look_angle_of_nadir', 'azimuth_squint_angle', 'latitude_of_first_pixel', 'latitude_of_center_pixel', "
                                    "'latitude_of_last_pixel', 'longitude_of_first_pixel', 'longitude_of_center_pixel', 'longitude_of_last_pixel', "
                                    "'northing_of_first_pixel', 'northing_of_last_pixel', 'easting_of_first_pixel', 'easting_of_last_pixel', "
                                    "'line_heading']}",
                                    "['rows', 'columns']",
                                    ('Array', 'DirFileSystem', '/equiv6', 'LoggingMemoryFileSystem', 'IMG-HH-ALOS2225333100-180726-WWDR1.1__D-B3',
                                     ('list',
                                      [('tuple', [('int', '912'), ('int', '928')]), ('tuple', [('int', '1120'), ('int', '1136')]),
                                       ('tuple', [('int', '1328'), ('int', '1344')]), ('tuple', [('int', '1536'), ('int', '1552')]),
                                       ('tuple', [('int', '1744'), ('int', '1760')])]),
                                     ('tuple', [('int', '5'), ('int', '2')]), ('str', "'complex64'"), 'C*8', ('int', '2'),
                                     ('dict',
                                      [(0, ('dict', [('offset', ('int', '912')), ('size', ('int', '224'))])),
                                       (1, ('dict', [('offset', ('int', '1328')), ('size', ('int', '224'))])),
                                       (2, ('dict', [('offset', ('int', '1744')), ('size', ('int', '16'))]))]))),
                                   [('fs.isfile', '/equiv6/IMG-HH-ALOS2225333100-180726-WWDR1.1__D-B3.index'),
                                    ('fs.open', '/equiv6/IMG-HH-ALOS2225333100-180726-WWDR1.1__D-B3', (), {'mode': 'rb'}), ('fs.isfile', '/equiv6'),
                                    ('fs.isfile', '/'), ('enter', '/equiv6/IMG-HH-ALOS2225333100-180726-WWDR1.1__D-B3'),
                                    ('read', '/equiv6/IMG-HH-ALOS2225333100-180726-WWDR1.1__D-B3', (720,), {}, 0),
                                    ('read', '/equiv6/IMG-HH-ALOS2225333100-180726-WWDR1.1__D-B3', (416,), {}, 720),
                                    ('read', '/equiv6/IMG-HH-ALOS2225333100-180726-WWDR1.1__D-B3', (416,), {}, 1136),
                                    ('read', '/equiv6/IMG-HH-ALOS2225333100-180726-WWDR1.1__D-B3', (208,), {}, 1552),
                                    ('exit', '/equiv6/IMG-HH-ALOS2225333100-180726-WWDR1.1__D-B3', None)],
                                   [('f09b5d1ef50a4bf4859cb8bec5a929ea0f5aba47aa46afbb95b3e07ca7c1a017/IMG-HH-ALOS2225333100-180726-WWDR1.1__D-B3.index',
                                     6507, '350bcece5bac2f68519b368aa7e1918c7dddd50f90ed7075bbe6384b44b3f20d')],
                                   ('ndarray', 'complex64', (5, 2),
                                    '[[1j, (2+3j)], [(4+5j), (6+7j)], [(8+9j), (10+11j)], [(12+13j), (14+15j)], [(16+17j), (18+19j)]]')),
 'create/stripmap/use_cache=False': ('ok',
                                     ('4fc396169214bd3e584ba84631f01a70e9fc32374364ee026f6d503737149e28', 'HV', None, 26,
                                      "{'sar_image_data_record_index': 1, 'sensor_parameters_update_flag': 0, 'sar_channel_id': 'dual_polarization', "
                                      "'sar_channel_code': 'L', 'transmitted_pulse_polarization': 'horizontal', 'received_pulse_polarization': "
                                      "'horizontal', 'scan_id': 3, 'geographic_reference_parameter_update_flag': 0, 'interleaving_id': 'BSQ', "
                                      "'valid_range': [0, 65535], 'coordinates': ['rows', 'sensor_acquisition_date', 'prf', "
                                      "'slant_range_to_first_pixel', 'slant_range_to_mid_pixel', 'slant_range_to_last_pixel', "
                                      "'doppler_centroid_value_at_first_pixel', 'doppler_centroid_value_at_mid_pixel', "
                                      "'doppler_centroid_value_at_last_pixel', 'azimuth_fm_rate_of_first_pixel', 'azimuth_fm_rate_of_mid_pixel', "
                                      "'azimuth_fm_rate_of_last_pixel', 'look_angle_of_nadir', 'azimuth_squint_angle', 'latitude_of_first_pixel', "
                                      "'latitude_of_center_pixel', 'latitude_of_last_pixel', 'longitude_of_first_pixel', "
                                      "'longitude_of_center_pixel', 'longitude_of_last_pixel', 'northing_of_first_pixel', 'northing_of_last_pixel', "
                                      "'easting_of_first_pixel', 'easting_of_last_pixel', 'line_heading']}",
                                      "['rows', 'columns']",
                                      ('Array', 'DirFileSystem', '/equiv6', 'LoggingMemoryFileSystem', 'IMG-HV-ALOS2290760600-191011-WWDR1.5RUA',
                                       ('list',
                                        [('tuple', [('int', '912'), ('int', '920')]), ('tuple', [('int', '1112'), ('int', '1120')]),
                                         ('tuple', [('int', '1312'), ('int', '1320')])]),
                                       ('tuple', [('int', '3'), ('int', '4')]), ('str', "'uint16'"), 'IU2', ('int', '2'),
                                       ('dict',
                                        [(0, ('dict', [('offset', ('int', '912')), ('size', ('int', '208'))])),
                                         (1, ('dict', [('offset', ('int', '1312')), ('size', ('int', '8'))]))]))),
                                     [('fs.open', '/equiv6/IMG-HV-ALOS2290760600-191011-WWDR1.5RUA', (), {'mode': 'rb'}), ('fs.isfile', '/equiv6'),
                                      ('fs.isfile', '/'), ('enter', '/equiv6/IMG-HV-ALOS2290760600-191011-WWDR1.5RUA'),
                                      ('read', '/equiv6/IMG-HV-ALOS2290760600-191011-WWDR1.5RUA', (720,), {}, 0),
                                      ('read', '/equiv6/IMG-HV-ALOS2290760600-191011-WWDR1.5RUA', (400,), {}, 720),
                                      ('read', '/equiv6/IMG-HV-ALOS2290760600-191011-WWDR1.5RUA', (200,), {}, 1120),
                                      ('exit', '/equiv6/IMG-HV-ALOS2290760600-191011-WWDR1.5RUA', None)],
                                     [('f09b5d1ef50a4bf4859cb8bec5a929ea0f5aba47aa46afbb95b3e07ca7c1a017/IMG-HV-ALOS2290760600-191011-WWDR1.5RUA.index',
                                       6222, 'a7d58c1a71497a0637ebba270aadfc5d792dfb1526f15d85c8bcb76db29b7685')],
                                     ('ndarray', 'uint16', (3, 4), '[[0, 1, 2, 3], [4, 5, 6, 7], [8, 9, 10, 11]]')),
 'create/stripmap/use_cache=True': ('ok',
                                    ('4fc396169214bd3e584ba84631f01a70e9fc32374364ee026f6d503737149e28', 'HV', None, 26,
                                     "{'sar_image_data_record_index': 1, 'sensor_parameters_update_flag': 0, 'sar_channel_id': 'dual_polarization', "
                                     "'sar_channel_code': 'L', 'transmitted_pulse_polarization': 'horizontal', 'received_pulse_polarization': "
                                     "'horizontal', 'scan_id': 3, 'geographic_reference_parameter_update_flag': 0, 'interleaving_id': 'BSQ', "
                                     "'valid_range': [0, 65535], 'coordinates': ['rows', 'sensor_acquisition_date', 'prf', "
                                     "'slant_range_to_first_pixel', 'slant_range_to_mid_pixel', 'slant_range_to_last_pixel', "
                                     "'doppler_centroid_value_at_first_pixel', 'doppler_centroid_value_at_mid_pixel', "
                                     "'doppler_centroid_value_at_last_pixel', 'azimuth_fm_rate_of_first_pixel', 'azimuth_fm_rate_of_mid_pixel', "
                                     "'azimuth_fm_rate_of_last_pixel', 'look_angle_of_nadir', 'azimuth_squint_angle', 'latitude_of_first_pixel', "
                                     "'latitude_of_center_pixel', 'latitude_of_last_pixel', 'longitude_of_first_pixel', 'longitude_of_center_pixel', "
                                     "'longitude_of_last_pixel', 'northing_of_first_pixel', 'northing_of_last_pixel', 'easting_of_first_pixel', "
                                     "'easting_of_last_pixel', 'line_heading']}",
                                     "['rows', 'columns']",
                                     ('Array', 'DirFileSystem', '/equiv6', 'LoggingMemoryFileSystem', 'IMG-HV-ALOS2290760600-191011-WWDR1.5RUA',
                                      ('list',
                                       [('tuple', [('int', '912'), ('int', '920')]), ('tuple', [('int', '1112'), ('int', '1120')]),
                                        ('tuple', [('int', '1312'), ('int', '1320')])]),
                                      ('tuple', [('int', '3'), ('int', '4')]), ('str', "'uint16'"), 'IU2', ('int', '2'),
                                      ('dict',
                                       [(0, ('dict', [('offset', ('int', '912')), ('size', ('int', '208'))])),
                                        (1, ('dict', [('offset', ('int', '1312')), ('size', ('int', '8'))]))]))),
                                    [('fs.isfile', '/equiv6/IMG-HV-ALOS2290760600-191011-WWDR1.5RUA.index'),
                                     ('fs.open', '/equiv6/IMG-HV-ALOS2290760600-191011-WWDR1.5RUA', (), {'mode': 'rb'}), ('fs.isfile', '/equiv6'),
                                     ('fs.isfile', '/'), ('enter', '/equiv6/IMG-HV-ALOS2290760600-191011-WWDR1.5RUA'),
                                     ('read', '/equiv6/IMG-HV-ALOS2290760600-191011-WWDR1.5RUA', (720,), {}, 0),
                                     ('read', '/equiv6/IMG-HV-ALOS2290760600-191011-WWDR1.5RUA', (400,), {}, 720),
                                     ('read', '/equiv6/IMG-HV-ALOS2290760600-191011-WWDR1.5RUA', (200,), {}, 1120),
                                     ('exit', '/equiv6/IMG-HV-ALOS2290760600-191011-WWDR1.5RUA', None)],
                                    [('f09b5d1ef50a4bf4859cb8bec5a929ea0f5aba47aa46afbb95b3e07ca7c1a017/IMG-HV-ALOS2290760600-191011-WWDR1.5RUA.index',
                                      6222, 'a7d58c1a71497a0637ebba270aadfc5d792dfb1526f15d85c8bcb76db29b7685')],
                                    ('ndarray', 'uint16', (3, 4), '[[0, 1, 2, 3], [4, 5, 6, 7], [8, 9, 10, 11]]')),
 'create/truthy-flag': ('ok',
                        ('3b859a0d61d7fa82ba84c26ecf36903c810c84411c0cad2ac16458e876082b89', '', None, 26,
                         "{'sar_image_data_record_index': 1, 'sensor_parameters_update_flag': 0, 'sar_channel_id': 'dual_polarization', "
                         "'sar_channel_code': 'L', 'transmitted_pulse_polarization': 'horizontal', 'received_pulse_polarization': 'horizontal', "
                         "'scan_id': 3, 'geographic_reference_parameter_update_flag': 0, 'interleaving_id': 'BSQ', 'valid_range': [0, 65535], "
                         "'coordinates': ['rows', 'sensor_acquisition_date', 'prf', 'slant_range_to_first_pixel', 'slant_range_to_mid_pixel', "
                         "'slant_range_to_last_pixel', 'doppler_centroid_value_at_first_pixel', 'doppler_centroid_value_at_mid_pixel', "
                         "'doppler_centroid_value_at_last_pixel', 'azimuth_fm_rate_of_first_pixel', 'azimuth_fm_rate_of_mid_pixel', "
                         "'azimuth_fm_rate_of_last_pixel', 'look_angle_of_nadir', 'azimuth_squint_angle', 'latitude_of_first_pixel', "
                         "'latitude_of_center_pixel', 'latitude_of_last_pixel', 'longitude_of_first_pixel', 'longitude_of_center_pixel', "
                         "'longitude_of_last_pixel', 'northing_of_first_pixel', 'northing_of_last_pixel', 'easting_of_first_pixel', "
                         "'easting_of_last_pixel', 'line_heading']}",
                         "['rows', 'columns']",
                         ('Array', 'DirFileSystem', '/equiv6', 'LoggingMemoryFileSystem', 'IMG-ALOS2290760600-191011-WWDR1.5RUA',
                          ('list', [('tuple', [('int', '912'), ('int', '914')])]), ('tuple', [('int', '1'), ('int', '1')]), ('str', "'uint16'"),
                          'IU2', ('int', '1'), ('dict', [(0, ('dict', [('offset', ('int', '912')), ('size', ('int', '2'))]))]))),
                        [('fs.open', '/equiv6/IMG-ALOS2290760600-191011-WWDR1.5RUA', (), {'mode': 'rb'}), ('fs.isfile', '/equiv6'),
                         ('fs.isfile', '/'), ('enter', '/equiv6/IMG-ALOS2290760600-191011-WWDR1.5RUA'),
                         ('read', '/equiv6/IMG-ALOS2290760600-191011-WWDR1.5RUA', (720,), {}, 0),
                         ('read', '/equiv6/IMG-ALOS2290760600-191011-WWDR1.5RUA', (194,), {}, 720),
                         ('exit', '/equiv6/IMG-ALOS2290760600-191011-WWDR1.5RUA', None)],
                        [('f09b5d1ef50a4bf4859cb8bec5a929ea0f5aba47aa46afbb95b3e07ca7c1a017/IMG-ALOS2290760600-191011-WWDR1.5RUA.index', 5917,
                          '7d57e4412df2acbc303f114bcb6fdad7d7e8f80bc77985b11c49539a1bb3664a')],
                        ('ndarray', 'uint16', (1, 1), '[[0]]')),
 'create/falsy-flag': ('ok',
                       ('3b859a0d61d7fa82ba84c26ecf36903c810c84411c0cad2ac16458e876082b89', '', None, 26,
                        "{'sar_image_data_record_index': 1, 'sensor_parameters_update_flag': 0, 'sar_channel_id': 'dual_polarization', "
                        "'sar_channel_code': 'L', 'transmitted_pulse_polarization': 'horizontal', 'received_pulse_polarization': 'horizontal', "
                        "'scan_id': 3, 'geographic_reference_parameter_update_flag': 0, 'interleaving_id': 'BSQ', 'valid_range': [0, 65535], "
                        "'coordinates': ['rows', 'sensor_acquisition_date', 'prf', 'slant_range_to_first_pixel', 'slant_range_to_mid_pixel', "
                        "'slant_range_to_last_pixel', 'doppler_centroid_value_at_first_pixel', 'doppler_centroid_value_at_mid_pixel', "
                        "'doppler_centroid_value_at_last_pixel', 'azimuth_fm_rate_of_first_pixel', 'azimuth_fm_rate_of_mid_pixel', "
                        "'azimuth_fm_rate_of_last_pixel', 'look_angle_of_nadir', 'azimuth_squint_angle', 'latitude_of_first_pixel', "
                        "'latitude_of_center_pixel', 'latitude_of_last_pixel', 'longitude_of_first_pixel', 'longitude_of_center_pixel', "
                        "'longitude_of_last_pixel', 'northing_of_first_pixel', 'northing_of_last_pixel', 'easting_of_first_pixel', "
                        "'easting_of_last_pixel', 'line_heading']}",
                        "['rows', 'columns']",
                        ('Array', 'DirFileSystem', '/equiv6', 'LoggingMemoryFileSystem', 'IMG-ALOS2290760600-191011-WWDR1.5RUA',
                         ('list', [('tuple', [('int', '912'), ('int', '914')])]), ('tuple', [('int', '1'), ('int', '1')]), ('str', "'uint16'"), 'IU2',
                         ('int', '1'), ('dict', [(0, ('dict', [('offset', ('int', '912')), ('size', ('int', '2'))]))]))),
                       [('fs.open', '/equiv6/IMG-ALOS2290760600-191011-WWDR1.5RUA', (), {'mode': 'rb'}), ('fs.isfile', '/equiv6'), ('fs.isfile', '/'),
                        ('enter', '/equiv6/IMG-ALOS2290760600-191011-WWDR1.5RUA'),
                        ('read', '/equiv6/IMG-ALOS2290760600-191011-WWDR1.5RUA', (720,), {}, 0),
                        ('read', '/equiv6/IMG-ALOS2290760600-191011-WWDR1.5RUA', (194,), {}, 720),
                        ('exit', '/equiv6/IMG-ALOS2290760600-191011-WWDR1.5RUA', None)],
                       [], ('ndarray', 'uint16', (1, 1), '[[0]]')),
 'cached/local_cache/rpc1': ('ok',
                             ('877f097e7d652a4a8406bb6217ec5cda2649a7144dbca8ad12719ebe15bea69b', 'HV', None, 26,
                              "{'sar_image_data_record_index': 1, 'sensor_parameters_update_flag': 0, 'sar_channel_id': 'dual_polarization', "
                              "'sar_channel_code': 'L', 'transmitted_pulse_polarization': 'horizontal', 'received_pulse_polarization': 'horizontal', "
                              "'scan_id': 3, 'geographic_reference_parameter_update_flag': 0, 'interleaving_id': 'BSQ', 'valid_range': [0, 65535], "
                              "'coordinates': ['rows', 'sensor_acquisition_date', 'prf', 'slant_range_to_first_pixel', 'slant_range_to_mid_pixel', "
                              "'slant_range_to_last_pixel', 'doppler_centroid_value_at_first_pixel', 'doppler_centroid_value_at_mid_pixel', "
                              "'doppler_centroid_value_at_last_pixel', 'azimuth_fm_rate_of_first_pixel', 'azimuth_fm_rate_of_mid_pixel', "
                              "'azimuth_fm_rate_of_last_pixel', 'look_angle_of_nadir', 'azimuth_squint_angle', 'latitude_of_first_pixel', "
                              "'latitude_of_center_pixel', 'latitude_of_last_pixel', 'longitude_of_first_pixel', 'longitude_of_center_pixel', "
                              "'longitude_of_last_pixel', 'northing_of_first_pixel', 'northing_of_last_pixel', 'easting_of_first_pixel', "
                              "'easting_of_last_pixel', 'line_heading']}",
                              "['rows', 'columns']",
                              ('Array', 'DirFileSystem', '/equiv6', 'LocalFileSystem', 'IMG-HV-ALOS2290760600-191011-WWDR1.5RUA',
                               ('list',
                                [('tuple', [('int', '912'), ('int', '920')]), ('tuple', [('int', '1112'), ('int', '1120')]),
                                 ('tuple', [('int', '1312'), ('int', '1320')])]),
                               ('tuple', [('int', '3'), ('int', '4')]), ('str', "'uint16'"), 'IU2', ('int', '1'),
                               ('dict',
                                [(0, ('dict', [('offset', ('int', '912')), ('size', ('int', '8'))])),
                                 (1, ('dict', [('offset', ('int', '1112')), ('size', ('int', '8'))])),
                                 (2, ('dict', [('offset', ('int', '1312')), ('size', ('int', '8'))]))]))),
                             [],
                             [('f09b5d1ef50a4bf4859cb8bec5a929ea0f5aba47aa46afbb95b3e07ca7c1a017/IMG-HV-ALOS2290760600-191011-WWDR1.5RUA.index', 6222,
                               'a7d58c1a71497a0637ebba270aadfc5d792dfb1526f15d85c8bcb76db29b7685')],
                             None),
 'cached/local_cache/rpc2': ('ok',
                             ('f31c6485943690100d2e3e57db9c59251053c87fb41da422b9f92562165d9b11', 'HV', None, 26,
                              "{'sar_image_data_record_index': 1, 'sensor_parameters_update_flag': 0, 'sar_channel_id': 'dual_polarization', "
                              "'sar_channel_code': 'L', 'transmitted_pulse_polarization': 'horizontal', 'received_pulse_polarization': 'horizontal', "
                              "'scan_id': 3, 'geographic_reference_parameter_update_flag': 0, 'interleaving_id': 'BSQ', 'valid_range': [0, 65535], "
                              "'coordinates': ['rows', 'sensor_acquisition_date', 'prf', 'slant_range_to_first_pixel', 'slant_range_to_mid_pixel', "
                              "'slant_range_to_last_pixel', 'doppler_centroid_value_at_first_pixel', 'doppler_centroid_value_at_mid_pixel', "
                              "'doppler_centroid_value_at_last_pixel', 'azimuth_fm_rate_of_first_pixel', 'azimuth_fm_rate_of_mid_pixel', "
                              "'azimuth_fm_rate_of_last_pixel', 'look_angle_of_nadir', 'azimuth_squint_angle', 'latitude_of_first_pixel', "
                              "'latitude_of_center_pixel', 'latitude_of_last_pixel', 'longitude_of_first_pixel', 'longitude_of_center_pixel', "
                              "'longitude_of_last_pixel', 'northing_of_first_pixel', 'northing_of_last_pixel', 'easting_of_first_pixel', "
                              "'easting_of_last_pixel', 'line_heading']}",
                              "['rows', 'columns']",
                              ('Array', 'DirFileSystem', '/equiv6', 'LocalFileSystem', 'IMG-HV-ALOS2290760600-191011-WWDR1.5RUA',
                               ('list',
                                [('tuple', [('int', '912'), ('int', '920')]), ('tuple', [('int', '1112'), ('int', '1120')]),
                                 ('tuple', [('int', '1312'), ('int', '1320')])]),
                               ('tuple', [('int', '3'), ('int', '4')]), ('str', "'uint16'"), 'IU2', ('int', '2'),
                               ('dict',
                                [(0, ('dict', [('offset', ('int', '912')), ('size', ('int', '208'))])),
                                 (1, ('dict', [('offset', ('int', '1312')), ('size', ('int', '8'))]))]))),
                             [],
                             [('f09b5d1ef50a4bf4859cb8bec5a929ea0f5aba47aa46afbb95b3e07ca7c1a017/IMG-HV-ALOS2290760600-191011-WWDR1.5RUA.index', 6222,
                               'a7d58c1a71497a0637ebba270aadfc5d792dfb1526f15d85c8bcb76db29b7685')],
                             None),
 'cached/local_cache/rpcNone': ('ok',
                                ('9f929cda8006d2922a6ff4aec8a6dd634d94c9585b2f7e2fab10eeae08ea422d', 'HV', None, 26,
                                 "{'sar_image_data_record_index': 1, 'sensor_parameters_update_flag': 0, 'sar_channel_id': 'dual_polarization', "
                                 "'sar_channel_code': 'L', 'transmitted_pulse_polarization': 'horizontal', 'received_pulse_polarization': "
                                 "'horizontal', 'scan_id': 3, 'geographic_reference_parameter_update_flag': 0, 'interleaving_id': 'BSQ', "
                                 "'valid_range': [0, 65535], 'coordinates': ['rows', 'sensor_acquisition_date', 'prf', 'slant_range_to_first_pixel', "
                                 "'slant_range_to_mid_pixel', 'slant_range_to_last_pixel', 'doppler_centroid_value_at_first_pixel', "
                                 "'doppler_centroid_value_at_mid_pixel', 'doppler_centroid_value_at_last_pixel', 'azimuth_fm_rate_of_first_pixel', "
                                 "'azimuth_fm_rate_of_mid_pixel', 'azimuth_fm_rate_of_last_pixel', 'look_angle_of_nadir', 'azimuth_squint_angle', "
                                 "'latitude_of_first_pixel', 'latitude_of_center_pixel', 'latitude_of_last_pixel', 'longitude_of_first_pixel', "
                                 "'longitude_of_center_pixel', 'longitude_of_last_pixel', 'northing_of_first_pixel', 'northing_of_last_pixel', "
                                 "'easting_of_first_pixel', 'easting_of_last_pixel', 'line_heading']}",
                                 "['rows', 'columns']",
                                 ('Array', 'DirFileSystem', '/equiv6', 'LocalFileSystem', 'IMG-HV-ALOS2290760600-191011-WWDR1.5RUA',
                                  ('list',
                                   [('tuple', [('int', '912'), ('int', '920')]), ('tuple', [('int', '1112'), ('int', '1120')]),
                                    ('tuple', [('int', '1312'), ('int', '1320')])]),
                                  ('tuple', [('int', '3'), ('int', '4')]), ('str', "'uint16'"), 'IU2', ('int', '1024'),
                                  ('dict', [(0, ('dict', [('offset', ('int', '912')), ('size', ('int', '408'))]))]))),
                                [],
                                [('f09b5d1ef50a4bf4859cb8bec5a929ea0f5aba47aa46afbb95b3e07ca7c1a017/IMG-HV-ALOS2290760600-191011-WWDR1.5RUA.index',
                                  6222, 'a7d58c1a71497a0637ebba270aadfc5d792dfb1526f15d85c8bcb76db29b7685')],
                                None),
 'cached/local_cache/create_cache': ('ok',
                                     ('f31c6485943690100d2e3e57db9c59251053c87fb41da422b9f92562165d9b11', 'HV', None, 26,
                                      "{'sar_image_data_record_index': 1, 'sensor_parameters_update_flag': 0, 'sar_channel_id': 'dual_polarization', "
                                      "'sar_channel_code': 'L', 'transmitted_pulse_polarization': 'horizontal', 'received_pulse_polarization': "
                                      "'horizontal', 'scan_id': 3, 'geographic_reference_parameter_update_flag': 0, 'interleaving_id': 'BSQ', "
                                      "'valid_range': [0, 65535], 'coordinates': ['rows', 'sensor_acquisition_date', 'prf', "
                                      "'slant_range_to_first_pixel', 'slant_range_to_mid_pixel', 'slant_range_to_last_pixel', "
                                      "'doppler_centroid_value_at_first_pixel', 'doppler_centroid_value_at_mid_pixel', "
                                      "'doppler_centroid_value_at_last_pixel', 'azimuth_fm_rate_of_first_pixel', 'azimuth_fm_rate_of_mid_pixel', "
                                      "'azimuth_fm_rate_of_last_pixel', 'look_angle_of_nadir', 'azimuth_squint_angle', 'latitude_of_first_pixel', "
                                      "'latitude_of_center_pixel', 'latitude_of_last_pixel', 'longitude_of_first_pixel', "
                                      "'longitude_of_center_pixel', 'longitude_of_last_pixel', 'northing_of_first_pixel', 'northing_of_last_pixel', "
                                      "'easting_of_first_pixel', 'easting_of_last_pixel', 'line_heading']}",
                                      "['rows', 'columns']",
                                      ('Array', 'DirFileSystem', '/equiv6', 'LocalFileSystem', 'IMG-HV-ALOS2290760600-191011-WWDR1.5RUA',
                                       ('list',
                                        [('tuple', [('int', '912'), ('int', '920')]), ('tuple', [('int', '1112'), ('int', '1120')]),
                                         ('tuple', [('int', '1312'), ('int', '1320')])]),
                                       ('tuple', [('int', '3'), ('int', '4')]), ('str', "'uint16'"), 'IU2', ('int', '2'),
                                       ('dict',
                                        [(0, ('dict', [('offset', ('int', '912')), ('size', ('int', '208'))])),
                                         (1, ('dict', [('offset', ('int', '1312')), ('size', ('int', '8'))]))]))),
                                     [],
                                     [('f09b5d1ef50a4bf4859cb8bec5a929ea0f5aba47aa46afbb95b3e07ca7c1a017/IMG-HV-ALOS2290760600-191011-WWDR1.5RUA.index',
                                       6222, 'a7d58c1a71497a0637ebba270aadfc5d792dfb1526f15d85c8bcb76db29b7685')],
                                     None),
 'cached/local_cache/ignored': ('ok',
                                ('4fc396169214bd3e584ba84631f01a70e9fc32374364ee026f6d503737149e28', 'HV', None, 26,
                                 "{'sar_image_data_record_index': 1, 'sensor_parameters_update_flag': 0, 'sar_channel_id': 'dual_polarization', "
                                 "'sar_channel_code': 'L', 'transmitted_pulse_polarization': 'horizontal', 'received_pulse_polarization': "
                                 "'horizontal', 'scan_id': 3, 'geographic_reference_parameter_update_flag': 0, 'interleaving_id': 'BSQ', "
                                 "'valid_range': [0, 65535], 'coordinates': ['rows', 'sensor_acquisition_date', 'prf', 'slant_range_to_first_pixel', "
                                 "'slant_range_to_mid_pixel', 'slant_range_to_last_pixel', 'doppler_centroid_value_at_first_pixel', "
                                 "'doppler_centroid_value_at_mid_pixel', 'doppler_centroid_value_at_last_pixel', 'azimuth_fm_rate_of_first_pixel', "
                                 "'azimuth_fm_rate_of_mid_pixel', 'azimuth_fm_rate_of_last_pixel', 'look_angle_of_nadir', 'azimuth_squint_angle', "
                                 "'latitude_of_first_pixel', 'latitude_of_center_pixel', 'latitude_of_last_pixel', 'longitude_of_first_pixel', "
                                 "'longitude_of_center_pixel', 'longitude_of_last_pixel', 'northing_of_first_pixel', 'northing_of_last_pixel', "
                                 "'easting_of_first_pixel', 'easting_of_last_pixel', 'line_heading']}",
                                 "['rows', 'columns']",
                                 ('Array', 'DirFileSystem', '/equiv6', 'LoggingMemoryFileSystem', 'IMG-HV-ALOS2290760600-191011-WWDR1.5RUA',
                                  ('list',
                                   [('tuple', [('int', '912'), ('int', '920')]), ('tuple', [('int', '1112'), ('int', '1120')]),
                                    ('tuple', [('int', '1312'), ('int', '1320')])]),
                                  ('tuple', [('int', '3'), ('int', '4')]), ('str', "'uint16'"), 'IU2', ('int', '2'),
                                  ('dict',
                                   [(0, ('dict', [('offset', ('int', '912')), ('size', ('int', '208'))])),
                                    (1, ('dict', [('offset', ('int', '1312')), ('size', ('int', '8'))]))]))),
                                [('fs.open', '/equiv6/IMG-HV-ALOS2290760600-191011-WWDR1.5RUA', (), {'mode': 'rb'}), ('fs.isfile', '/equiv6'),
                                 ('fs.isfile', '/'), ('enter', '/equiv6/IMG-HV-ALOS2290760600-191011-WWDR1.5RUA'),
                                 ('read', '/equiv6/IMG-HV-ALOS2290760600-191011-WWDR1.5RUA', (720,), {}, 0),
                                 ('read', '/equiv6/IMG-HV-ALOS2290760600-191011-WWDR1.5RUA', (400,), {}, 720),
                                 ('read', '/equiv6/IMG-HV-ALOS2290760600-191011-WWDR1.5RUA', (200,), {}, 1120),
                                 ('exit', '/equiv6/IMG-HV-ALOS2290760600-191011-WWDR1.5RUA', None)],
                                [('f09b5d1ef50a4bf4859cb8bec5a929ea0f5aba47aa46afbb95b3e07ca7c1a017/IMG-HV-ALOS2290760600-191011-WWDR1.5RUA.index',
                                  6222, 'a7d58c1a71497a0637ebba270aadfc5d792dfb1526f15d85c8bcb76db29b7685')],
                                ('ndarray', 'uint16', (3, 4), '[[0, 1, 2, 3], [4, 5, 6, 7], [8, 9, 10, 11]]')),
 'cached/local_cache/ignored-and-recreated': ('ok',
                                              ('e0d15b44a9cdd26d02b1ece8c376d3a983a9536136e683a5d253d396c5a5d502', 'HV', None, 26,
                                               "{'sar_image_data_record_index': 1, 'sensor_parameters_update_flag': 0, 'sar_channel_id': "
                                               "'dual_polarization', 'sar_channel_code': 'L', 'transmitted_pulse_polarization': 'horizontal', "
                                               "'received_pulse_polarization': 'horizontal', 'scan_id': 3, "
                                               "'geographic_reference_parameter_update_flag': 0, 'interleaving_id': 'BSQ', 'valid_range': [0, "
                                               "65535], 'coordinates': ['rows', 'sensor_acquisition_date', 'prf', 'slant_range_to_first_pixel', "
                                               "'slant_range_to_mid_pixel', 'slant_range_to_last_pixel', 'doppler_centroid_value_at_first_pixel', "
                                               "'doppler_centroid_value_at_mid_pixel', 'doppler_centroid_value_at_last_pixel', "
                                               "'azimuth_fm_rate_of_first_pixel', 'azimuth_fm_rate_of_mid_pixel', 'azimuth_fm_rate_of_last_pixel', "
                                               "'look_angle_of_nadir', 'azimuth_squint_angle', 'latitude_of_first_pixel', "
                                               "'latitude_of_center_pixel', 'latitude_of_last_pixel', 'longitude_of_first_pixel', "
                                               "'longitude_of_center_pixel', 'longitude_of_last_pixel', 'northing_of_first_pixel', "
                                               "'northing_of_last_pixel', 'easting_of_first_pixel', 'easting_of_last_pixel', 'line_heading']}",
                                               "['rows', 'columns']",
                                               ('Array', 'DirFileSystem', '/equiv6', 'LoggingMemoryFileSystem',
                                                'IMG-HV-ALOS2290760600-191011-WWDR1.5RUA',
                                                ('list',
                                                 [('tuple', [('int', '912'), ('int', '920')]), ('tuple', [('int', '1112'), ('int', '1120')]),
                                                  ('tuple', [('int', '1312'), ('int', '1320')])]),
                                                ('tuple', [('int', '3'), ('int', '4')]), ('str', "'uint16'"), 'IU2', ('int', '1'),
                                                ('dict',
                                                 [(0, ('dict', [('offset', ('int', '912')), ('size', ('int', '8'))])),
                                                  (1, ('dict', [('offset', ('int', '1112')), ('size', ('int', '8'))])),
                                                  (2, ('dict', [('offset', ('int', '1312')), ('size', ('int', '8'))]))]))),
                                              [('fs.open', '/equiv6/IMG-HV-ALOS2290760600-191011-WWDR1.5RUA', (), {'mode': 'rb'}),
                                               ('fs.isfile', '/equiv6'), ('fs.isfile', '/'),
                                               ('enter', '/equiv6/IMG-HV-ALOS2290760600-191011-WWDR1.5RUA'),
                                               ('read', '/equiv6/IMG-HV-ALOS2290760600-191011-WWDR1.5RUA', (720,), {}, 0),
                                               ('read', '/equiv6/IMG-HV-ALOS2290760600-191011-WWDR1.5RUA', (200,), {}, 720),
                                               ('read', '/equiv6/IMG-HV-ALOS2290760600-191011-WWDR1.5RUA', (200,), {}, 920),
                                               ('read', '/equiv6/IMG-HV-ALOS2290760600-191011-WWDR1.5RUA', (200,), {}, 1120),
                                               ('exit', '/equiv6/IMG-HV-ALOS2290760600-191011-WWDR1.5RUA', None)],
                                              [('f09b5d1ef50a4bf4859cb8bec5a929ea0f5aba47aa46afbb95b3e07ca7c1a017/IMG-HV-ALOS2290760600-191011-WWDR1.5RUA.index',
                                                6222, 'a7d58c1a71497a0637ebba270aadfc5d792dfb1526f15d85c8bcb76db29b7685')],
                                              ('ndarray', 'uint16', (3, 4), '[[0, 1, 2, 3], [4, 5, 6, 7], [8, 9, 10, 11]]')),
 'cached/local_cache/of-another-image': ('ok',
                                         ('1bc00d25bf169f493e224dc16c3cb984c77a914a88ee77a928b9016ca1b71fef', 'HH_scan3', None, 26,
                                          "{'sar_image_data_record_index': 1, 'sensor_parameters_update_flag': 0, 'sar_channel_id': "
                                          "'dual_polarization', 'sar_channel_code': 'L', 'transmitted_pulse_polarization': 'horizontal', "
                                          "'received_pulse_polarization': 'horizontal', 'scan_id': 3, 'geographic_reference_parameter_update_flag': "
                                          "0, 'interleaving_id': 'BSQ', 'coordinates': ['rows', 'sensor_acquisition_date', 'prf', "
                                          "'slant_range_to_first_pixel', 'slant_range_to_mid_pixel', 'slant_range_to_last_pixel', "
                                          "'doppler_centroid_value_at_first_pixel', 'doppler_centroid_value_at_mid_pixel', "
                                          "'doppler_centroid_value_at_last_pixel', 'azimuth_fm_rate_of_first_pixel', 'azimuth_fm_rate_of_mid_pixel', "
                                          "'azimuth_fm_rate_of_last_pixel', 'look_angle_of_nadir', 'azimuth_squint_angle', "
                                          "'latitude_of_first_pixel', 'latitude_of_center_pixel', 'latitude_of_last_pixel', "
                                          "'longitude_of_first_pixel', 'longitude_of_center_pixel', 'longitude_of_last_pixel', "
                                          "'northing_of_first_pixel', 'northing_of_last_pixel', 'easting_of_first_pixel', 'easting_of_last_pixel', "
                                          "'line_heading']}",
                                          "['rows', 'columns']",
                                          ('Array', 'DirFileSystem', '/equiv6', 'LocalFileSystem', 'IMG-HH-ALOS2225333100-180726-WWDR1.1__D-B3',
                                           ('list',
                                            [('tuple', [('int', '912'), ('int', '928')]), ('tuple', [('int', '1120'), ('int', '1136')]),
                                             ('tuple', [('int', '1328'), ('int', '1344')]), ('tuple', [('int', '1536'), ('int', '1552')]),
                                             ('tuple', [('int', '1744'), ('int', '1760')])]),
                                           ('tuple', [('int', '5'), ('int', '2')]), ('str', "'complex64'"), 'C*8', ('int', '2'),
                                           ('dict',
                                            [(0, ('dict', [('offset', ('int', '912')), ('size', ('int', '224'))])),
                                             (1, ('dict', [('offset', ('int', '1328')), ('size', ('int', '224'))])),
                                             (2, ('dict', [('offset', ('int', '1744')), ('size', ('int', '16'))]))]))),
                                         [],
                                         [('f09b5d1ef50a4bf4859cb8bec5a929ea0f5aba47aa46afbb95b3e07ca7c1a017/IMG-HV-ALOS2290760600-191011-WWDR1.5RUA.index',
                                           6507, '350bcece5bac2f68519b368aa7e1918c7dddd50f90ed7075bbe6384b44b3f20d')],
                                         None),
 'cached/local_cache/garbage': ('ok',
                                ('4fc396169214bd3e584ba84631f01a70e9fc32374364ee026f6d503737149e28', 'HV', None, 26,
                                 "{'sar_image_data_record_index': 1, 'sensor_parameters_update_flag': 0, 'sar_channel_id': 'dual_polarization', "
                                 "'sar_channel_code': 'L', 'transmitted_pulse_polarization': 'horizontal', 'received_pulse_polarization': "
                                 "'horizontal', 'scan_id': 3, 'geographic_reference_parameter_update_flag': 0, 'interleaving_id': 'BSQ', "
                                 "'valid_range': [0, 65535], 'coordinates': ['rows', 'sensor_acquisition_date', 'prf', 'slant_range_to_first_pixel', "
                                 "'slant_range_to_mid_pixel', 'slant_range_to_last_pixel', 'doppler_centroid_value_at_first_pixel', "
                                 "'doppler_centroid_value_at_mid_pixel', 'doppler_centroid_value_at_last_pixel', 'azimuth_fm_rate_of_first_pixel', "
                                 "'azimuth_fm_rate_of_mid_pixel', 'azimuth_fm_rate_of_last_pixel', 'look_angle_of_nadir', 'azimuth_squint_angle', "
                                 "'latitude_of_first_pixel', 'latitude_of_center_pixel', 'latitude_of_last_pixel', 'longitude_of_first_pixel', "
                                 "'longitude_of_center_pixel', 'longitude_of_last_pixel', 'northing_of_first_pixel', 'northing_of_last_pixel', "
                                 "'easting_of_first_pixel', 'easting_of_last_pixel', 'line_heading']}",
                                 "['rows', 'columns']",
                                 ('Array', 'DirFileSystem', '/equiv6', 'LoggingMemoryFileSystem', 'IMG-HV-ALOS2290760600-191011-WWDR1.5RUA',
                                  ('list',
                                   [('tuple', [('int', '912'), ('int', '920')]), ('tuple', [('int', '1112'), ('int', '1120')]),
                                    ('tuple', [('int', '1312'), ('int', '1320')])]),
                                  ('tuple', [('int', '3'), ('int', '4')]), ('str', "'uint16'"), 'IU2', ('int', '2'),
                                  ('dict',
                                   [(0, ('dict', [('offset', ('int', '912')), ('size', ('int', '208'))])),
                                    (1, ('dict', [('offset', ('int', '1312')), ('size', ('int', '8'))]))]))),
                                [('fs.open', '/equiv6/IMG-HV-ALOS2290760600-191011-WWDR1.5RUA', (), {'mode': 'rb'}), ('fs.isfile', '/equiv6'),
                                 ('fs.isfile', '/'), ('enter', '/equiv6/IMG-HV-ALOS2290760600-191011-WWDR1.5RUA'),
                                 ('read', '/equiv6/IMG-HV-ALOS2290760600-191011-WWDR1.5RUA', (720,), {}, 0),
                                 ('read', '/equiv6/IMG-HV-ALOS2290760600-191011-WWDR1.5RUA', (400,), {}, 720),
                                 ('read', '/equiv6/IMG-HV-ALOS2290760600-191011-WWDR1.5RUA', (200,), {}, 1120),
                                 ('exit', '/equiv6/IMG-HV-ALOS2290760600-191011-WWDR1.5RUA', None)],
                                [('f09b5d1ef50a4bf4859cb8bec5a929ea0f5aba47aa46afbb95b3e07ca7c1a017/IMG-HV-ALOS2290760600-191011-WWDR1.5RUA.index', 9,
                                  'e9e67f762cfc3e9c119bd10a5cee87941ec779d517e45146b933d388ff7a7db9')],
                                ('ndarray', 'uint16', (3, 4), '[[0, 1, 2, 3], [4, 5, 6, 7], [8, 9, 10, 11]]')),
 'cached/local_cache/garbage-create': ('ok',
                                       ('4fc396169214bd3e584ba84631f01a70e9fc32374364ee026f6d503737149e28', 'HV', None, 26,
                                        "{'sar_image_data_record_index': 1, 'sensor_parameters_update_flag': 0, 'sar_channel_id': "
                                        "'dual_polarization', 'sar_channel_code': 'L', 'transmitted_pulse_polarization': 'horizontal', "
                                        "'received_pulse_polarization': 'horizontal', 'scan_id': 3, 'geographic_reference_parameter_update_flag': 0, "
                                        "'interleaving_id': 'BSQ', 'valid_range': [0, 65535], 'coordinates': ['rows', 'sensor_acquisition_date', "
                                        "'prf', 'slant_range_to_first_pixel', 'slant_range_to_mid_pixel', 'slant_range_to_last_pixel', "
                                        "'doppler_centroid_value_at_first_pixel', 'doppler_centroid_value_at_mid_pixel', "
                                        "'doppler_centroid_value_at_last_pixel', 'azimuth_fm_rate_of_first_pixel', 'azimuth_fm_rate_of_mid_pixel', "
                                        "'azimuth_fm_rate_of_last_pixel', 'look_angle_of_nadir', 'azimuth_squint_angle', 'latitude_of_first_pixel', "
                                        "'latitude_of_center_pixel', 'latitude_of_last_pixel', 'longitude_of_first_pixel', "
                                        "'longitude_of_center_pixel', 'longitude_of_last_pixel', 'northing_of_first_pixel', "
                                        "'northing_of_last_pixel', 'easting_of_first_pixel', 'easting_of_last_pixel', 'line_heading']}",
                                        "['rows', 'columns']",
                                        ('Array', 'DirFileSystem', '/equiv6', 'LoggingMemoryFileSystem', 'IMG-HV-ALOS2290760600-191011-WWDR1.5RUA',
                                         ('list',
                                          [('tuple', [('int', '912'), ('int', '920')]), ('tuple', [('int', '1112'), ('int', '1120')]),
                                           ('tuple', [('int', '1312'), ('int', '1320')])]),
                                         ('tuple', [('int', '3'), ('int', '4')]), ('str', "'uint16'"), 'IU2', ('int', '2'),
                                         ('dict',
                                          [(0, ('dict', [('offset', ('int', '912')), ('size', ('int', '208'))])),
                                           (1, ('dict', [('offset', ('int', '1312')), ('size', ('int', '8'))]))]))),
                                       [('fs.open', '/equiv6/IMG-HV-ALOS2290760600-191011-WWDR1.5RUA', (), {'mode': 'rb'}), ('fs.isfile', '/equiv6'),
                                        ('fs.isfile', '/'), ('enter', '/equiv6/IMG-HV-ALOS2290760600-191011-WWDR1.5RUA'),
                                        ('read', '/equiv6/IMG-HV-ALOS2290760600-191011-WWDR1.5RUA', (720,), {}, 0),
                                        ('read', '/equiv6/IMG-HV-ALOS2290760600-191011-WWDR1.5RUA', (400,), {}, 720),
                                        ('read', '/equiv6/IMG-HV-ALOS2290760600-191011-WWDR1.5RUA', (200,), {}, 1120),
                                        ('exit', '/equiv6/IMG-HV-ALOS2290760600-191011-WWDR1.5RUA', None)],
                                       [('f09b5d1ef50a4bf4859cb8bec5a929ea0f5aba47aa46afbb95b3e07ca7c1a017/IMG-HV-ALOS2290760600-191011-WWDR1.5RUA.index',
                                         6222, 'a7d58c1a71497a0637ebba270aadfc5d792dfb1526f15d85c8bcb76db29b7685')],
                                       ('ndarray', 'uint16', (3, 4), '[[0, 1, 2, 3], [4, 5, 6, 7], [8, 9, 10, 11]]')),
 'cached/local_cache/empty': ('ok',
                              ('4fc396169214bd3e584ba84631f01a70e9fc32374364ee026f6d503737149e28', 'HV', None, 26,
                               "{'sar_image_data_record_index': 1, 'sensor_parameters_update_flag': 0, 'sar_channel_id': 'dual_polarization', "
                               "'sar_channel_code': 'L', 'transmitted_pulse_polarization': 'horizontal', 'received_pulse_polarization': "
                               "'horizontal', 'scan_id': 3, 'geographic_reference_parameter_update_flag': 0, 'interleaving_id': 'BSQ', "
                               "'valid_range': [0, 65535], 'coordinates': ['rows', 'sensor_acquisition_date', 'prf', 'slant_range_to_first_pixel', "
                               "'slant_range_to_mid_pixel', 'slant_range_to_last_pixel', 'doppler_centroid_value_at_first_pixel', "
                               "'doppler_centroid_value_at_mid_pixel', 'doppler_centroid_value_at_last_pixel', 'azimuth_fm_rate_of_first_pixel', "
                               "'azimuth_fm_rate_of_mid_pixel', 'azimuth_fm_rate_of_last_pixel', 'look_angle_of_nadir', 'azimuth_squint_angle', "
                               "'latitude_of_first_pixel', 'latitude_of_center_pixel', 'latitude_of_last_pixel', 'longitude_of_first_pixel', "
                               "'longitude_of_center_pixel', 'longitude_of_last_pixel', 'northing_of_first_pixel', 'northing_of_last_pixel', "
                               "'easting_of_first_pixel', 'easting_of_last_pixel', 'line_heading']}",
                               "['rows', 'columns']",
                               ('Array', 'DirFileSystem', '/equiv6', 'LoggingMemoryFileSystem', 'IMG-HV-ALOS2290760600-191011-WWDR1.5RUA',
                                ('list',
                                 [('tuple', [('int', '912'), ('int', '920')]), ('tuple', [('int', '1112'), ('int', '1120')]),
                                  ('tuple', [('int', '1312'), ('int', '1320')])]),
                                ('tuple', [('int', '3'), ('int', '4')]), ('str', "'uint16'"), 'IU2', ('int', '2'),
                                ('dict',
                                 [(0, ('dict', [('offset', ('int', '912')), ('size', ('int', '208'))])),
                                  (1, ('dict', [('offset', ('int', '1312')), ('size', ('int', '8'))]))]))),
                              [('fs.open', '/equiv6/IMG-HV-ALOS2290760600-191011-WWDR1.5RUA', (), {'mode': 'rb'}), ('fs.isfile', '/equiv6'),
                               ('fs.isfile', '/'), ('enter', '/equiv6/IMG-HV-ALOS2290760600-191011-WWDR1.5RUA'),
                               ('read', '/equiv6/IMG-HV-ALOS2290760600-191011-WWDR1.5RUA', (720,), {}, 0),
                               ('read', '/equiv6/IMG-HV-ALOS2290760600-191011-WWDR1.5RUA', (400,), {}, 720),
                               ('read', '/equiv6/IMG-HV-ALOS2290760600-191011-WWDR1.5RUA', (200,), {}, 1120),
                               ('exit', '/equiv6/IMG-HV-ALOS2290760600-191011-WWDR1.5RUA', None)],
                              [('f09b5d1ef50a4bf4859cb8bec5a929ea0f5aba47aa46afbb95b3e07ca7c1a017/IMG-HV-ALOS2290760600-191011-WWDR1.5RUA.index', 0,
                                '6f49cdbd80e1b95d5e6427e1501fc217790daee87055fa5b4e71064288bddede')],
                              ('ndarray', 'uint16', (3, 4), '[[0, 1, 2, 3], [4, 5, 6, 7], [8, 9, 10, 11]]')),
 'cached/local_cache/valid-json-wrong-content': ('raises', 'KeyError', "'data'", [],
                                                 [('f09b5d1ef50a4bf4859cb8bec5a929ea0f5aba47aa46afbb95b3e07ca7c1a017/IMG-HV-ALOS2290760600-191011-WWDR1.5RUA.index',
                                                   21, '7bbe7dfab15ee8530343f903740bb94dd75744150a28981616101f66c8e82a14')]),
 'cached/local_cache/valid-json-scalar': ('raises', 'AttributeError', "'int' object has no attribute 'get'", [],
                                          [('f09b5d1ef50a4bf4859cb8bec5a929ea0f5aba47aa46afbb95b3e07ca7c1a017/IMG-HV-ALOS2290760600-191011-WWDR1.5RUA.index',
                                            1, 'f77973a31f650abac60f5d4011af05c8202197d1d0497e93e29b981b8e36bdb3')]),
 'cached/remote_cache/rpc1': ('ok',
                              ('877f097e7d652a4a8406bb6217ec5cda2649a7144dbca8ad12719ebe15bea69b', 'HV', None, 26,
                               "{'sar_image_data_record_index': 1, 'sensor_parameters_update_flag': 0, 'sar_channel_id': 'dual_polarization', "
                               "'sar_channel_code': 'L', 'transmitted_pulse_polarization': 'horizontal', 'received_pulse_polarization': "
                               "'horizontal', 'scan_id': 3, 'geographic_reference_parameter_update_flag': 0, 'interleaving_id': 'BSQ', "
                               "'valid_range': [0, 65535], 'coordinates': ['rows', 'sensor_acquisition_date', 'prf', 'slant_range_to_first_pixel', "
                               "'slant_range_to_mid_pixel', 'slant_range_to_last_pixel', 'doppler_centroid_value_at_first_pixel', "
                               "'doppler_centroid_value_at_mid_pixel', 'doppler_centroid_value_at_last_pixel', 'azimuth_fm_rate_of_first_pixel', "
                               "'azimuth_fm_rate_of_mid_pixel', 'azimuth_fm_rate_of_last_pixel', 'look_angle_of_nadir', 'azimuth_squint_angle', "
                               "'latitude_of_first_pixel', 'latitude_of_center_pixel', 'latitude_of_last_pixel', 'longitude_of_first_pixel', "
                               "'longitude_of_center_pixel', 'longitude_of_last_pixel', 'northing_of_first_pixel', 'northing_of_last_pixel', "
                               "'easting_of_first_pixel', 'easting_of_last_pixel', 'line_heading']}",
                               "['rows', 'columns']",
                               ('Array', 'DirFileSystem', '/equiv6', 'LocalFileSystem', 'IMG-HV-ALOS2290760600-191011-WWDR1.5RUA',
                                ('list',
                                 [('tuple', [('int', '912'), ('int', '920')]), ('tuple', [('int', '1112'), ('int', '1120')]),
                                  ('tuple', [('int', '1312'), ('int', '1320')])]),
                                ('tuple', [('int', '3'), ('int', '4')]), ('str', "'uint16'"), 'IU2', ('int', '1'),
                                ('dict',
                                 [(0, ('dict', [('offset', ('int', '912')), ('size', ('int', '8'))])),
                                  (1, ('dict', [('offset', ('int', '1112')), ('size', ('int', '8'))])),
                                  (2, ('dict', [('offset', ('int', '1312')), ('size', ('int', '8'))]))]))),
                              [('fs.isfile', '/equiv6/IMG-HV-ALOS2290760600-191011-WWDR1.5RUA.index'),
                               ('fs.cat', '/equiv6/IMG-HV-ALOS2290760600-191011-WWDR1.5RUA.index', (), {})],
                              [], None),
 'cached/remote_cache/rpc2': ('ok',
                              ('f31c6485943690100d2e3e57db9c59251053c87fb41da422b9f92562165d9b11', 'HV', None, 26,
                               "{'sar_image_data_record_index': 1, 'sensor_parameters_update_flag': 0, 'sar_channel_id': 'dual_polarization', "
                               "'sar_channel_code': 'L', 'transmitted_pulse_polarization': 'horizontal', 'received_pulse_polarization': "
                               "'horizontal', 'scan_id': 3, 'geographic_reference_parameter_update_flag': 0, 'interleaving_id': 'BSQ', "
                               "'valid_range': [0, 65535], 'coordinates': ['rows', 'sensor_acquisition_date', 'prf', 'slant_range_to_first_pixel', "
                               "'slant_range_to_mid_pixel', 'slant_range_to_last_pixel', 'doppler_centroid_value_at_first_pixel', "
                               "'doppler_centroid_value_at_mid_pixel', 'doppler_centroid_value_at_last_pixel', 'azimuth_fm_rate_of_first_pixel', "
                               "'azimuth_fm_rate_of_mid_pixel', 'azimuth_fm_rate_of_last_pixel', 'look_angle_of_nadir', 'azimuth_squint_angle', "
                               "'latitude_of_first_pixel', 'latitude_of_center_pixel', 'latitude_of_last_pixel', 'longitude_of_first_pixel', "
                               "'longitude_of_center_pixel', 'longitude_of_last_pixel', 'northing_of_first_pixel', 'northing_of_last_pixel', "
                               "'easting_of_first_pixel', 'easting_of_last_pixel', 'line_heading']}",
                               "['rows', 'columns']",
                               ('Array', 'DirFileSystem', '/equiv6', 'LocalFileSystem', 'IMG-HV-ALOS2290760600-191011-WWDR1.5RUA',
                                ('list',
                                 [('tuple', [('int', '912'), ('int', '920')]), ('tuple', [('int', '1112'), ('int', '1120')]),
                                  ('tuple', [('int', '1312'), ('int', '1320')])]),
                                ('tuple', [('int', '3'), ('int', '4')]), ('str', "'uint16'"), 'IU2', ('int', '2'),
                                ('dict',
                                 [(0, ('dict', [('offset', ('int', '912')), ('size', ('int', '208'))])),
                                  (1, ('dict', [('offset', ('int', '1312')), ('size', ('int', '8'))]))]))),
                              [('fs.isfile', '/equiv6/IMG-HV-ALOS2290760600-191011-WWDR1.5RUA.index'),
                               ('fs.cat', '/equiv6/IMG-HV-ALOS2290760600-191011-WWDR1.5RUA.index', (), {})],
                              [], None),
 'cached/remote_cache/rpcNone': ('ok',
                                 ('9f929cda8006d2922a6ff4aec8a6dd634d94c9585b2f7e2fab10eeae08ea422d', 'HV', None, 26,
                                  "{'sar_image_data_record_index': 1, 'sensor_parameters_update_flag': 0, 'sar_channel_id': 'dual_polarization', "
                                  "'sar_channel_code': 'L', 'transmitted_pulse_polarization': 'horizontal', 'received_pulse_polarization': "
                                  "'horizontal', 'scan_id': 3, 'geographic_reference_parameter_update_flag': 0, 'interleaving_id': 'BSQ', "
                                  "'valid_range': [0, 65535], 'coordinates': ['rows', 'sensor_acquisition_date', 'prf', "
                                  "'slant_range_to_first_pixel', 'slant_range_to_mid_pixel', 'slant_range_to_last_pixel', "
                                  "'doppler_centroid_value_at_first_pixel', 'doppler_centroid_value_at_mid_pixel', "
                                  "'doppler_centroid_value_at_last_pixel', 'azimuth_fm_rate_of_first_pixel', 'azimuth_fm_rate_of_mid_pixel', "
                                  "'azimuth_fm_rate_of_last_pixel', 'look_angle_of_nadir', 'azimuth_squint_angle', 'latitude_of_first_pixel', "
                                  "'latitude_of_center_pixel', 'latitude_of_last_pixel', 'longitude_of_first_pixel', 'longitude_of_center_pixel', "
                                  "'longitude_of_last_pixel', 'northing_of_first_pixel', 'northing_of_last_pixel', 'easting_of_first_pixel', "
                                  "'easting_of_last_pixel', 'line_heading']}",
                                  "['rows', 'columns']",
                                  ('Array', 'DirFileSystem', '/equiv6', 'LocalFileSystem', 'IMG-HV-ALOS2290760600-191011-WWDR1.5RUA',
                                   ('list',
                                    [('tuple', [('int', '912'), ('int', '920')]), ('tuple', [('int', '1112'), ('int', '1120')]),
                                     ('tuple', [('int', '1312'), ('int', '1320')])]),
                                   ('tuple', [('int', '3'), ('int', '4')]), ('str', "'uint16'"), 'IU2', ('int', '1024'),
                                   ('dict', [(0, ('dict', [('offset', ('int', '912')), ('size', ('int', '408'))]))]))),
                                 [('fs.isfile', '/equiv6/IMG-HV-ALOS2290760600-191011-WWDR1.5RUA.index'),
                                  ('fs.cat', '/equiv6/IMG-HV-ALOS2290760600-191011-WWDR1.5RUA.index', (), {})],
                                 [], None),
 'cached/remote_cache/create_cache': ('ok',
                                      ('f31c6485943690100d2e3e57db9c59251053c87fb41da422b9f92562165d9b11', 'HV', None, 26,
                                       "{'sar_image_data_record_index': 1, 'sensor_parameters_update_flag': 0, 'sar_channel_id': "
                                       "'dual_polarization', 'sar_channel_code': 'L', 'transmitted_pulse_polarization': 'horizontal', "
                                       "'received_pulse_polarization': 'horizontal', 'scan_id': 3, 'geographic_reference_parameter_update_flag': 0, "
                                       "'interleaving_id': 'BSQ', 'valid_range': [0, 65535], 'coordinates': ['rows', 'sensor_acquisition_date', "
                                       "'prf', 'slant_range_to_first_pixel', 'slant_range_to_mid_pixel', 'slant_range_to_last_pixel', "
                                       "'doppler_centroid_value_at_first_pixel', 'doppler_centroid_value_at_mid_pixel', "
                                       "'doppler_centroid_value_at_last_pixel', 'azimuth_fm_rate_of_first_pixel', 'azimuth_fm_rate_of_mid_pixel', "
                                       "'azimuth_fm_rate_of_last_pixel', 'look_angle_of_nadir', 'azimuth_squint_angle', 'latitude_of_first_pixel', "
                                       "'latitude_of_center_pixel', 'latitude_of_last_pixel', 'longitude_of_first_pixel', "
                                       "'longitude_of_center_pixel', 'longitude_of_last_pixel', 'northing_of_first_pixel', 'northing_of_last_pixel', "
                                       "'easting_of_first_pixel', 'easting_of_last_pixel', 'line_heading']}",
                                       "['rows', 'columns']",
                                       ('Array', 'DirFileSystem', '/equiv6', 'LocalFileSystem', 'IMG-HV-ALOS2290760600-191011-WWDR1.5RUA',
                                        ('list',
                                         [('tuple', [('int', '912'), ('int', '920')]), ('tuple', [('int', '1112'), ('int', '1120')]),
                                          ('tuple', [('int', '1312'), ('int', '1320')])]),
                                        ('tuple', [('int', '3'), ('int', '4')]), ('str', "'uint16'"), 'IU2', ('int', '2'),
                                        ('dict',
                                         [(0, ('dict', [('offset', ('int', '912')), ('size', ('int', '208'))])),
                                          (1, ('dict', [('offset', ('int', '1312')), ('size', ('int', '8'))]))]))),
                                      [('fs.isfile', '/equiv6/IMG-HV-ALOS2290760600-191011-WWDR1.5RUA.index'),
                                       ('fs.cat', '/equiv6/IMG-HV-ALOS2290760600-191011-WWDR1.5RUA.index', (), {})],
                                      [], None),
 'cached/remote_cache/ignored': ('ok',
                                 ('4fc396169214bd3e584ba84631f01a70e9fc32374364ee026f6d503737149e28', 'HV', None, 26,
                                  "{'sar_image_data_record_index': 1, 'sensor_parameters_update_flag': 0, 'sar_channel_id': 'dual_polarization', "
                                  "'sar_channel_code': 'L', 'transmitted_pulse_polarization': 'horizontal', 'received_pulse_polarization': "
                                  "'horizontal', 'scan_id': 3, 'geographic_reference_parameter_update_flag': 0, 'interleaving_id': 'BSQ', "
                                  "'valid_range': [0, 65535], 'coordinates': ['rows', 'sensor_acquisition_date', 'prf', "
                                  "'slant_range_to_first_pixel', 'slant_range_to_mid_pixel', 'slant_range_to_last_pixel', "
                                  "'doppler_centroid_value_at_first_pixel', 'doppler_centroid_value_at_mid_pixel', "
                                  "'doppler_centroid_value_at_last_pixel', 'azimuth_fm_rate_of_first_pixel', 'azimuth_fm_rate_of_mid_pixel', "
                                  "'azimuth_fm_rate_of_last_pixel', 'look_angle_of_nadir', 'azimuth_squint_angle', 'latitude_of_first_pixel', "
                                  "'latitude_of_center_pixel', 'latitude_of_last_pixel', 'longitude_of_first_pixel', 'longitude_of_center_pixel', "
                                  "'longitude_of_last_pixel', 'northing_of_first_pixel', 'northing_of_last_pixel', 'easting_of_first_pixel', "
                                  "'easting_of_last_pixel', 'line_heading']}",
                                  "['rows', 'columns']",
                                  ('Array', 'DirFileSystem', '/equiv6', 'LoggingMemoryFileSystem', 'IMG-HV-ALOS2290760600-191011-WWDR1.5RUA',
                                   ('list',
                                    [('tuple', [('int', '912'), ('int', '920')]), ('tuple', [('int', '1112'), ('int', '1120')]),
                                     ('tuple', [('int', '1312'), ('int', '1320')])]),
                                   ('tuple', [('int', '3'), ('int', '4')]), ('str', "'uint16'"), 'IU2', ('int', '2'),
                                   ('dict',
                                    [(0, ('dict', [('offset', ('int', '912')), ('size', ('int', '208'))])),
                                     (1, ('dict', [('offset', ('int', '1312')), ('size', ('int', '8'))]))]))),
                                 [('fs.open', '/equiv6/IMG-HV-ALOS2290760600-191011-WWDR1.5RUA', (), {'mode': 'rb'}), ('fs.isfile', '/equiv6'),
                                  ('fs.isfile', '/'), ('enter', '/equiv6/IMG-HV-ALOS2290760600-191011-WWDR1.5RUA'),
                                  ('read', '/equiv6/IMG-HV-ALOS2290760600-191011-WWDR1.5RUA', (720,), {}, 0),
                                  ('read', '/equiv6/IMG-HV-ALOS2290760600-191011-WWDR1.5RUA', (400,), {}, 720),
                                  ('read', '/equiv6/IMG-HV-ALOS2290760600-191011-WWDR1.5RUA', (200,), {}, 1120),
                                  ('exit', '/equiv6/IMG-HV-ALOS2290760600-191011-WWDR1.5RUA', None)],
                                 [], ('ndarray', 'uint16', (3, 4), '[[0, 1, 2, 3], [4, 5, 6, 7], [8, 9, 10, 11]]')),
 'cached/remote_cache/ignored-and-recreated': ('ok',
                                               ('e0d15b44a9cdd26d02b1ece8c376d3a983a9536136e683a5d253d396c5a5d502', 'HV', None, 26,
                                                "{'sar_image_data_record_index': 1, 'sensor_parameters_update_flag': 0, 'sar_channel_id': "
                                                "'dual_polarization', 'sar_channel_code': 'L', 'transmitted_pulse_polarization': 'horizontal', "
                                                "'received_pulse_polarization': 'horizontal', 'scan_id': 3, "
                                                "'geographic_reference_parameter_update_flag': 0, 'interleaving_id': 'BSQ', 'valid_range': [0, "
                                                "65535], 'coordinates': ['rows', 'sensor_acquisition_date', 'prf', 'slant_range_to_first_pixel', "
                                                "'slant_range_to_mid_pixel', 'slant_range_to_last_pixel', 'doppler_centroid_value_at_first_pixel', "
                                                "'doppler_centroid_value_at_mid_pixel', 'doppler_centroid_value_at_last_pixel', "
                                                "'azimuth_fm_rate_of_first_pixel', 'azimuth_fm_rate_of_mid_pixel', 'azimuth_fm_rate_of_last_pixel', "
                                                "'look_angle_of_nadir', 'azimuth_squint_angle', 'latitude_of_first_pixel', "
                                                "'latitude_of_center_pixel', 'latitude_of_last_pixel', 'longitude_of_first_pixel', "
                                                "'longitude_of_center_pixel', 'longitude_of_last_pixel', 'northing_of_first_pixel', "
                                                "'northing_of_last_pixel', 'easting_of_first_pixel', 'easting_of_last_pixel', 'line_heading']}",
                                                "['rows', 'columns']",
                                                ('Array', 'DirFileSystem', '/equiv6', 'LoggingMemoryFileSystem',
                                                 'IMG-HV-ALOS2290760600-191011-WWDR1.5RUA',
                                                 ('list',
                                                  [('tuple', [('int', '912'), ('int', '920')]), ('tuple', [('int', '1112'), ('int', '1120')]),
                                                   ('tuple', [('int', '1312'), ('int', '1320')])]),
                                                 ('tuple', [('int', '3'), ('int', '4')]), ('str', "'uint16'"), 'IU2', ('int', '1'),
                                                 ('dict',
                                                  [(0, ('dict', [('offset', ('int', '912')), ('size', ('int', '8'))])),
                                                   (1, ('dict', [('offset', ('int', '1112')), ('size', ('int', '8'))])),
                                                   (2, ('dict', [('offset', ('int', '1312')), ('size', ('int', '8'))]))]))),
                                               [('fs.open', '/equiv6/IMG-HV-ALOS2290760600-191011-WWDR1.5RUA', (), {'mode': 'rb'}),
                                                ('fs.isfile', '/equiv6'), ('fs.isfile', '/'),
                                                ('enter', '/equiv6/IMG-HV-ALOS2290760600-191011-WWDR1.5RUA'),
                                                ('read', '/equiv6/IMG-HV-ALOS2290760600-191011-WWDR1.5RUA', (720,), {}, 0),
                                                ('read', '/equiv6/IMG-HV-ALOS2290760600-191011-WWDR1.5RUA', (200,), {}, 720),
                                                ('read', '/equiv6/IMG-HV-ALOS2290760600-191011-WWDR1.5RUA', (200,), {}, 920),
                                                ('read', '/equiv6/IMG-HV-ALOS2290760600-191011-WWDR1.5RUA', (200,), {}, 1120),
                                                ('exit', '/equiv6/IMG-HV-ALOS2290760600-191011-WWDR1.5RUA', None)],
                                               [('f09b5d1ef50a4bf4859cb8bec5a929ea0f5aba47aa46afbb95b3e07ca7c1a017/IMG-HV-ALOS2290760600-191011-WWDR1.5RUA.index',
                                                 6222, 'a7d58c1a71497a0637ebba270aadfc5d792dfb1526f15d85c8bcb76db29b7685')],
                                               ('ndarray', 'uint16', (3, 4), '[[0, 1, 2, 3], [4, 5, 6, 7], [8, 9, 10, 11]]')),
 'cached/remote_cache/of-another-image': ('ok',
                                          ('1bc00d25bf169f493e224dc16c3cb984c77a914a88ee77a928b9016ca1b71fef', 'HH_scan3', None, 26,
                                           "{'sar_image_data_record_index': 1, 'sensor_parameters_update_flag': 0, 'sar_channel_id': "
                                           "'dual_polarization', 'sar_channel_code': 'L', 'transmitted_pulse_polarization': 'horizontal', "
                                           "'received_pulse_polarization': 'horizontal', 'scan_id': 3, 'geographic_reference_parameter_update_flag': "
                                           "0, 'interleaving_id': 'BSQ', 'coordinates': ['rows', 'sensor_acquisition_date', 'prf', "
                                           "'slant_range_to_first_pixel', 'slant_range_to_mid_pixel', 'slant_range_to_last_pixel', "
                                           "'doppler_centroid_value_at_first_pixel', 'doppler_centroid_value_at_mid_pixel', "
                                           "'doppler_centroid_value_at_last_pixel', 'azimuth_fm_rate_of_first_pixel', "
                                           "'azimuth_fm_rate_of_mid_pixel', 'azimuth_fm_rate_of_last_pixel', 'look_angle_of_nadir', "
                                           "'azimuth_squint_angle', 'latitude_of_first_pixel', 'latitude_of_center_pixel', 'latitude_of_last_pixel', "
                                           "'longitude_of_first_pixel', 'longitude_of_center_pixel', 'longitude_of_last_pixel', "
                                           "'northing_of_first_pixel', 'northing_of_last_pixel', 'easting_of_first_pixel', 'easting_of_last_pixel', "
                                           "'line_heading']}",
                                           "['rows', 'columns']",
                                           ('Array', 'DirFileSystem', '/equiv6', 'LocalFileSystem', 'IMG-HH-ALOS2225333100-180726-WWDR1.1__D-B3',
                                            ('list',
                                             [('tuple', [('int', '912'), ('int', '928')]), ('tuple', [('int', '1120'), ('int', '1136')]),
                                              ('tuple', [('int', '1328'), ('int', '1344')]), ('tuple', [('int', '1536'), ('int', '1552')]),
                                              ('tuple', [('int', '1744'), ('int', '1760')])]),
                                            ('tuple', [('int', '5'), ('int', '2')]), ('str', "'complex64'"), 'C*8', ('int', '2'),
                                            ('dict',
                                             [(0, ('dict', [('offset', ('int', '912')), ('size', ('int', '224'))])),
                                              (1, ('dict', [('offset', ('int', '1328')), ('size', ('int', '224'))])),
                                              (2, ('dict', [('offset', ('int', '1744')), ('size', ('int', '16'))]))]))),
                                          [('fs.isfile', '/equiv6/IMG-HV-ALOS2290760600-191011-WWDR1.5RUA.index'),
                                           ('fs.cat', '/equiv6/IMG-HV-ALOS2290760600-191011-WWDR1.5RUA.index', (), {})],
                                          [], None),
 'cached/remote_cache/garbage': ('ok',
                                 ('4fc396169214bd3e584ba84631f01a70e9fc32374364ee026f6d503737149e28', 'HV', None, 26,
                                  "{'sar_image_data_record_index': 1, 'sensor_parameters_update_flag': 0, 'sar_channel_id': 'dual_polarization', "
                                  "'sar_channel_code': 'L', 'transmitted_pulse_polarization': 'horizontal', 'received_pulse_polarization': "
                                  "'horizontal', 'scan_id': 3, 'geographic_reference_parameter_update_flag': 0, 'interleaving_id': 'BSQ', "
                                  "'valid_range': [0, 65535], 'coordinates': ['rows', 'sensor_acquisition_date', 'prf', "
                                  "'slant_range_to_first_pixel', 'slant_range_to_mid_pixel', 'slant_range_to_last_pixel', "
                                  "'doppler_centroid_value_at_first_pixel', 'doppler_centroid_value_at_mid_pixel', "
                                  "'doppler_centroid_value_at_last_pixel', 'azimuth_fm_rate_of_first_pixel', 'azimuth_fm_rate_of_mid_pixel', "
                                  "'azimuth_fm_rate_of_last_pixel', 'look_angle_of_nadir', 'azimuth_squint_angle', 'latitude_of_first_pixel', "
                                  "'latitude_of_center_pixel', 'latitude_of_last_pixel', 'longitude_of_first_pixel', 'longitude_of_center_pixel', "
                                  "'longitude_of_last_pixel', 'northing_of_first_pixel', 'northing_of_last_pixel', 'easting_of_first_pixel', "
                                  "'easting_of_last_pixel', 'line_heading']}",
                                  "['rows', 'columns']",
                                  ('Array', 'DirFileSystem', '/equiv6', 'LoggingMemoryFileSystem', 'IMG-HV-ALOS2290760600-191011-WWDR1.5RUA',
                                   ('list',
                                    [('tuple', [('int', '912'), ('int', '920')]), ('tuple', [('int', '1112'), ('int', '1120')]),
                                     ('tuple', [('int', '1312'), ('int', '1320')])]),
                                   ('tuple', [('int', '3'), ('int', '4')]), ('str', "'uint16'"), 'IU2', ('int', '2'),
                                   ('dict',
                                    [(0, ('dict', [('offset', ('int', '912')), ('size', ('int', '208'))])),
                                     (1, ('dict', [('offset', ('int', '1312')), ('size', ('int', '8'))]))]))),
                                 [('fs.isfile', '/equiv6/IMG-HV-ALOS2290760600-191011-WWDR1.5RUA.index'),
                                  ('fs.cat', '/equiv6/IMG-HV-ALOS2290760600-191011-WWDR1.5RUA.index', (), {}),
                                  ('fs.open', '/equiv6/IMG-HV-ALOS2290760600-191011-WWDR1.5RUA', (), {'mode': 'rb'}), ('fs.isfile', '/equiv6'),
                                  ('fs.isfile', '/'), ('enter', '/equiv6/IMG-HV-ALOS2290760600-191011-WWDR1.5RUA'),
                                  ('read', '/equiv6/IMG-HV-ALOS2290760600-191011-WWDR1.5RUA', (720,), {}, 0),
                                  ('read', '/equiv6/IMG-HV-ALOS2290760600-191011-WWDR1.5RUA', (400,), {}, 720),
                                  ('read', '/equiv6/IMG-HV-ALOS2290760600-191011-WWDR1.5RUA', (200,), {}, 1120),
                                  ('exit', '/equiv6/IMG-HV-ALOS2290760600-191011-WWDR1.5RUA', None)],
                                 [], ('ndarray', 'uint16', (3, 4), '[[0, 1, 2, 3], [4, 5, 6, 7], [8, 9, 10, 11]]')),
 'cached/remote_cache/garbage-create': ('ok',
                                        ('4fc396169214bd3e584ba84631f01a70e9fc32374364ee026f6d503737149e28', 'HV', None, 26,
                                         "{'sar_image_data_record_index': 1, 'sensor_parameters_update_flag': 0, 'sar_channel_id': "
                                         "'dual_polarization', 'sar_channel_code': 'L', 'transmitted_pulse_polarization': 'horizontal', "
                                         "'received_pulse_polarization': 'horizontal', 'scan_id': 3, 'geographic_reference_parameter_update_flag': "
                                         "0, 'interleaving_id': 'BSQ', 'valid_range': [0, 65535], 'coordinates': ['rows', 'sensor_acquisition_date', "
                                         "'prf', 'slant_range_to_first_pixel', 'slant_range_to_mid_pixel', 'slant_range_to_last_pixel', "
                                         "'doppler_centroid_value_at_first_pixel', 'doppler_centroid_value_at_mid_pixel', "
                                         "'doppler_centroid_value_at_last_pixel', 'azimuth_fm_rate_of_first_pixel', 'azimuth_fm_rate_of_mid_pixel', "
                                         "'azimuth_fm_rate_of_last_pixel', 'look_angle_of_nadir', 'azimuth_squint_angle', 'latitude_of_first_pixel', "
                                         "'latitude_of_center_pixel', 'latitude_of_last_pixel', 'longitude_of_first_pixel', "
                                         "'longitude_of_center_pixel', 'longitude_of_last_pixel', 'northing_of_first_pixel', "
                                         "'northing_of_last_pixel', 'easting_of_first_pixel', 'easting_of_last_pixel', 'line_heading']}",
                                         "['rows', 'columns']",
                                         ('Array', 'DirFileSystem', '/equiv6', 'LoggingMemoryFileSystem', 'IMG-HV-ALOS2290760600-191011-WWDR1.5RUA',
                                          ('list',
                                           [('tuple', [('int', '912'), ('int', '920')]), ('tuple', [('int', '1112'), ('int', '1120')]),
                                            ('tuple', [('int', '1312'), ('int', '1320')])]),
                                          ('tuple', [('int', '3'), ('int', '4')]), ('str', "'uint16'"), 'IU2', ('int', '2'),
                                          ('dict',
                                           [(0, ('dict', [('offset', ('int', '912')), ('size', ('int', '208'))])),
                                            (1, ('dict', [('offset', ('int', '1312')), ('size', ('int', '8'))]))]))),
                                        [('fs.isfile', '/equiv6/IMG-HV-ALOS2290760600-191011-WWDR1.5RUA.index'),
                                         ('fs.cat', '/equiv6/IMG-HV-ALOS2290760600-191011-WWDR1.5RUA.index', (), {}),
                                         ('fs.open', '/equiv6/IMG-HV-ALOS2290760600-191011-WWDR1.5RUA', (), {'mode': 'rb'}), ('fs.isfile', '/equiv6'),
                                         ('fs.isfile', '/'), ('enter', '/equiv6/IMG-HV-ALOS2290760600-191011-WWDR1.5RUA'),
                                         ('read', '/equiv6/IMG-HV-ALOS2290760600-191011-WWDR1.5RUA', (720,), {}, 0),
                                         ('read', '/equiv6/IMG-HV-ALOS2290760600-191011-WWDR1.5RUA', (400,), {}, 720),
                                         ('read', '/equiv6/IMG-HV-ALOS2290760600-191011-WWDR1.5RUA', (200,), {}, 1120),
                                         ('exit', '/equiv6/IMG-HV-ALOS2290760600-191011-WWDR1.5RUA', None)],
                                        [('f09b5d1ef50a4bf4859cb8bec5a929ea0f5aba47aa46afbb95b3e07ca7c1a017/IMG-HV-ALOS2290760600-191011-WWDR1.5RUA.index',
                                          6222, 'a7d58c1a71497a0637ebba270aadfc5d792dfb1526f15d85c8bcb76db29b7685')],
                                        ('ndarray', 'uint16', (3, 4), '[[0, 1, 2, 3], [4, 5, 6, 7], [8, 9, 10, 11]]')),
 'cached/remote_cache/empty': ('ok',
                               ('4fc396169214bd3e584ba84631f01a70e9fc32374364ee026f6d503737149e28', 'HV', None, 26,
                                "{'sar_image_data_record_index': 1, 'sensor_parameters_update_flag': 0, 'sar_channel_id': 'dual_polarization', "
                                "'sar_channel_code': 'L', 'transmitted_pulse_polarization': 'horizontal', 'received_pulse_polarization': "
                                "'horizontal', 'scan_id': 3, 'geographic_reference_parameter_update_flag': 0, 'interleaving_id': 'BSQ', "
                                "'valid_range': [0, 65535], 'coordinates': ['rows', 'sensor_acquisition_date', 'prf', 'slant_range_to_first_pixel', "
                                "'slant_range_to_mid_pixel', 'slant_range_to_last_pixel', 'doppler_centroid_value_at_first_pixel', "
                                "'doppler_centroid_value_at_mid_pixel', 'doppler_centroid_value_at_last_pixel', 'azimuth_fm_rate_of_first_pixel', "
                                "'azimuth_fm_rate_of_mid_pixel', 'azimuth_fm_rate_of_last_pixel', 'look_angle_of_nadir', 'azimuth_squint_angle', "
                                "'latitude_of_first_pixel', 'latitude_of_center_pixel', 'latitude_of_last_pixel', 'longitude_of_first_pixel', "
                                "'longitude_of_center_pixel', 'longitude_of_last_pixel', 'northing_of_first_pixel', 'northing_of_last_pixel', "
                                "'easting_of_first_pixel', 'easting_of_last_pixel', 'line_heading']}",
                                "['rows', 'columns']",
                                ('Array', 'DirFileSystem', '/equiv6', 'LoggingMemoryFileSystem', 'IMG-HV-ALOS2290760600-191011-WWDR1.5RUA',
                                 ('list',
                                  [('tuple', [('int', '912'), ('int', '920')]), ('tuple', [('int', '1112'), ('int', '1120')]),
                                   ('tuple', [('int', '1312'), ('int', '1320')])]),
                                 ('tuple', [('int', '3'), ('int', '4')]), ('str', "'uint16'"), 'IU2', ('int', '2'),
                                 ('dict',
                                  [(0, ('dict', [('offset', ('int', '912')), ('size', ('int', '208'))])),
                                   (1, ('dict', [('offset', ('int', '1312')), ('size', ('int', '8'))]))]))),
                               [('fs.isfile', '/equiv6/IMG-HV-ALOS2290760600-191011-WWDR1.5RUA.index'),
                                ('fs.cat', '/equiv6/IMG-HV-ALOS2290760600-191011-WWDR1.5RUA.index', (), {}),
                                ('fs.open', '/equiv6/IMG-HV-ALOS2290760600-191011-WWDR1.5RUA', (), {'mode': 'rb'}), ('fs.isfile', '/equiv6'),
                                ('fs.isfile', '/'), ('enter', '/equiv6/IMG-HV-ALOS2290760600-191011-WWDR1.5RUA'),
                                ('read', '/equiv6/IMG-HV-ALOS2290760600-191011-WWDR1.5RUA', (720,), {}, 0),
                                ('read', '/equiv6/IMG-HV-ALOS2290760600-191011-WWDR1.5RUA', (400,), {}, 720),
                                ('read', '/equiv6/IMG-HV-ALOS2290760600-191011-WWDR1.5RUA', (200,), {}, 1120),
                                ('exit', '/equiv6/IMG-HV-ALOS2290760600-191011-WWDR1.5RUA', None)],
                               [], ('ndarray', 'uint16', (3, 4), '[[0, 1, 2, 3], [4, 5, 6, 7], [8, 9, 10, 11]]')),
 'cached/remote_cache/valid-json-wrong-content': ('raises', 'KeyError', "'data'",
                                                  [('fs.isfile', '/equiv6/IMG-HV-ALOS2290760600-191011-WWDR1.5RUA.index'),
                                                   ('fs.cat', '/equiv6/IMG-HV-ALOS2290760600-191011-WWDR1.5RUA.index', (), {})],
                                                  []),
 'cached/remote_cache/valid-json-scalar': ('raises', 'AttributeError', "'int' object has no attribute 'get'",
                                           [('fs.isfile', '/equiv6/IMG-HV-ALOS2290760600-191011-WWDR1.5RUA.index'),
                                            ('fs.cat', '/equiv6/IMG-HV-ALOS2290760600-191011-WWDR1.5RUA.index', (), {})],
                                           []),
 'cache-file-content': ('{"__type__": "group", "url": null, "data": {"rows": {"__type__": "variable", "dims": ["rows"], "data": {"__type__": '
                        '"array", "dtype": "int64", "data": [1, 2, 3], "encoding": {}}, "attrs": {}}, "sensor_acquisition_date": {"__type__": '
                        '"variable", "dims": ["rows"], "data": {"__type__": "array", "dtype": "datetime64[ns]", "data": [0, 1000000, 2000000], '
                        '"encoding": {"reference": "2020-07-18T00:00:01.001000000", "units": "ns"}}, "attrs": {}}, "prf": {"__type__": "variable", '
                        '"dims": ["rows"], "data": {"__type__": "array", "dtype": "int64", "data": [0, 0, 0], "encoding": {}}, "attrs": {"units": '
                        '"mHz"}}, "slant_range_to_first_pixel": {"__type__": "variable", "dims": ["rows"], "data": {"__type__": "array", "dtype": '
                        '"int64", "data": [0, 0, 0], "encoding": {}}, "attrs": {"units": "m"}}, "slant_range_to_mid_pixel": {"__type__": "variable", '
                        '"dims": ["rows"], "data": {"__type__": "array", "dtype": "int64", "data": [0, 0, 0], "encoding": {}}, "attrs": {"units": '
                        '"m"}}, "slant_range_to_last_pixel": {"__type__": "variable", "dims": ["rows"], "data": {"__type__": "array", "dtype": '
                        '"int64", "data": [0, 0, 0], "encoding": {}}, "attrs": {"units": "m"}}, "doppler_centroid_value_at_first_pixel": '
                        '{"__type__": "variable", "dims": ["rows"], "data": {"__type__": "array", "dtype": "float64", "data": [0.0, 0.0, 0.0], '
                        '"encoding": {}}, "attrs": {"units": "Hz"}}, "doppler_centroid_value_at_mid_pixel": {"__type__": "variable", "dims": '
                        '["rows"], "data": {"__type__": "array", "dtype": "float64", "data": [0.0, 0.0, 0.0], "encoding": {}}, "attrs": {"units": '
                        '"Hz"}}, "doppler_centroid_value_at_last_pixel": {"__type__": "variable", "dims": ["rows"], "data": {"__type__": "array", '
                        '"dtype": "float64", "data": [0.0, 0.0, 0.0], "encoding": {}}, "attrs": {"units": "Hz"}}, "azimuth_fm_rate_of_first_pixel": '
                        '{"__type__": "variable", "dims": ["rows"], "data": {"__type__": "array", "dtype": "int64", "data": [0, 0, 0], "encoding": '
                        '{}}, "attrs": {"units": "Hz/ms"}}, "azimuth_fm_rate_of_mid_pixel": {"__type__": "variable", "dims": ["rows"], "data": '
                        '{"__type__": "array", "dtype": "int64", "data": [0, 0, 0], "encoding": {}}, "attrs": {"units": "Hz/ms"}}, '
                        '"azimuth_fm_rate_of_last_pixel": {"__type__": "variable", "dims": ["rows"], "data": {"__type__": "array", "dtype": "int64", '
                        '"data": [0, 0, 0], "encoding": {}}, "attrs": {"units": "Hz/ms"}}, "look_angle_of_nadir": {"__type__": "variable", "dims": '
                        '["rows"], "data": {"__type__": "array", "dtype": "float64", "data": [0.0, 0.0, 0.0], "encoding": {}}, "attrs": {"units": '
                        '"deg"}}, "azimuth_squint_angle": {"__type__": "variable", "dims": ["rows"], "data": {"__type__": "array", "dtype": '
                        '"float64", "data": [0.0, 0.0, 0.0], "encoding": {}}, "attrs": {"units": "deg"}}, "latitude_of_first_pixel": {"__type__": '
                        '"variable", "dims": ["rows"], "data": {"__type__": "array", "dtype": "float64", "data": [0.0, 0.0, 0.0], "encoding": {}}, '
                        '"attrs": {"units": "deg"}}, "latitude_of_center_pixel": {"__type__": "variable", "dims": ["rows"], "data": {"__type__": '
                        '"array", "dtype": "float64", "data": [0.0, 0.0, 0.0], "encoding": {}}, "attrs": {"units": "deg"}}, '
                        '"latitude_of_last_pixel": {"__type__": "variable", "dims": ["rows"], "data": {"__type__": "array", "dtype": "float64", '
                        '"data": [0.0, 0.0, 0.0], "encoding": {}}, "attrs": {"units": "deg"}}, "longitude_of_first_pixel": {"__type__": "variable", '
                        '"dims": ["rows"], "data": {"__type__": "array", "dtype": "float64", "data": [0.0, 0.0, 0.0], "encoding": {}}, "attrs": '
                        '{"units": "deg"}}, "longitude_of_center_pixel": {"__type__": "variable", "dims": ["rows"], "data": {"__type__": "array", '
                        '"dtype": "float64", "data": [0.0, 0.0, 0.0], "encoding": {}}, "attrs": {"units": "deg"}}, "longitude_of_last_pixel": '
                        '{"__type__": "variable", "dims": ["rows"], "data": {"__type__": "array", "dtype": "float64", "data": [0.0, 0.0, 0.0], '
                        '"encoding": {}}, "attrs": {"units": "deg"}}, "northing_of_first_pixel": {"__type__": "variable", "dims": ["rows"], "data": '
                        '{"__type__": "array", "dtype": "int64", "data": [0, 0, 0], "encoding": {}}, "attrs": {"units": "m"}}, '
                        '"northing_of_last_pixel": {"__type__": "variable", "dims": ["rows"], "data": {"__type__": "array", "dtype": "int64", '
                        '"data": [0, 0, 0], "encoding": {}}, "attrs": {"units": "m"}}, "easting_of_first_pixel": {"__type__": "variable", "dims": '
                        '["rows"], "data": {"__type__": "array", "dtype": "int64", "data": [0, 0, 0], "encoding": {}}, "attrs": {"units": "m"}}, '
                        '"easting_of_last_pixel": {"__type__": "variable", "dims": ["rows"], "data": {"__type__": "array", "dtype": "int64", "data": '
                        '[0, 0, 0], "encoding": {}}, "attrs": {"units": "m"}}, "line_heading": {"__type__": "variable", "dims": ["rows"], "data": '
                        '{"__type__": "array", "dtype": "float64", "data": [0.0, 0.0, 0.0], "encoding": {}}, "attrs": {"units": "deg"}}, "data": '
                        '{"__type__": "variable", "dims": ["rows", "columns"], "data": {"__type__": "backend_array", "root": "/equiv6", "url": '
                        '"IMG-HV-ALOS2290760600-191011-WWDR1.5RUA", "shape": {"__type__": "tuple", "data": [3, 4]}, "dtype": "uint16", '
                        '"byte_ranges": [{"__type__": "tuple", "data": [912, 920]}, {"__type__": "tuple", "data": [1112, 1120]}, {"__type__": '
                        '"tuple", "data": [1312, 1320]}], "type_code": "IU2"}, "attrs": {}}}, "path": "HV", "attrs": {"sar_image_data_record_index": '
                        '1, "sensor_parameters_update_flag": 0, "sar_channel_id": "dual_polarization", "sar_channel_code": "L", '
                        '"transmitted_pulse_polarization": "horizontal", "received_pulse_polarization": "horizontal", "scan_id": 3, '
                        '"geographic_reference_parameter_update_flag": 0, "interleaving_id": "BSQ", "valid_range": [0, 65535], "coordinates": '
                        '["rows", "sensor_acquisition_date", "prf", "slant_range_to_first_pixel", "slant_range_to_mid_pixel", '
                        '"slant_range_to_last_pixel", "doppler_centroid_value_at_first_pixel", "doppler_centroid_value_at_mid_pixel", '
                        '"doppler_centroid_value_at_last_pixel", "azimuth_fm_rate_of_first_pixel", "azimuth_fm_rate_of_mid_pixel", '
                        '"azimuth_fm_rate_of_last_pixel", "look_angle_of_nadir", "azimuth_squint_angle", "latitude_of_first_pixel", '
                        '"latitude_of_center_pixel", "latitude_of_last_pixel", "longitude_of_first_pixel", "longitude_of_center_pixel", '
                        '"longitude_of_last_pixel", "northing_of_first_pixel", "northing_of_last_pixel", "easting_of_first_pixel", '
                        '"easting_of_last_pixel", "line_heading"]}}',
                        '{"__type__": "group", "url": null, "data": {"rows": {"__type__": "variable", "dims": ["rows"], "data": {"__type__": '
                        '"array", "dtype": "int64", "data": [1, 2, 3, 4, 5], "encoding": {}}, "attrs": {}}, "sensor_acquisition_date": {"__type__": '
                        '"variable", "dims": ["rows"], "data": {"__type__": "array", "dtype": "datetime64[ns]", "data": [0, 1000000, 2000000, '
                        '3000000, 4000000], "encoding": {"reference": "2020-07-18T00:00:01.001000000", "units": "ns"}}, "attrs": {}}, "prf": '
                        '{"__type__": "variable", "dims": ["rows"], "data": {"__type__": "array", "dtype": "int64", "data": [0, 0, 0, 0, 0], '
                        '"encoding": {}}, "attrs": {"units": "mHz"}}, "slant_range_to_first_pixel": {"__type__": "variable", "dims": ["rows"], '
                        '"data": {"__type__": "array", "dtype": "int64", "data": [0, 0, 0, 0, 0], "encoding": {}}, "attrs": {"units": "m"}}, '
                        '"slant_range_to_mid_pixel": {"__type__": "variable", "dims": ["rows"], "data": {"__type__": "array", "dtype": "int64", '
                        '"data": [0, 0, 0, 0, 0], "encoding": {}}, "attrs": {"units": "m"}}, "slant_range_to_last_pixel": {"__type__": "variable", '
                        '"dims": ["rows"], "data": {"__type__": "array", "dtype": "int64", "data": [0, 0, 0, 0, 0], "encoding": {}}, "attrs": '
                        '{"units": "m"}}, "doppler_centroid_value_at_first_pixel": {"__type__": "variable", "dims": ["rows"], "data": {"__type__": '
                        '"array", "dtype": "float64", "data": [0.0, 0.0, 0.0, 0.0, 0.0], "encoding": {}}, "attrs": {"units": "Hz"}}, '
                        '"doppler_centroid_value_at_mid_pixel": {"__type__": "variable", "dims": ["rows"], "data": {"__type__": "array", "dtype": '
                        '"float64", "data": [0.0, 0.0, 0.0, 0.0, 0.0], "encoding": {}}, "attrs": {"units": "Hz"}}, '
                        '"doppler_centroid_value_at_last_pixel": {"__type__": "variable", "dims": ["rows"], "data": {"__type__": "array", "dtype": '
                        '"float64", "data": [0.0, 0.0, 0.0, 0.0, 0.0], "encoding": {}}, "attrs": {"units": "Hz"}}, "azimuth_fm_rate_of_first_pixel": '
                        '{"__type__": "variable", "dims": ["rows"], "data": {"__type__": "array", "dtype": "int64", "data": [0, 0, 0, 0, 0], '
                        '"encoding": {}}, "attrs": {"units": "Hz/ms"}}, "azimuth_fm_rate_of_mid_pixel": {"__type__": "variable", "dims": ["rows"], '
                        '"data": {"__type__": "array", "dtype": "int64", "data": [0, 0, 0, 0, 0], "encoding": {}}, "attrs": {"units": "Hz/ms"}}, '
                        '"azimuth_fm_rate_of_last_pixel": {"__type__": "variable", "dims": ["rows"], "data": {"__type__": "array", "dtype": "int64", '
                        '"data": [0, 0, 0, 0, 0], "encoding": {}}, "attrs": {"units": "Hz/ms"}}, "look_angle_of_nadir": {"__type__": "variable", '
                        '"dims": ["rows"], "data": {"__type__": "array", "dtype": "float64", "data": [0.0, 0.0, 0.0, 0.0, 0.0], "encoding": {}}, '
                        '"attrs": {"units": "deg"}}, "azimuth_squint_angle": {"__type__": "variable", "dims": ["rows"], "data": {"__type__": '
                        '"array", "dtype": "float64", "data": [0.0, 0.0, 0.0, 0.0, 0.0], "encoding": {}}, "attrs": {"units": "deg"}}, '
                        '"latitude_of_first_pixel": {"__type__": "variable", "dims": ["rows"], "data": {"__type__": "array", "dtype": "float64", '
                        '"data": [0.0, 0.0, 0.0, 0.0, 0.0], "encoding": {}}, "attrs": {"units": "deg"}}, "latitude_of_center_pixel": {"__type__": '
                        '"variable", "dims": ["rows"], "data": {"__type__": "array", "dtype": "float64", "data": [0.0, 0.0, 0.0, 0.0, 0.0], '
                        '"encoding": {}}, "attrs": {"units": "deg"}}, "latitude_of_last_pixel": {"__type__": "variable", "dims": ["rows"], "data": '
                        '{"__type__": "array", "dtype": "float64", "data": [0.0, 0.0, 0.0, 0.0, 0.0], "encoding": {}}, "attrs": {"units": "deg"}}, '
                        '"longitude_of_first_pixel": {"__type__": "variable", "dims": ["rows"], "data": {"__type__": "array", "dtype": "float64", '
                        '"data": [0.0, 0.0, 0.0, 0.0, 0.0], "encoding": {}}, "attrs": {"units": "deg"}}, "longitude_of_center_pixel": {"__type__": '
                        '"variable", "dims": ["rows"], "data": {"__type__": "array", "dtype": "float64", "data": [0.0, 0.0, 0.0, 0.0, 0.0], '
                        '"encoding": {}}, "attrs": {"units": "deg"}}, "longitude_of_last_pixel": {"__type__": "variable", "dims": ["rows"], "data": '
                        '{"__type__": "array", "dtype": "float64", "data": [0.0, 0.0, 0.0, 0.0, 0.0], "encoding": {}}, "attrs": {"units": "deg"}}, '
                        '"northing_of_first_pixel": {"__type__": "variable", "dims": ["rows"], "data": {"__type__": "array", "dtype": "int64", '
                        '"data": [0, 0, 0, 0, 0], "encoding": {}}, "attrs": {"units": "m"}}, "northing_of_last_pixel": {"__type__": "variable", '
                        '"dims": ["rows"], "data": {"__type__": "array", "dtype": "int64", "data": [0, 0, 0, 0, 0], "encoding": {}}, "attrs": '
                        '{"units": "m"}}, "easting_of_first_pixel": {"__type__": "variable", "dims": ["rows"], "data": {"__type__": "array", '
                        '"dtype": "int64", "data": [0, 0, 0, 0, 0], "encoding": {}}, "attrs": {"units": "m"}}, "easting_of_last_pixel": {"__type__": '
                        '"variable", "dims": ["rows"], "data": {"__type__": "array", "dtype": "int64", "data": [0, 0, 0, 0, 0], "encoding": {}}, '
                        '"attrs": {"units": "m"}}, "line_heading": {"__type__": "variable", "dims": ["rows"], "data": {"__type__": "array", "dtype": '
                        '"float64", "data": [0.0, 0.0, 0.0, 0.0, 0.0], "encoding": {}}, "attrs": {"units": "deg"}}, "data": {"__type__": "variable", '
                        '"dims": ["rows", "columns"], "data": {"__type__": "backend_array", "root": "/equiv6", "url": '
                        '"IMG-HH-ALOS2225333100-180726-WWDR1.1__D-B3", "shape": {"__type__": "tuple", "data": [5, 2]}, "dtype": "complex64", '
                        '"byte_ranges": [{"__type__": "tuple", "data": [912, 928]}, {"__type__": "tuple", "data": [1120, 1136]}, {"__type__": '
                        '"tuple", "data": [1328, 1344]}, {"__type__": "tuple", "data": [1536, 1552]}, {"__type__": "tuple", "data": [1744, 1760]}], '
                        '"type_code": "C*8"}, "attrs": {}}}, "path": "HH_scan3", "attrs": {"sar_image_data_record_index": 1, '
                        '"sensor_parameters_update_flag": 0, "sar_channel_id": "dual_polarization", "sar_channel_code": "L", '
                        '"transmitted_pulse_polarization": "horizontal", "received_pulse_polarization": "horizontal", "scan_id": 3, '
                        '"geographic_reference_parameter_update_flag": 0, "interleaving_id": "BSQ", "coordinates": ["rows", '
                        '"sensor_acquisition_date", "prf", "slant_range_to_first_pixel", "slant_range_to_mid_pixel", "slant_range_to_last_pixel", '
                        '"doppler_centroid_value_at_first_pixel", "doppler_centroid_value_at_mid_pixel", "doppler_centroid_value_at_last_pixel", '
                        '"azimuth_fm_rate_of_first_pixel", "azimuth_fm_rate_of_mid_pixel", "azimuth_fm_rate_of_last_pixel", "look_angle_of_nadir", '
                        '"azimuth_squint_angle", "latitude_of_first_pixel", "latitude_of_center_pixel", "latitude_of_last_pixel", '
                        '"longitude_of_first_pixel", "longitude_of_center_pixel", "longitude_of_last_pixel", "northing_of_first_pixel", '
                        '"northing_of_last_pixel", "easting_of_first_pixel", "easting_of_last_pixel", "line_heading"]}}'),
 'cached/both': ('ok',
                 ('f31c6485943690100d2e3e57db9c59251053c87fb41da422b9f92562165d9b11', 'HV', None, 26,
                  "{'sar_image_data_record_index': 1, 'sensor_parameters_update_flag': 0, 'sar_channel_id': 'dual_polarization', 'sar_channel_code': "
                  "'L', 'transmitted_pulse_polarization': 'horizontal', 'received_pulse_polarization': 'horizontal', 'scan_id': 3, "
                  "'geographic_reference_parameter_update_flag': 0, 'interleaving_id': 'BSQ', 'valid_range': [0, 65535], 'coordinates': ['rows', "
                  "'sensor_acquisition_date', 'prf', 'slant_range_to_first_pixel', 'slant_range_to_mid_pixel', 'slant_range_to_last_pixel', "
                  "'doppler_centroid_value_at_first_pixel', 'doppler_centroid_value_at_mid_pixel', 'doppler_centroid_value_at_last_pixel', "
                  "'azimuth_fm_rate_of_first_pixel', 'azimuth_fm_rate_of_mid_pixel', 'azimuth_fm_rate_of_last_pixel', 'look_angle_of_nadir', "
                  "'azimuth_squint_angle', 'latitude_of_first_pixel', 'latitude_of_center_pixel', 'latitude_of_last_pixel', "
                  "'longitude_of_first_pixel', 'longitude_of_center_pixel', 'longitude_of_last_pixel', 'northing_of_first_pixel', "
                  "'northing_of_last_pixel', 'easting_of_first_pixel', 'easting_of_last_pixel', 'line_heading']}",
                  "['rows', 'columns']",
                  ('Array', 'DirFileSystem', '/equiv6', 'LocalFileSystem', 'IMG-HV-ALOS2290760600-191011-WWDR1.5RUA',
                   ('list',
                    [('tuple', [('int', '912'), ('int', '920')]), ('tuple', [('int', '1112'), ('int', '1120')]),
                     ('tuple', [('int', '1312'), ('int', '1320')])]),
                   ('tuple', [('int', '3'), ('int', '4')]), ('str', "'uint16'"), 'IU2', ('int', '2'),
                   ('dict',
                    [(0, ('dict', [('offset', ('int', '912')), ('size', ('int', '208'))])),
                     (1, ('dict', [('offset', ('int', '1312')), ('size', ('int', '8'))]))]))),
                 [],
                 [('f09b5d1ef50a4bf4859cb8bec5a929ea0f5aba47aa46afbb95b3e07ca7c1a017/IMG-HV-ALOS2290760600-191011-WWDR1.5RUA.index', 6222,
                   'a7d58c1a71497a0637ebba270aadfc5d792dfb1526f15d85c8bcb76db29b7685')],
                 None),
 'cached/local-garbage-remote-fine': ('ok',
                                      ('4fc396169214bd3e584ba84631f01a70e9fc32374364ee026f6d503737149e28', 'HV', None, 26,
                                       "{'sar_image_data_record_index': 1, 'sensor_parameters_update_flag': 0, 'sar_channel_id': "
                                       "'dual_polarization', 'sar_channel_code': 'L', 'transmitted_pulse_polarization': 'horizontal', "
                                       "'received_pulse_polarization': 'horizontal', 'scan_id': 3, 'geographic_reference_parameter_update_flag': 0, "
                                       "'interleaving_id': 'BSQ', 'valid_range': [0, 65535], 'coordinates': ['rows', 'sensor_acquisition_date', "
                                       "'prf', 'slant_range_to_first_pixel', 'slant_range_to_mid_pixel', 'slant_range_to_last_pixel', "
                                       "'doppler_centroid_value_at_first_pixel', 'doppler_centroid_value_at_mid_pixel', "
                                       "'doppler_centroid_value_at_last_pixel', 'azimuth_fm_rate_of_first_pixel', 'azimuth_fm_rate_of_mid_pixel', "
                                       "'azimuth_fm_rate_of_last_pixel', 'look_angle_of_nadir', 'azimuth_squint_angle', 'latitude_of_first_pixel', "
                                       "'latitude_of_center_pixel', 'latitude_of_last_pixel', 'longitude_of_first_pixel', "
                                       "'longitude_of_center_pixel', 'longitude_of_last_pixel', 'northing_of_first_pixel', 'northing_of_last_pixel', "
                                       "'easting_of_first_pixel', 'easting_of_last_pixel', 'line_heading']}",
                                       "['rows', 'columns']",
                                       ('Array', 'DirFileSystem', '/equiv6', 'LoggingMemoryFileSystem', 'IMG-HV-ALOS2290760600-191011-WWDR1.5RUA',
                                        ('list',
                                         [('tuple', [('int', '912'), ('int', '920')]), ('tuple', [('int', '1112'), ('int', '1120')]),
                                          ('tuple', [('int', '1312'), ('int', '1320')])]),
                                        ('tuple', [('int', '3'), ('int', '4')]), ('str', "'uint16'"), 'IU2', ('int', '2'),
                                        ('dict',
                                         [(0, ('dict', [('offset', ('int', '912')), ('size', ('int', '208'))])),
                                          (1, ('dict', [('offset', ('int', '1312')), ('size', ('int', '8'))]))]))),
                                      [('fs.open', '/equiv6/IMG-HV-ALOS2290760600-191011-WWDR1.5RUA', (), {'mode': 'rb'}), ('fs.isfile', '/equiv6'),
                                       ('fs.isfile', '/'), ('enter', '/equiv6/IMG-HV-ALOS2290760600-191011-WWDR1.5RUA'),
                                       ('read', '/equiv6/IMG-HV-ALOS2290760600-191011-WWDR1.5RUA', (720,), {}, 0),
                                       ('read', '/equiv6/IMG-HV-ALOS2290760600-191011-WWDR1.5RUA', (400,), {}, 720),
                                       ('read', '/equiv6/IMG-HV-ALOS2290760600-191011-WWDR1.5RUA', (200,), {}, 1120),
                                       ('exit', '/equiv6/IMG-HV-ALOS2290760600-191011-WWDR1.5RUA', None)],
                                      [('f09b5d1ef50a4bf4859cb8bec5a929ea0f5aba47aa46afbb95b3e07ca7c1a017/IMG-HV-ALOS2290760600-191011-WWDR1.5RUA.index',
                                        1, 'e88e0b3e9baa686bcf46f0dbc117a10c5d54783e3568c18388b5a235d2ef7739')],
                                      ('ndarray', 'uint16', (3, 4), '[[0, 1, 2, 3], [4, 5, 6, 7], [8, 9, 10, 11]]'))}


def test_equiv():
    observed = observe()
    assert list(observed) == list(EXPECTED)
    for name in observed:
        assert observed[name] == EXPECTED[name], name


if __name__ == "__main__":
    if "--record" in sys.argv:
        pprint.pprint(observe(), sort_dicts=False, width=150, compact=True)
    else:
        test_equiv()
        print(f"ok: {len(EXPECTED)} cases")
