"""Equivalence check for refactoring 2 (`extract_attrs` in ceos_alos2/sar_image/metadata.py).

Run as:  cd <worktree> && PYTHONPATH=<worktree> python _eq/2/equiv.py
Passes on clean HEAD and with patch.diff applied; the expected values were
recorded from the unchanged code.
"""

import math
import struct

from ceos_alos2.sar_image import metadata
from ceos_alos2.sar_image.file_descriptor import file_descriptor_record
from ceos_alos2.utils import to_dict

nan = float("nan")


def outcome(func, *args, **kwargs):
    try:
        return ("ok", func(*args, **kwargs))
    except Exception as e:  # noqa: BLE001
        return ("raised", type(e).__name__)


def same(a, b):
    """equality that also compares key order and types (no NaN in expected results)"""
    return a == b and list(a) == list(b) and type(a) is type(b)


def make_descriptor(*, interleaving, max_range, n_bursts, lines_per_burst, overlap):
    buf = bytearray(b" " * 720)
    buf[0:12] = struct.pack(">IBBBBI", 1, 50, 192, 18, 18, 720)
    buf[180:186] = b"     3"
    buf[186:192] = b"   200"
    buf[236:244] = b"       3"
    buf[248:256] = b"       4"
    buf[268:272] = interleaving
    buf[428:432] = b"IU2 "
    buf[440:448] = max_range
    buf[448:452] = n_bursts
    buf[452:456] = lines_per_burst
    buf[456:460] = overlap
    return bytes(buf)


CASES = [
    # (header, expected)
    # --- the cases of the test-suite
    ({"preamble": {}}, {}),
    (
        {
            "interleaving_id": "BSQ",
            "number_of_burst_data": 5,
            "number_of_lines_per_burst": 1,
            "number_of_overlap_lines_with_adjacent_bursts": 3,
        },
        {
            "interleaving_id": "BSQ",
            "number_of_burst_data": 5,
            "number_of_lines_per_burst": 1,
            "number_of_overlap_lines_with_adjacent_bursts": 3,
        },
    ),
    ({"maximum_data_range_of_pixel": 27}, {"valid_range": [0, 27]}),
    ({"maximum_data_range_of_pixel": nan}, {}),
    # --- empty / irrelevant content
    ({}, {}),
    ({"file_number": 3, "section": {"file_id": "x", "other": 1}}, {}),
    # --- missing value markers are dropped, one by one
    ({"maximum_data_range_of_pixel": -1}, {}),
    ({"maximum_data_range_of_pixel": -1.0}, {}),
    ({"number_of_burst_data": -1}, {}),
    ({"number_of_lines_per_burst": -1}, {}),
    ({"number_of_overlap_lines_with_adjacent_bursts": -1}, {}),
    ({"number_of_burst_data": -1, "number_of_lines_per_burst": 7}, {"number_of_lines_per_burst": 7}),
    # --- falsy but valid values are kept
    ({"maximum_data_range_of_pixel": 0}, {"valid_range": [0, 0]}),
    (
        {"number_of_burst_data": 0, "number_of_lines_per_burst": 0, "interleaving_id": ""},
        {"number_of_burst_data": 0, "number_of_lines_per_burst": 0, "interleaving_id": ""},
    ),
    ({"number_of_burst_data": None}, {"number_of_burst_data": None}),
    ({"maximum_data_range_of_pixel": 2.5}, {"valid_range": [0, 2.5]}),
    ({"maximum_data_range_of_pixel": True}, {"valid_range": [0, True]}),
    ({"maximum_data_range_of_pixel": float("inf")}, {"valid_range": [0, float("inf")]}),
    # --- list values: empty ones are dropped, non-empty ones kept; no transformer for interleaving_id
    ({"interleaving_id": [], "number_of_burst_data": []}, {}),
    ({"interleaving_id": -1}, {"interleaving_id": -1}),
    ({"number_of_burst_data": [1, 2]}, {"number_of_burst_data": [1, 2]}),
    ({"number_of_lines_per_burst": (), "interleaving_id": ()}, {"number_of_lines_per_burst": (), "interleaving_id": ()}),
    # --- exactly one nesting layer is removed
    (
        {
            "a": {"interleaving_id": "BIP", "number_of_burst_data": 4},
            "b": {"maximum_data_range_of_pixel": 255, "x": 1},
            "number_of_lines_per_burst": 12,
        },
        {
            "interleaving_id": "BIP",
            "number_of_burst_data": 4,
            "valid_range": [0, 255],
            "number_of_lines_per_burst": 12,
        },
    ),
    ({"a": {"b": {"number_of_burst_data": 4}}}, {}),
    # --- later sections win, but keep the position of the first occurrence
    (
        {
            "number_of_burst_data": 1,
            "interleaving_id": "A",
            "s": {"number_of_burst_data": 2},
            "t": {"number_of_burst_data": -1, "interleaving_id": "B"},
        },
        {"interleaving_id": "B"},
    ),
    (
        {"s": {"number_of_burst_data": -1, "number_of_lines_per_burst": 2}, "number_of_burst_data": 9},
        {"number_of_burst_data": 9, "number_of_lines_per_burst": 2},
    ),
    # --- the preamble is removed before flattening, even if it has known names
    ({"preamble": {"number_of_burst_data": 4}, "number_of_lines_per_burst": 3}, {"number_of_lines_per_burst": 3}),
    ({"preamble": 5, "interleaving_id": "BSQ"}, {"interleaving_id": "BSQ"}),
    # --- a known name at top level holding a dict is flattened away
    ({"number_of_burst_data": {"interleaving_id": "Q"}}, {"interleaving_id": "Q"}),
    # --- the translated name is not itself a known attribute
    ({"valid_range": [0, 3]}, {}),
]

ERRORS = [
    ({"maximum_data_range_of_pixel": "12"}, "TypeError"),
    ({"maximum_data_range_of_pixel": None}, "TypeError"),
    ({"maximum_data_range_of_pixel": [1]}, "TypeError"),
    ({"maximum_data_range_of_pixel": 1 + 2j}, "TypeError"),
    (None, "AttributeError"),
    (5, "AttributeError"),
    ([("interleaving_id", "BSQ")], "AttributeError"),
]


def check_cases():
    for header, expected in CASES:
        actual = metadata.extract_attrs(header)
        assert same(actual, expected), (header, actual, expected)
        if "valid_range" in expected:
            assert [type(v) for v in actual["valid_range"]] == [
                type(v) for v in expected["valid_range"]
            ]

    for header, expected in ERRORS:
        assert outcome(metadata.extract_attrs, header) == ("raised", expected), header


def check_purity():
    header = {
        "preamble": {"record_length": 720},
        "s": {"maximum_data_range_of_pixel": 100, "number_of_burst_data": [1]},
    }
    snapshot = {"preamble": {"record_length": 720}, "s": dict(header["s"])}
    first = metadata.extract_attrs(header)
    assert header == snapshot  # input not modified
    # mutating a result does not leak into later calls
    first["valid_range"].append(5)
    first["extra"] = 1
    second = metadata.extract_attrs(header)
    assert same(second, {"valid_range": [0, 100], "number_of_burst_data": [1]})
    assert second is not first and second["valid_range"] is not first["valid_range"]
    # values without a transformer / passed through are the very same objects
    assert second["number_of_burst_data"] is header["s"]["number_of_burst_data"]


def check_real_header():
    full = make_descriptor(
        interleaving=b"BSQ ",
        max_range=b"   65535",
        n_bursts=b" 120",
        lines_per_burst=b"  52",
        overlap=b"   6",
    )
    header = to_dict(file_descriptor_record.parse(full))
    assert same(
        metadata.extract_attrs(header),
        {
            "interleaving_id": "BSQ",
            "valid_range": [0, 65535],
            "number_of_burst_data": 120,
            "number_of_lines_per_burst": 52,
            "number_of_overlap_lines_with_adjacent_bursts": 6,
        },
    )

    blank = make_descriptor(
        interleaving=b"BSQ ",
        max_range=b" " * 8,
        n_bursts=b" " * 4,
        lines_per_burst=b" " * 4,
        overlap=b" " * 4,
    )
    header = to_dict(file_descriptor_record.parse(blank))
    assert same(metadata.extract_attrs(header), {"interleaving_id": "BSQ"})

    partial = make_descriptor(
        interleaving=b"    ",
        max_range=b"       0",
        n_bursts=b" " * 4,
        lines_per_burst=b"   1",
        overlap=b" " * 4,
    )
    header = to_dict(file_descriptor_record.parse(partial))
    assert same(
        metadata.extract_attrs(header),
        {"interleaving_id": "", "valid_range": [0, 0], "number_of_lines_per_burst": 1},
    )


def check_transform_metadata():
    # `extract_attrs` feeds the group attrs in `transform_metadata`
    header = {
        "preamble": {},
        "prefix_suffix_data_locators": {
            "sar_data_format_type_code": "IU2",
            "maximum_data_range_of_pixel": 1000,
            "number_of_burst_data": -1,
        },
        "sar_related_data_in_the_record": {
            "number_of_lines_per_dataset": 2,
            "number_of_data_groups_per_line": 4,
            "interleaving_id": "BSQ",
        },
    }
    records = [
        {"scan_id": 1, "sar_image_data_line_number": 1, "data": {"start": 1, "stop": 5}},
        {"scan_id": 1, "sar_image_data_line_number": 2, "data": {"start": 6, "stop": 10}},
    ]
    group, array_metadata = metadata.transform_metadata(header, records)
    assert same(
        group.attrs,
        {"scan_id": 1, "valid_range": [0, 1000], "interleaving_id": "BSQ", "coordinates": ["rows"]},
    ), group.attrs
    assert array_metadata == {
        "type_code": "IU2",
        "shape": (2, 4),
        "dtype": "uint16",
        "byte_ranges": [(1, 5), (6, 10)],
    }


if __name__ == "__main__":
    assert math.isnan(nan)
    check_cases()
    check_purity()
    check_real_header()
    check_transform_metadata()
    print("equiv 2: OK")
