"""Equivalence check for refactoring 5 (caching/__init__.py: encode, decode,
read_cache, create_cache; caching/path.py: hashsum, local_cache_location).

Run: cd /tmp/wt6/e43 && PYTHONPATH=/tmp/wt6/e43 /venv/bin/python _eq/5/equiv.py
The expectations in EXPECTED were recorded from the unchanged code (HEAD); the
script must pass both with and without patch.diff applied.
"""
import contextlib
import tempfile
import json
import pathlib
import sys
import warnings

import numpy as np

warnings.simplefilter("ignore")


def canon(obj):
    """Deterministic, type-aware description of a result."""
    from ceos_alos2.array import Array
    from ceos_alos2.hierarchy import Group, Variable

    if isinstance(obj, Group):
        return [
            "Group",
            canon(obj.path),
            canon(obj.url),
            canon(obj.attrs),
            [type(obj.data).__name__, [[canon(k), canon(v)] for k, v in obj.data.items()]],
        ]
    if isinstance(obj, Variable):
        return ["Variable", canon(obj.dims), canon(obj.data), canon(obj.attrs)]
    if isinstance(obj, Array):
        return [
            "Array",
            type(obj.fs).__name__,
            canon(getattr(obj.fs, "path", None)),
            type(getattr(obj.fs, "fs", None)).__name__,
            canon(obj.url),
            canon(obj.byte_ranges),
            canon(obj.shape),
            canon(obj.dtype),
            canon(obj.type_code),
            canon(obj.records_per_chunk),
            canon(obj.chunk_offsets),
        ]
    if isinstance(obj, np.ndarray):
        flat = obj.ravel()
        if obj.dtype.kind in "mM":
            items = [[str(v), int(v.astype("int64"))] for v in flat]
        else:
            items = [canon(v) for v in flat.tolist()]
        return ["ndarray", str(obj.dtype), list(obj.shape), items]
    if isinstance(obj, np.generic):
        return [type(obj).__name__, str(obj)]
    if isinstance(obj, dict):
        return [type(obj).__name__, [[canon(k), canon(v)] for k, v in obj.items()]]
    if isinstance(obj, (list, tuple)):
        return [type(obj).__name__, [canon(v) for v in obj]]
    if isinstance(obj, pathlib.PurePath):
        return [type(obj).__name__, str(obj)]
    if isinstance(obj, BaseException):
        return ["exc", type(obj).__name__, str(obj)]
    if obj is None or isinstance(obj, (bool, int, float, str, bytes)):
        return [type(obj).__name__, repr(obj)]
    return ["other", type(obj).__name__, repr(obj)]


def outcome(thunk):
    try:
        result = thunk()
    except BaseException as e:  # noqa: B902
        chain = []
        cur = e
        while cur is not None:
            chain.append([type(cur).__name__, str(cur)])
            cur = cur.__cause__
        return ["raised", chain]
    return ["returned", canon(result)]


def main(cases, expected_text):
    actual = {name: outcome(thunk) for name, thunk in cases().items()}
    if "--record" in sys.argv:
        lines = [f" {json.dumps(name)}: {json.dumps(actual[name])}" for name in sorted(actual)]
        print("{\n" + ",\n".join(lines) + "\n}")
        return
    expected = json.loads(expected_text)
    assert sorted(actual) == sorted(expected), (sorted(actual), sorted(expected))
    failures = [name for name in actual if json.loads(json.dumps(actual[name])) != expected[name]]
    for name in failures:
        print("MISMATCH", name, "\n  expected:", expected[name], "\n  actual:  ", actual[name])
    assert not failures, failures
    print(f"OK: {len(actual)} cases identical to the recorded behaviour")


class FakeMapper:
    """stand-in for fsspec's FSMap that records every request"""

    def __init__(self, root, store, log):
        self._root = root
        self.store = store
        self.log = log

    @property
    def root(self):
        self.log.append(("mapper.root",))
        return self._root

    def __contains__(self, key):
        self.log.append(("mapper.contains", key))
        return key in self.store

    def __getitem__(self, key):
        self.log.append(("mapper.getitem", key))
        return self.store[key]


@contextlib.contextmanager
def fake_local_files(files, log, cache_root="/eq5/cache"):
    """replace the local cache directory by an in-memory one and log all requests"""
    from ceos_alos2.sar_image.caching import path as path_module

    P = pathlib.Path
    saved = {name: getattr(P, name) for name in ("is_file", "read_text", "mkdir", "write_text")}
    saved_root = path_module.cache_root

    def is_file(self):
        log.append(("is_file", str(self)))
        return str(self) in files

    def read_text(self, *args, **kwargs):
        log.append(("read_text", str(self), args, sorted(kwargs.items())))
        value = files[str(self)]
        if isinstance(value, BaseException):
            raise value
        return value

    def mkdir(self, *args, **kwargs):
        log.append(("mkdir", str(self), args, sorted(kwargs.items())))

    def write_text(self, *args, **kwargs):
        log.append(("write_text", str(self), args, sorted(kwargs.items())))
        files[str(self)] = args[0]
        return len(args[0])

    P.is_file, P.read_text, P.mkdir, P.write_text = is_file, read_text, mkdir, write_text
    path_module.cache_root = P(cache_root)
    try:
        yield
    finally:
        for name, value in saved.items():
            setattr(P, name, value)
        path_module.cache_root = saved_root


class Opaque:
    def __repr__(self):
        return "Opaque()"


def cases():
    import fsspec

    from ceos_alos2.hierarchy import Group, Variable
    from ceos_alos2.sar_image import caching
    from ceos_alos2.sar_image.caching import path as cpath

    c = {}

    # path.hashsum
    for name, data in {
        "hex": "ddeeaaddbbeeeeff",
        "empty": "",
        "url": "s3://bucket/path/to/data",
        "unicode": "données/été",
        "long": "x" * 10000,
    }.items():
        c[f"hashsum-{name}"] = lambda data=data: cpath.hashsum(data)
        for algorithm in ["sha256", "md5", "sha1", "blake2b", "SHA512"]:
            c[f"hashsum-{name}-{algorithm}"] = lambda data=data, algorithm=algorithm: cpath.hashsum(
                data, algorithm
            )
    c["hashsum-keyword"] = lambda: cpath.hashsum("abc", algorithm="sha3_224")
    c["hashsum-shake"] = lambda: cpath.hashsum("abc", "shake_128")
    c["hashsum-unknown-algorithm"] = lambda: cpath.hashsum("abc", "nope")
    c["hashsum-bytes"] = lambda: cpath.hashsum(b"abc")
    c["hashsum-none"] = lambda: cpath.hashsum(None)
    c["hashsum-int"] = lambda: cpath.hashsum(5)
    c["hashsum-unknown-algorithm-and-bytes"] = lambda: cpath.hashsum(b"abc", "nope")
    c["hashsum-algorithm-none"] = lambda: cpath.hashsum("abc", None)
    c["hashsum-surrogate"] = lambda: cpath.hashsum("\udc80")

    # path.local_cache_location / remote_cache_location
    roots = ["http://127.0.0.1/path/to/data", "s3://bucket/path/to/data", "/path/to/data", ""]
    paths = [
        "image1",
        "IMG-HH-ALOS2225333200-180726-WWDR1.1__D",
        "sub/dir/image2",
        "/abs/image3",
        "trailing/",
        "",
        "/",
        "a//b",
        "with space.index",
        "..",
        "été",
    ]

    def with_cache_root(root, func):
        def run():
            saved = cpath.cache_root
            cpath.cache_root = pathlib.Path(root)
            try:
                return func()
            finally:
                cpath.cache_root = saved

        return run

    for i, root in enumerate(roots):
        for j, path in enumerate(paths):
            c[f"local-location-{i}-{j}"] = with_cache_root(
                "/path/to/cache1/xarray-ceos-alos2",
                lambda root=root, path=path: cpath.local_cache_location(root, path),
            )
            c[f"remote-location-{i}-{j}"] = lambda root=root, path=path: cpath.remote_cache_location(
                root, path
            )
    c["local-location-other-cache-root"] = with_cache_root(
        "relative/cache", lambda: cpath.local_cache_location("s3://b", "x/y")
    )
    c["local-location-purepath-root"] = with_cache_root(
        "/c", lambda: type(cpath.local_cache_location("s3://b", "x/y")).__name__
    )
    c["local-location-path-object"] = with_cache_root(
        "/c", lambda: cpath.local_cache_location("s3://b", pathlib.PurePosixPath("x/y"))
    )
    c["local-location-int-path"] = with_cache_root(
        "/c", lambda: cpath.local_cache_location("s3://b", 5)
    )
    c["local-location-none-path"] = with_cache_root(
        "/c", lambda: cpath.local_cache_location("s3://b", None)
    )
    c["local-location-none-root"] = with_cache_root(
        "/c", lambda: cpath.local_cache_location(None, "x")
    )
    c["local-location-bytes-root"] = with_cache_root(
        "/c", lambda: cpath.local_cache_location(b"s3://b", "x")
    )
    c["local-location-default-root-name"] = lambda: [
        cpath.project_name,
        cpath.cache_root.name,
        cpath.local_cache_location("r", "p").parent.parent == cpath.cache_root,
    ]

    # encode / decode
    def make_array(shape=(4, 3), dtype="complex64", type_code="C*8", rpc=3):
        from fsspec.implementations.dirfs import DirFileSystem
        from fsspec.implementations.memory import MemoryFileSystem

        from ceos_alos2.array import Array

        fs = DirFileSystem(fs=MemoryFileSystem(), path="/path/to")
        byte_ranges = [(x * 10 + 5, (x + 1) * 10) for x in range(shape[0])]
        return Array(
            fs=fs,
            url="file",
            byte_ranges=byte_ranges,
            shape=shape,
            dtype=dtype,
            type_code=type_code,
            records_per_chunk=rpc,
        )

    def tree():
        return Group(
            path=None,
            url="s3://bucket/scene",
            data={
                "v": Variable(["x", "y"], make_array(), {"pol": "HH"}),
                "t": Variable(
                    "t", np.array(["2020-01-01", "2020-01-03"], dtype="datetime64[s]"), {"r": (1, 2)}
                ),
                "sub": Group(
                    path=None,
                    url=None,
                    data={"n": Variable("n", np.array([1.5, 2.5]), {})},
                    attrs={"deep": {"t": ((1,), [2])}},
                ),
            },
            attrs={"title": "scene", "shape": (2, 3)},
        )

    objs = {
        "tree": tree(),
        "empty-group": Group(path="/", url="s3://bucket/data", data={}, attrs={}),
        "variable": Variable("x", np.array([1, 2, 3], dtype="int8"), {"a": (1,)}),
        "dict": {"a": (1, 2), "b": [None, True]},
        "list": [1, (2, 3)],
        "tuple": (1, 2),
        "str": "abc",
        "none": None,
        "int": 5,
        "nan": float("nan"),
        "non-str-keys": {1: "a", None: "b"},
        "tuple-key": {(1, 2): "a"},
        "ndarray": np.array([1, 2]),
        "opaque": Opaque(),
        "bytes": b"abc",
        "group-with-ndarray-attr": Group(path=None, url=None, data={}, attrs={"a": np.array([1])}),
    }
    for name, obj in objs.items():
        c[f"encode-{name}"] = lambda obj=obj: caching.encode(obj)

    texts = {
        "tree": caching.encode(tree()),
        "empty-group": caching.encode(objs["empty-group"]),
        "variable": caching.encode(objs["variable"]),
        "plain-dict": '{"a": {"__type__": "tuple", "data": [1, 2]}}',
        "empty-dict": "{}",
        "list": "[1, 2]",
        "scalar": "5",
        "string": '"abc"',
        "null": "null",
        "empty": "",
        "whitespace": "  ",
        "truncated": caching.encode(tree())[:40],
        "trailing-garbage": "{} x",
        "single-quotes": "{'a': 1}",
        "nan": '{"a": NaN}',
        "broken-tuple": '{"a": {"__type__": "tuple"}}',
        "scalar-tuple": '{"a": {"__type__": "tuple", "data": 1}}',
        "broken-group": '{"__type__": "group"}',
        "broken-variable": '{"__type__": "variable", "data": {"__type__": "array", "dtype": "int65", "data": []}}',
        "bad-datetime": '{"__type__": "variable", "dims": ["t"], "attrs": {}, "data": {"__type__": "array", "dtype": "datetime64[s]", "data": [0], "encoding": {"reference": "yesterday", "units": "s"}}}',
        "unhashable-type": '{"__type__": ["group"]}',
        "big-int": '{"a": ' + "9" * 5000 + "}",
        "duplicate-keys": '{"a": 1, "a": 2}',
    }
    for name, text in texts.items():
        for rpc in [None, 2]:
            c[f"decode-{name}-rpc{rpc}"] = lambda text=text, rpc=rpc: caching.decode(
                text, records_per_chunk=rpc
            )
    c["decode-bytes"] = lambda: caching.decode(texts["empty-group"].encode(), records_per_chunk=2)
    c["decode-bad-bytes"] = lambda: caching.decode(b"\xff\xfe{}", records_per_chunk=2)
    c["decode-invalid-utf8"] = lambda: caching.decode(b'{"a": "\xff"}', records_per_chunk=2)
    c["decode-none"] = lambda: caching.decode(None, records_per_chunk=2)
    c["decode-int"] = lambda: caching.decode(5, records_per_chunk=2)
    c["decode-positional-rpc"] = lambda: caching.decode(texts["tree"], 2)

    def decode_error_details(text):
        def run():
            try:
                caching.decode(text, records_per_chunk=2)
            except Exception as e:
                return [
                    type(e).__name__,
                    type(e).__mro__[1].__name__,
                    isinstance(e, FileNotFoundError),
                    e.args,
                    type(e.__cause__).__name__,
                    str(e.__cause__),
                    e.__suppress_context__,
                ]
            return "no error"

        return run

    c["decode-error-details-empty"] = decode_error_details("")
    c["decode-error-details-truncated"] = decode_error_details(texts["truncated"])
    c["decode-error-details-key"] = decode_error_details(texts["broken-tuple"])
    c["caching-error-class"] = lambda: [
        caching.CachingError.__name__,
        [k.__name__ for k in caching.CachingError.__mro__],
    ]

    # read_cache
    root = "memory://cache"
    digest = cpath.hashsum(root)

    def read(path, local=None, remote=None, rpc=3, mapper_root=root):
        def run():
            log = []
            files = {}
            if local is not None:
                fname = f"/{path}".rsplit("/", 1)[1]
                files[f"/eq5/cache/{cpath.hashsum(mapper_root)}/{fname}.index"] = local
            store = {}
            if remote is not None:
                store[f"{path}.index"] = remote
            mapper = FakeMapper(mapper_root, store, log)
            with fake_local_files(files, log):
                out = outcome(lambda: caching.read_cache(mapper, path, records_per_chunk=rpc))
            return [out, log]

        return run

    good = texts["tree"]
    other = texts["empty-group"]
    c["read-nothing"] = read("not-a-cache")
    c["read-nothing-nested-path"] = read("a/b/not-a-cache")
    c["read-remote"] = read("image1", remote=good.encode())
    c["read-local"] = read("image2", local=good, rpc=4)
    c["read-both-prefers-local"] = read("image3", local=other, remote=good.encode())
    c["read-nested-path-remote"] = read("sub/dir/image", remote=other.encode())
    c["read-nested-path-local"] = read("sub/dir/image", local=other)
    c["read-local-invalid"] = read("image", local="{", remote=good.encode())
    c["read-local-empty"] = read("image", local="")
    c["read-remote-invalid"] = read("image", remote=b"not json")
    c["read-remote-empty"] = read("image", remote=b"")
    c["read-remote-not-utf8"] = read("image", remote=b"\xff\xfe")
    c["read-remote-str"] = read("image", remote=good)
    c["read-remote-none-value"] = read("image", remote=None)
    c["read-local-oserror"] = read("image", local=OSError("disk"), remote=good.encode())
    c["read-local-broken-structure"] = read("image", local='{"__type__": "group"}')
    c["read-rpc-auto"] = read("image", remote=good.encode(), rpc="auto")
    c["read-rpc-none"] = read("image", local=good, rpc=None)
    c["read-empty-path"] = read("", remote=other.encode())
    c["read-root-none"] = read("image", remote=good.encode(), mapper_root=None)
    c["read-root-int"] = read("image", mapper_root=5)

    def read_positional():
        log = []
        mapper = FakeMapper(root, {"image.index": other.encode()}, log)
        with fake_local_files({}, log):
            return [caching.read_cache(mapper, "image", 2), log]

    c["read-positional-rpc"] = read_positional

    def read_real_mapper():
        mapper = fsspec.get_mapper("memory://eq5-real")
        mapper["image1.index"] = other.encode()
        log = []
        with fake_local_files({}, log):
            return [
                outcome(lambda: caching.read_cache(mapper, "image1", records_per_chunk=2)),
                outcome(lambda: caching.read_cache(mapper, "image2", records_per_chunk=2)),
                log,
            ]

    c["read-real-mapper"] = read_real_mapper

    # create_cache
    def create(path, data, mapper_root=root, preexisting=None):
        def run():
            log = []
            files = dict(preexisting or {})
            mapper = FakeMapper(mapper_root, {}, log)
            with fake_local_files(files, log):
                out = outcome(lambda: caching.create_cache(mapper, path, data))
            return [out, log, sorted(files.items()), mapper.store]

        return run

    c["create-tree"] = create("image", tree())
    c["create-empty-group"] = create("image", objs["empty-group"])
    c["create-nested-path"] = create("sub/dir/image", objs["empty-group"])
    c["create-variable"] = create("v", objs["variable"])
    c["create-plain"] = create("p", {"a": (1,)})
    c["create-unencodable"] = create("bad", Opaque())
    c["create-unencodable-attr"] = create("bad", objs["group-with-ndarray-attr"])
    c["create-root-none"] = create("image", objs["empty-group"], mapper_root=None)
    c["create-overwrites"] = create(
        "image", objs["empty-group"], preexisting={f"/eq5/cache/{digest}/image.index": "old"}
    )

    def create_then_read():
        log = []
        files = {}
        mapper = FakeMapper(root, {}, log)
        with fake_local_files(files, log):
            caching.create_cache(mapper, "scene/image", tree())
            result = caching.read_cache(mapper, "scene/image", records_per_chunk=2)
        return [result, log]

    c["create-then-read"] = create_then_read

    def real_filesystem():
        with tempfile.TemporaryDirectory() as tmp:
            saved = cpath.cache_root
            cpath.cache_root = pathlib.Path(tmp) / "nested" / "cache"
            try:
                mapper = fsspec.get_mapper("memory://eq5-fs")
                missing = outcome(lambda: caching.read_cache(mapper, "image", records_per_chunk=2))
                caching.create_cache(mapper, "image", tree())
                caching.create_cache(mapper, "image", tree())  # directory exists already
                written = sorted(
                    str(p.relative_to(tmp)) for p in pathlib.Path(tmp).rglob("*") if p.is_file()
                )
                text = (cpath.cache_root / cpath.hashsum(mapper.root) / "image.index").read_text()
                result = caching.read_cache(mapper, "image", records_per_chunk=2)
                return [missing, written, text, result, list(mapper)]
            finally:
                cpath.cache_root = saved

    c["real-filesystem"] = real_filesystem

    return c


EXPECTED = r'''
{
 "caching-error-class": ["returned", ["list", [["str", "'CachingError'"], ["list", [["str", "'CachingError'"], ["str", "'FileNotFoundError'"], ["str", "'OSError'"], ["str", "'Exception'"], ["str", "'BaseException'"], ["str", "'object'"]]]]]],
 "create-empty-group": ["returned", ["list", [["list", [["str", "'returned'"], ["list", [["str", "'NoneType'"], ["str", "'None'"]]]]], ["list", [["tuple", [["str", "'mapper.root'"]]], ["tuple", [["str", "'mkdir'"], ["str", "'/eq5/cache/4f7cfeeaf747854a0a17f4fa6b2181e08de541609edf2ad148ca93567cf73d6a'"], ["tuple", []], ["list", [["tuple", [["str", "'exist_ok'"], ["bool", "True"]]], ["tuple", [["str", "'parents'"], ["bool", "True"]]]]]]], ["tuple", [["str", "'write_text'"], ["str", "'/eq5/cache/4f7cfeeaf747854a0a17f4fa6b2181e08de541609edf2ad148ca93567cf73d6a/image.index'"], ["tuple", [["str", "'{\"__type__\": \"group\", \"url\": \"s3://bucket/data\", \"data\": {}, \"path\": \"/\", \"attrs\": {}}'"]]], ["list", []]]]]], ["list", [["tuple", [["str", "'/eq5/cache/4f7cfeeaf747854a0a17f4fa6b2181e08de541609edf2ad148ca93567cf73d6a/image.index'"], ["str", "'{\"__type__\": \"group\", \"url\": \"s3://bucket/data\", \"data\": {}, \"path\": \"/\", \"attrs\": {}}'"]]]]], ["dict", []]]]],
 "create-nested-path": ["returned", ["list", [["list", [["str", "'returned'"], ["list", [["str", "'NoneType'"], ["str", "'None'"]]]]], ["list", [["tuple", [["str", "'mapper.root'"]]], ["tuple", [["str", "'mkdir'"], ["str", "'/eq5/cache/4f7cfeeaf747854a0a17f4fa6b2181e08de541609edf2ad148ca93567cf73d6a'"], ["tuple", []], ["list", [["tuple", [["str", "'exist_ok'"], ["bool", "True"]]], ["tuple", [["str", "'parents'"], ["bool", "True"]]]]]]], ["tuple", [["str", "'write_text'"], ["str", "'/eq5/cache/4f7cfeeaf747854a0a17f4fa6b2181e08de541609edf2ad148ca93567cf73d6a/image.index'"], ["tuple", [["str", "'{\"__type__\": \"group\", \"url\": \"s3://bucket/data\", \"data\": {}, \"path\": \"/\", \"attrs\": {}}'"]]], ["list", []]]]]], ["list", [["tuple", [["str", "'/eq5/cache/4f7cfeeaf747854a0a17f4fa6b2181e08de541609edf2ad148ca93567cf73d6a/image.index'"], ["str", "'{\"__type__\": \"group\", \"url\": \"s3://bucket/data\", \"data\": {}, \"path\": \"/\", \"attrs\": {}}'"]]]]], ["dict", []]]]],
 "create-overwrites": ["returned", ["list", [["list", [["str", "'returned'"], ["list", [["str", "'NoneType'"], ["str", "'None'"]]]]], ["list", [["tuple", [["str", "'mapper.root'"]]], ["tuple", [["str", "'mkdir'"], ["str", "'/eq5/cache/4f7cfeeaf747854a0a17f4fa6b2181e08de541609edf2ad148ca93567cf73d6a'"], ["tuple", []], ["list", [["tuple", [["str", "'exist_ok'"], ["bool", "True"]]], ["tuple", [["str", "'parents'"], ["bool", "True"]]]]]]], ["tuple", [["str", "'write_text'"], ["str", "'/eq5/cache/4f7cfeeaf747854a0a17f4fa6b2181e08de541609edf2ad148ca93567cf73d6a/image.index'"], ["tuple", [["str", "'{\"__type__\": \"group\", \"url\": \"s3://bucket/data\", \"data\": {}, \"path\": \"/\", \"attrs\": {}}'"]]], ["list", []]]]]], ["list", [["tuple", [["str", "'/eq5/cache/4f7cfeeaf747854a0a17f4fa6b2181e08de541609edf2ad148ca93567cf73d6a/image.index'"], ["str", "'{\"__type__\": \"group\", \"url\": \"s3://bucket/data\", \"data\": {}, \"path\": \"/\", \"attrs\": {}}'"]]]]], ["dict", []]]]],
 "create-plain": ["returned", ["list", [["list", [["str", "'returned'"], ["list", [["str", "'NoneType'"], ["str", "'None'"]]]]], ["list", [["tuple", [["str", "'mapper.root'"]]], ["tuple", [["str", "'mkdir'"], ["str", "'/eq5/cache/4f7cfeeaf747854a0a17f4fa6b2181e08de541609edf2ad148ca93567cf73d6a'"], ["tuple", []], ["list", [["tuple", [["str", "'exist_ok'"], ["bool", "True"]]], ["tuple", [["str", "'parents'"], ["bool", "True"]]]]]]], ["tuple", [["str", "'write_text'"], ["str", "'/eq5/cache/4f7cfeeaf747854a0a17f4fa6b2181e08de541609edf2ad148ca93567cf73d6a/p.index'"], ["tuple", [["str", "'{\"a\": {\"__type__\": \"tuple\", \"data\": [1]}}'"]]], ["list", []]]]]], ["list", [["tuple", [["str", "'/eq5/cache/4f7cfeeaf747854a0a17f4fa6b2181e08de541609edf2ad148ca93567cf73d6a/p.index'"], ["str", "'{\"a\": {\"__type__\": \"tuple\", \"data\": [1]}}'"]]]]], ["dict", []]]]],
 "create-root-none": ["returned", ["list", [["list", [["str", "'raised'"], ["list", [["list", [["str", "'AttributeError'"], ["str", "\"'NoneType' object has no attribute 'encode'\""]]]]]]], ["list", [["tuple", [["str", "'mapper.root'"]]]]], ["list", []], ["dict", []]]]],
 "create-then-read": ["returned", ["list", [["Group", ["str", "'/'"], ["str", "'s3://bucket/scene'"], ["dict", [[["str", "'title'"], ["str", "'scene'"]], [["str", "'shape'"], ["tuple", [["int", "2"], ["int", "3"]]]]]], ["dict", [[["str", "'v'"], ["Variable", ["list", [["str", "'x'"], ["str", "'y'"]]], ["Array", "DirFileSystem", ["str", "'/path/to'"], "LocalFileSystem", ["str", "'file'"], ["list", [["tuple", [["int", "5"], ["int", "10"]]], ["tuple", [["int", "15"], ["int", "20"]]], ["tuple", [["int", "25"], ["int", "30"]]], ["tuple", [["int", "35"], ["int", "40"]]]]], ["tuple", [["int", "4"], ["int", "3"]]], ["str", "'complex64'"], ["str", "'C*8'"], ["int", "2"], ["dict", [[["int", "0"], ["dict", [[["str", "'offset'"], ["int", "5"]], [["str", "'size'"], ["int", "15"]]]]], [["int", "1"], ["dict", [[["str", "'offset'"], ["int", "25"]], [["str", "'size'"], ["int", "15"]]]]]]]], ["dict", [[["str", "'pol'"], ["str", "'HH'"]]]]]], [["str", "'t'"], ["Variable", ["list", [["str", "'t'"]]], ["ndarray", "datetime64[s]", [2], [["2020-01-01T00:00:00", 1577836800], ["2020-01-03T00:00:00", 1578009600]]], ["dict", [[["str", "'r'"], ["tuple", [["int", "1"], ["int", "2"]]]]]]]], [["str", "'sub'"], ["Group", ["str", "'/sub'"], ["str", "'s3://bucket/scene'"], ["dict", [[["str", "'deep'"], ["dict", [[["str", "'t'"], ["tuple", [["tuple", [["int", "1"]]], ["list", [["int", "2"]]]]]]]]]]], ["dict", [[["str", "'n'"], ["Variable", ["list", [["str", "'n'"]]], ["ndarray", "float64", [2], [["float", "1.5"], ["float", "2.5"]]], ["dict", []]]]]]]]]]], ["list", [["tuple", [["str", "'mapper.root'"]]], ["tuple", [["str", "'mkdir'"], ["str", "'/eq5/cache/4f7cfeeaf747854a0a17f4fa6b2181e08de541609edf2ad148ca93567cf73d6a'"], ["tuple", []], ["list", [["tuple", [["str", "'exist_ok'"], ["bool", "True"]]], ["tuple", [["str", "'parents'"], ["bool", "True"]]]]]]], ["tuple", [["str", "'write_text'"], ["str", "'/eq5/cache/4f7cfeeaf747854a0a17f4fa6b2181e08de541609edf2ad148ca93567cf73d6a/image.index'"], ["tuple", [["str", "'{\"__type__\": \"group\", \"url\": \"s3://bucket/scene\", \"data\": {\"v\": {\"__type__\": \"variable\", \"dims\": [\"x\", \"y\"], \"data\": {\"__type__\": \"backend_array\", \"root\": \"/path/to\", \"url\": \"file\", \"shape\": {\"__type__\": \"tuple\", \"data\": [4, 3]}, \"dtype\": \"complex64\", \"byte_ranges\": [{\"__type__\": \"tuple\", \"data\": [5, 10]}, {\"__type__\": \"tuple\", \"data\": [15, 20]}, {\"__type__\": \"tuple\", \"data\": [25, 30]}, {\"__type__\": \"tuple\", \"data\": [35, 40]}], \"type_code\": \"C*8\"}, \"attrs\": {\"pol\": \"HH\"}}, \"t\": {\"__type__\": \"variable\", \"dims\": [\"t\"], \"data\": {\"__type__\": \"array\", \"dtype\": \"datetime64[s]\", \"data\": [0, 172800], \"encoding\": {\"reference\": \"2020-01-01T00:00:00\", \"units\": \"s\"}}, \"attrs\": {\"r\": {\"__type__\": \"tuple\", \"data\": [1, 2]}}}, \"sub\": {\"__type__\": \"group\", \"url\": \"s3://bucket/scene\", \"data\": {\"n\": {\"__type__\": \"variable\", \"dims\": [\"n\"], \"data\": {\"__type__\": \"array\", \"dtype\": \"float64\", \"data\": [1.5, 2.5], \"encoding\": {}}, \"attrs\": {}}}, \"path\": \"/sub\", \"attrs\": {\"deep\": {\"t\": {\"__type__\": \"tuple\", \"data\": [{\"__type__\": \"tuple\", \"data\": [1]}, [2]]}}}}}, \"path\": \"/\", \"attrs\": {\"title\": \"scene\", \"shape\": {\"__type__\": \"tuple\", \"data\": [2, 3]}}}'"]]], ["list", []]]], ["tuple", [["str", "'mapper.root'"]]], ["tuple", [["str", "'mapper.root'"]]], ["tuple", [["str", "'is_file'"], ["str", "'/eq5/cache/4f7cfeeaf747854a0a17f4fa6b2181e08de541609edf2ad148ca93567cf73d6a/image.index'"]]], ["tuple", [["str", "'read_text'"], ["str", "'/eq5/cache/4f7cfeeaf747854a0a17f4fa6b2181e08de541609edf2ad148ca93567cf73d6a/image.index'"], ["tuple", []], ["list", []]]]]]]]],
 "create-tree": ["returned", ["list", [["list", [["str", "'returned'"], ["list", [["str", "'NoneType'"], ["str", "'None'"]]]]], ["list", [["tuple", [["str", "'mapper.root'"]]], ["tuple", [["str", "'mkdir'"], ["str", "'/eq5/cache/4f7cfeeaf747854a0a17f4fa6b2181e08de541609edf2ad148ca93567cf73d6a'"], ["tuple", []], ["list", [["tuple", [["str", "'exist_ok'"], ["bool", "True"]]], ["tuple", [["str", "'parents'"], ["bool", "True"]]]]]]], ["tuple", [["str", "'write_text'"], ["str", "'/eq5/cache/4f7cfeeaf747854a0a17f4fa6b2181e08de541609edf2ad148ca93567cf73d6a/image.index'"], ["tuple", [["str", "'{\"__type__\": \"group\", \"url\": \"s3://bucket/scene\", \"data\": {\"v\": {\"__type__\": \"variable\", \"dims\": [\"x\", \"y\"], \"data\": {\"__type__\": \"backend_array\", \"root\": \"/path/to\", \"url\": \"file\", \"shape\": {\"__type__\": \"tuple\", \"data\": [4, 3]}, \"dtype\": \"complex64\", \"byte_ranges\": [{\"__type__\": \"tuple\", \"data\": [5, 10]}, {\"__type__\": \"tuple\", \"data\": [15, 20]}, {\"__type__\": \"tuple\", \"data\": [25, 30]}, {\"__type__\": \"tuple\", \"data\": [35, 40]}], \"type_code\": \"C*8\"}, \"attrs\": {\"pol\": \"HH\"}}, \"t\": {\"__type__\": \"variable\", \"dims\": [\"t\"], \"data\": {\"__type__\": \"array\", \"dtype\": \"datetime64[s]\", \"data\": [0, 172800], \"encoding\": {\"reference\": \"2020-01-01T00:00:00\", \"units\": \"s\"}}, \"attrs\": {\"r\": {\"__type__\": \"tuple\", \"data\": [1, 2]}}}, \"sub\": {\"__type__\": \"group\", \"url\": \"s3://bucket/scene\", \"data\": {\"n\": {\"__type__\": \"variable\", \"dims\": [\"n\"], \"data\": {\"__type__\": \"array\", \"dtype\": \"float64\", \"data\": [1.5, 2.5], \"encoding\": {}}, \"attrs\": {}}}, \"path\": \"/sub\", \"attrs\": {\"deep\": {\"t\": {\"__type__\": \"tuple\", \"data\": [{\"__type__\": \"tuple\", \"data\": [1]}, [2]]}}}}}, \"path\": \"/\", \"attrs\": {\"title\": \"scene\", \"shape\": {\"__type__\": \"tuple\", \"data\": [2, 3]}}}'"]]], ["list", []]]]]], ["list", [["tuple", [["str", "'/eq5/cache/4f7cfeeaf747854a0a17f4fa6b2181e08de541609edf2ad148ca93567cf73d6a/image.index'"], ["str", "'{\"__type__\": \"group\", \"url\": \"s3://bucket/scene\", \"data\": {\"v\": {\"__type__\": \"variable\", \"dims\": [\"x\", \"y\"], \"data\": {\"__type__\": \"backend_array\", \"root\": \"/path/to\", \"url\": \"file\", \"shape\": {\"__type__\": \"tuple\", \"data\": [4, 3]}, \"dtype\": \"complex64\", \"byte_ranges\": [{\"__type__\": \"tuple\", \"data\": [5, 10]}, {\"__type__\": \"tuple\", \"data\": [15, 20]}, {\"__type__\": \"tuple\", \"data\": [25, 30]}, {\"__type__\": \"tuple\", \"data\": [35, 40]}], \"type_code\": \"C*8\"}, \"attrs\": {\"pol\": \"HH\"}}, \"t\": {\"__type__\": \"variable\", \"dims\": [\"t\"], \"data\": {\"__type__\": \"array\", \"dtype\": \"datetime64[s]\", \"data\": [0, 172800], \"encoding\": {\"reference\": \"2020-01-01T00:00:00\", \"units\": \"s\"}}, \"attrs\": {\"r\": {\"__type__\": \"tuple\", \"data\": [1, 2]}}}, \"sub\": {\"__type__\": \"group\", \"url\": \"s3://bucket/scene\", \"data\": {\"n\": {\"__type__\": \"variable\", \"dims\": [\"n\"], \"data\": {\"__type__\": \"array\", \"dtype\": \"float64\", \"data\": [1.5, 2.5], \"encoding\": {}}, \"attrs\": {}}}, \"path\": \"/sub\", \"attrs\": {\"deep\": {\"t\": {\"__type__\": \"tuple\", \"data\": [{\"__type__\": \"tuple\", \"data\": [1]}, [2]]}}}}}, \"path\": \"/\", \"attrs\": {\"title\": \"scene\", \"shape\": {\"__type__\": \"tuple\", \"data\": [2, 3]}}}'"]]]]], ["dict", []]]]],
 "create-unencodable": ["returned", ["list", [["list", [["str", "'raised'"], ["list", [["list", [["str", "'TypeError'"], ["str", "'Object of type Opaque is not JSON serializable'"]]]]]]], ["list", [["tuple", [["str", "'mapper.root'"]]], ["tuple", [["str", "'mkdir'"], ["str", "'/eq5/cache/4f7cfeeaf747854a0a17f4fa6b2181e08de541609edf2ad148ca93567cf73d6a'"], ["tuple", []], ["list", [["tuple", [["str", "'exist_ok'"], ["bool", "True"]]], ["tuple", [["str", "'parents'"], ["bool", "True"]]]]]]]]], ["list", []], ["dict", []]]]],
 "create-unencodable-attr": ["returned", ["list", [["list", [["str", "'raised'"], ["list", [["list", [["str", "'TypeError'"], ["str", "'Object of type ndarray is not JSON serializable'"]]]]]]], ["list", [["tuple", [["str", "'mapper.root'"]]], ["tuple", [["str", "'mkdir'"], ["str", "'/eq5/cache/4f7cfeeaf747854a0a17f4fa6b2181e08de541609edf2ad148ca93567cf73d6a'"], ["tuple", []], ["list", [["tuple", [["str", "'exist_ok'"], ["bool", "True"]]], ["tuple", [["str", "'parents'"], ["bool", "True"]]]]]]]]], ["list", []], ["dict", []]]]],
 "create-variable": ["returned", ["list", [["list", [["str", "'returned'"], ["list", [["str", "'NoneType'"], ["str", "'None'"]]]]], ["list", [["tuple", [["str", "'mapper.root'"]]], ["tuple", [["str", "'mkdir'"], ["str", "'/eq5/cache/4f7cfeeaf747854a0a17f4fa6b2181e08de541609edf2ad148ca93567cf73d6a'"], ["tuple", []], ["list", [["tuple", [["str", "'exist_ok'"], ["bool", "True"]]], ["tuple", [["str", "'parents'"], ["bool", "True"]]]]]]], ["tuple", [["str", "'write_text'"], ["str", "'/eq5/cache/4f7cfeeaf747854a0a17f4fa6b2181e08de541609edf2ad148ca93567cf73d6a/v.index'"], ["tuple", [["str", "'{\"__type__\": \"variable\", \"dims\": [\"x\"], \"data\": {\"__type__\": \"array\", \"dtype\": \"int8\", \"data\": [1, 2, 3], \"encoding\": {}}, \"attrs\": {\"a\": {\"__type__\": \"tuple\", \"data\": [1]}}}'"]]], ["list", []]]]]], ["list", [["tuple", [["str", "'/eq5/cache/4f7cfeeaf747854a0a17f4fa6b2181e08de541609edf2ad148ca93567cf73d6a/v.index'"], ["str", "'{\"__type__\": \"variable\", \"dims\": [\"x\"], \"data\": {\"__type__\": \"array\", \"dtype\": \"int8\", \"data\": [1, 2, 3], \"encoding\": {}}, \"attrs\": {\"a\": {\"__type__\": \"tuple\", \"data\": [1]}}}'"]]]]], ["dict", []]]]],
 "decode-bad-bytes": ["raised", [["CachingError", "invalid or incomplete cache file"], ["JSONDecodeError", "Expecting value: line 1 column 1 (char 0)"]]],
 "decode-bad-datetime-rpc2": ["raised", [["ValueError", "Error parsing datetime string \"yesterday\" at position 0"]]],
 "decode-bad-datetime-rpcNone": ["raised", [["ValueError", "Error parsing datetime string \"yesterday\" at position 0"]]],
 "decode-big-int-rpc2": ["raised", [["CachingError", "invalid or incomplete cache file"], ["ValueError", "Exceeds the limit (4300 digits) for integer string conversion: value has 5000 digits; use sys.set_int_max_str_digits() to increase the limit"]]],
 "decode-big-int-rpcNone": ["raised", [["CachingError", "invalid or incomplete cache file"], ["ValueError", "Exceeds the limit (4300 digits) for integer string conversion: value has 5000 digits; use sys.set_int_max_str_digits() to increase the limit"]]],
 "decode-broken-group-rpc2": ["raised", [["KeyError", "'data'"]]],
 "decode-broken-group-rpcNone": ["raised", [["KeyError", "'data'"]]],
 "decode-broken-tuple-rpc2": ["raised", [["KeyError", "'data'"]]],
 "decode-broken-tuple-rpcNone": ["raised", [["KeyError", "'data'"]]],
 "decode-broken-variable-rpc2": ["raised", [["TypeError", "data type 'int65' not understood"]]],
 "decode-broken-variable-rpcNone": ["raised", [["TypeError", "data type 'int65' not understood"]]],
 "decode-bytes": ["returned", ["Group", ["str", "'/'"], ["str", "'s3://bucket/data'"], ["dict", []], ["dict", []]]],
 "decode-duplicate-keys-rpc2": ["returned", ["dict", [[["str", "'a'"], ["int", "2"]]]]],
 "decode-duplicate-keys-rpcNone": ["returned", ["dict", [[["str", "'a'"], ["int", "2"]]]]],
 "decode-empty-dict-rpc2": ["returned", ["dict", []]],
 "decode-empty-dict-rpcNone": ["returned", ["dict", []]],
 "decode-empty-group-rpc2": ["returned", ["Group", ["str", "'/'"], ["str", "'s3://bucket/data'"], ["dict", []], ["dict", []]]],
 "decode-empty-group-rpcNone": ["returned", ["Group", ["str", "'/'"], ["str", "'s3://bucket/data'"], ["dict", []], ["dict", []]]],
 "decode-empty-rpc2": ["raised", [["CachingError", "invalid or incomplete cache file"], ["JSONDecodeError", "Expecting value: line 1 column 1 (char 0)"]]],
 "decode-empty-rpcNone": ["raised", [["CachingError", "invalid or incomplete cache file"], ["JSONDecodeError", "Expecting value: line 1 column 1 (char 0)"]]],
 "decode-error-details-empty": ["returned", ["list", [["str", "'CachingError'"], ["str", "'FileNotFoundError'"], ["bool", "True"], ["tuple", [["str", "'invalid or incomplete cache file'"]]], ["str", "'JSONDecodeError'"], ["str", "'Expecting value: line 1 column 1 (char 0)'"], ["bool", "True"]]]],
 "decode-error-details-key": ["returned", ["list", [["str", "'KeyError'"], ["str", "'LookupError'"], ["bool", "False"], ["tuple", [["str", "'data'"]]], ["str", "'NoneType'"], ["str", "'None'"], ["bool", "False"]]]],
 "decode-error-details-truncated": ["returned", ["list", [["str", "'CachingError'"], ["str", "'FileNotFoundError'"], ["bool", "True"], ["tuple", [["str", "'invalid or incomplete cache file'"]]], ["str", "'JSONDecodeError'"], ["str", "'Unterminated string starting at: line 1 column 30 (char 29)'"], ["bool", "True"]]]],
 "decode-int": ["raised", [["TypeError", "the JSON object must be str, bytes or bytearray, not int"]]],
 "decode-invalid-utf8": ["raised", [["CachingError", "invalid or incomplete cache file"], ["UnicodeDecodeError", "'utf-8' codec can't decode byte 0xff in position 7: invalid start byte"]]],
 "decode-list-rpc2": ["raised", [["AttributeError", "'list' object has no attribute 'get'"]]],
 "decode-list-rpcNone": ["raised", [["AttributeError", "'list' object has no attribute 'get'"]]],
 "decode-nan-rpc2": ["returned", ["dict", [[["str", "'a'"], ["float", "nan"]]]]],
 "decode-nan-rpcNone": ["returned", ["dict", [[["str", "'a'"], ["float", "nan"]]]]],
 "decode-none": ["raised", [["TypeError", "the JSON object must be str, bytes or bytearray, not NoneType"]]],
 "decode-null-rpc2": ["raised", [["AttributeError", "'NoneType' object has no attribute 'get'"]]],
 "decode-null-rpcNone": ["raised", [["AttributeError", "'NoneType' object has no attribute 'get'"]]],
 "decode-plain-dict-rpc2": ["returned", ["dict", [[["str", "'a'"], ["tuple", [["int", "1"], ["int", "2"]]]]]]],
 "decode-plain-dict-rpcNone": ["returned", ["dict", [[["str", "'a'"], ["tuple", [["int", "1"], ["int", "2"]]]]]]],
 "decode-positional-rpc": ["returned", ["Group", ["str", "'/'"], ["str", "'s3://bucket/scene'"], ["dict", [[["str", "'title'"], ["str", "'scene'"]], [["str", "'shape'"], ["tuple", [["int", "2"], ["int", "3"]]]]]], ["dict", [[["str", "'v'"], ["Variable", ["list", [["str", "'x'"], ["str", "'y'"]]], ["Array", "DirFileSystem", ["str", "'/path/to'"], "LocalFileSystem", ["str", "'file'"], ["list", [["tuple", [["int", "5"], ["int", "10"]]], ["tuple", [["int", "15"], ["int", "20"]]], ["tuple", [["int", "25"], ["int", "30"]]], ["tuple", [["int", "35"], ["int", "40"]]]]], ["tuple", [["int", "4"], ["int", "3"]]], ["str", "'complex64'"], ["str", "'C*8'"], ["int", "2"], ["dict", [[["int", "0"], ["dict", [[["str", "'offset'"], ["int", "5"]], [["str", "'size'"], ["int", "15"]]]]], [["int", "1"], ["dict", [[["str", "'offset'"], ["int", "25"]], [["str", "'size'"], ["int", "15"]]]]]]]], ["dict", [[["str", "'pol'"], ["str", "'HH'"]]]]]], [["str", "'t'"], ["Variable", ["list", [["str", "'t'"]]], ["ndarray", "datetime64[s]", [2], [["2020-01-01T00:00:00", 1577836800], ["2020-01-03T00:00:00", 1578009600]]], ["dict", [[["str", "'r'"], ["tuple", [["int", "1"], ["int", "2"]]]]]]]], [["str", "'sub'"], ["Group", ["str", "'/sub'"], ["str", "'s3://bucket/scene'"], ["dict", [[["str", "'deep'"], ["dict", [[["str", "'t'"], ["tuple", [["tuple", [["int", "1"]]], ["list", [["int", "2"]]]]]]]]]]], ["dict", [[["str", "'n'"], ["Variable", ["list", [["str", "'n'"]]], ["ndarray", "float64", [2], [["float", "1.5"], ["float", "2.5"]]], ["dict", []]]]]]]]]]]],
 "decode-scalar-rpc2": ["raised", [["AttributeError", "'int' object has no attribute 'get'"]]],
 "decode-scalar-rpcNone": ["raised", [["AttributeError", "'int' object has no attribute 'get'"]]],
 "decode-scalar-tuple-rpc2": ["raised", [["TypeError", "'int' object is not iterable"]]],
 "decode-scalar-tuple-rpcNone": ["raised", [["TypeError", "'int' object is not iterable"]]],
 "decode-single-quotes-rpc2": ["raised", [["CachingError", "invalid or incomplete cache file"], ["JSONDecodeError", "Expecting property name enclosed in double quotes: line 1 column 2 (char 1)"]]],
 "decode-single-quotes-rpcNone": ["raised", [["CachingError", "invalid or incomplete cache file"], ["JSONDecodeError", "Expecting property name enclosed in double quotes: line 1 column 2 (char 1)"]]],
 "decode-string-rpc2": ["raised", [["AttributeError", "'str' object has no attribute 'get'"]]],
 "decode-string-rpcNone": ["raised", [["AttributeError", "'str' object has no attribute 'get'"]]],
 "decode-trailing-garbage-rpc2": ["raised", [["CachingError", "invalid or incomplete cache file"], ["JSONDecodeError", "Extra data: line 1 column 4 (char 3)"]]],
 "decode-trailing-garbage-rpcNone": ["raised", [["CachingError", "invalid or incomplete cache file"], ["JSONDecodeError", "Extra data: line 1 column 4 (char 3)"]]],
 "decode-tree-rpc2": ["returned", ["Group", ["str", "'/'"], ["str", "'s3://bucket/scene'"], ["dict", [[["str", "'title'"], ["str", "'scene'"]], [["str", "'shape'"], ["tuple", [["int", "2"], ["int", "3"]]]]]], ["dict", [[["str", "'v'"], ["Variable", ["list", [["str", "'x'"], ["str", "'y'"]]], ["Array", "DirFileSystem", ["str", "'/path/to'"], "LocalFileSystem", ["str", "'file'"], ["list", [["tuple", [["int", "5"], ["int", "10"]]], ["tuple", [["int", "15"], ["int", "20"]]], ["tuple", [["int", "25"], ["int", "30"]]], ["tuple", [["int", "35"], ["int", "40"]]]]], ["tuple", [["int", "4"], ["int", "3"]]], ["str", "'complex64'"], ["str", "'C*8'"], ["int", "2"], ["dict", [[["int", "0"], ["dict", [[["str", "'offset'"], ["int", "5"]], [["str", "'size'"], ["int", "15"]]]]], [["int", "1"], ["dict", [[["str", "'offset'"], ["int", "25"]], [["str", "'size'"], ["int", "15"]]]]]]]], ["dict", [[["str", "'pol'"], ["str", "'HH'"]]]]]], [["str", "'t'"], ["Variable", ["list", [["str", "'t'"]]], ["ndarray", "datetime64[s]", [2], [["2020-01-01T00:00:00", 1577836800], ["2020-01-03T00:00:00", 1578009600]]], ["dict", [[["str", "'r'"], ["tuple", [["int", "1"], ["int", "2"]]]]]]]], [["str", "'sub'"], ["Group", ["str", "'/sub'"], ["str", "'s3://bucket/scene'"], ["dict", [[["str", "'deep'"], ["dict", [[["str", "'t'"], ["tuple", [["tuple", [["int", "1"]]], ["list", [["int", "2"]]]]]]]]]]], ["dict", [[["str", "'n'"], ["Variable", ["list", [["str", "'n'"]]], ["ndarray", "float64", [2], [["float", "1.5"], ["float", "2.5"]]], ["dict", []]]]]]]]]]]],
 "decode-tree-rpcNone": ["returned", ["Group", ["str", "'/'"], ["str", "'s3://bucket/scene'"], ["dict", [[["str", "'title'"], ["str", "'scene'"]], [["str", "'shape'"], ["tuple", [["int", "2"], ["int", "3"]]]]]], ["dict", [[["str", "'v'"], ["Variable", ["list", [["str", "'x'"], ["str", "'y'"]]], ["Array", "DirFileSystem", ["str", "'/path/to'"], "LocalFileSystem", ["str", "'file'"], ["list", [["tuple", [["int", "5"], ["int", "10"]]], ["tuple", [["int", "15"], ["int", "20"]]], ["tuple", [["int", "25"], ["int", "30"]]], ["tuple", [["int", "35"], ["int", "40"]]]]], ["tuple", [["int", "4"], ["int", "3"]]], ["str", "'complex64'"], ["str", "'C*8'"], ["int", "1024"], ["dict", [[["int", "0"], ["dict", [[["str", "'offset'"], ["int", "5"]], [["str", "'size'"], ["int", "35"]]]]]]]], ["dict", [[["str", "'pol'"], ["str", "'HH'"]]]]]], [["str", "'t'"], ["Variable", ["list", [["str", "'t'"]]], ["ndarray", "datetime64[s]", [2], [["2020-01-01T00:00:00", 1577836800], ["2020-01-03T00:00:00", 1578009600]]], ["dict", [[["str", "'r'"], ["tuple", [["int", "1"], ["int", "2"]]]]]]]], [["str", "'sub'"], ["Group", ["str", "'/sub'"], ["str", "'s3://bucket/scene'"], ["dict", [[["str", "'deep'"], ["dict", [[["str", "'t'"], ["tuple", [["tuple", [["int", "1"]]], ["list", [["int", "2"]]]]]]]]]]], ["dict", [[["str", "'n'"], ["Variable", ["list", [["str", "'n'"]]], ["ndarray", "float64", [2], [["float", "1.5"], ["float", "2.5"]]], ["dict", []]]]]]]]]]]],
 "decode-truncated-rpc2": ["raised", [["CachingError", "invalid or incomplete cache file"], ["JSONDecodeError", "Unterminated string starting at: line 1 column 30 (char 29)"]]],
 "decode-truncated-rpcNone": ["raised", [["CachingError", "invalid or incomplete cache file"], ["JSONDecodeError", "Unterminated string starting at: line 1 column 30 (char 29)"]]],
 "decode-unhashable-type-rpc2": ["raised", [["TypeError", "unhashable type: 'list'"]]],
 "decode-unhashable-type-rpcNone": ["raised", [["TypeError", "unhashable type: 'list'"]]],
 "decode-variable-rpc2": ["returned", ["Variable", ["list", [["str", "'x'"]]], ["ndarray", "int8", [3], [["int", "1"], ["int", "2"], ["int", "3"]]], ["dict", [[["str", "'a'"], ["tuple", [["int", "1"]]]]]]]],
 "decode-variable-rpcNone": ["returned", ["Variable", ["list", [["str", "'x'"]]], ["ndarray", "int8", [3], [["int", "1"], ["int", "2"], ["int", "3"]]], ["dict", [[["str", "'a'"], ["tuple", [["int", "1"]]]]]]]],
 "decode-whitespace-rpc2": ["raised", [["CachingError", "invalid or incomplete cache file"], ["JSONDecodeError", "Expecting value: line 1 column 3 (char 2)"]]],
 "decode-whitespace-rpcNone": ["raised", [["CachingError", "invalid or incomplete cache file"], ["JSONDecodeError", "Expecting value: line 1 column 3 (char 2)"]]],
 "encode-bytes": ["raised", [["TypeError", "Object of type bytes is not JSON serializable"]]],
 "encode-dict": ["returned", ["str", "'{\"a\": {\"__type__\": \"tuple\", \"data\": [1, 2]}, \"b\": [null, true]}'"]],
 "encode-empty-group": ["returned", ["str", "'{\"__type__\": \"group\", \"url\": \"s3://bucket/data\", \"data\": {}, \"path\": \"/\", \"attrs\": {}}'"]],
 "encode-group-with-ndarray-attr": ["raised", [["TypeError", "Object of type ndarray is not JSON serializable"]]],
 "encode-int": ["returned", ["str", "'5'"]],
 "encode-list": ["returned", ["str", "'[1, {\"__type__\": \"tuple\", \"data\": [2, 3]}]'"]],
 "encode-nan": ["returned", ["str", "'NaN'"]],
 "encode-ndarray": ["raised", [["TypeError", "Object of type ndarray is not JSON serializable"]]],
 "encode-non-str-keys": ["returned", ["str", "'{\"1\": \"a\", \"null\": \"b\"}'"]],
 "encode-none": ["returned", ["str", "'null'"]],
 "encode-opaque": ["raised", [["TypeError", "Object of type Opaque is not JSON serializable"]]],
 "encode-str": ["returned", ["str", "'\"abc\"'"]],
 "encode-tree": ["returned", ["str", "'{\"__type__\": \"group\", \"url\": \"s3://bucket/scene\", \"data\": {\"v\": {\"__type__\": \"variable\", \"dims\": [\"x\", \"y\"], \"data\": {\"__type__\": \"backend_array\", \"root\": \"/path/to\", \"url\": \"file\", \"shape\": {\"__type__\": \"tuple\", \"data\": [4, 3]}, \"dtype\": \"complex64\", \"byte_ranges\": [{\"__type__\": \"tuple\", \"data\": [5, 10]}, {\"__type__\": \"tuple\", \"data\": [15, 20]}, {\"__type__\": \"tuple\", \"data\": [25, 30]}, {\"__type__\": \"tuple\", \"data\": [35, 40]}], \"type_code\": \"C*8\"}, \"attrs\": {\"pol\": \"HH\"}}, \"t\": {\"__type__\": \"variable\", \"dims\": [\"t\"], \"data\": {\"__type__\": \"array\", \"dtype\": \"datetime64[s]\", \"data\": [0, 172800], \"encoding\": {\"reference\": \"2020-01-01T00:00:00\", \"units\": \"s\"}}, \"attrs\": {\"r\": {\"__type__\": \"tuple\", \"data\": [1, 2]}}}, \"sub\": {\"__type__\": \"group\", \"url\": \"s3://bucket/scene\", \"data\": {\"n\": {\"__type__\": \"variable\", \"dims\": [\"n\"], \"data\": {\"__type__\": \"array\", \"dtype\": \"float64\", \"data\": [1.5, 2.5], \"encoding\": {}}, \"attrs\": {}}}, \"path\": \"/sub\", \"attrs\": {\"deep\": {\"t\": {\"__type__\": \"tuple\", \"data\": [{\"__type__\": \"tuple\", \"data\": [1]}, [2]]}}}}}, \"path\": \"/\", \"attrs\": {\"title\": \"scene\", \"shape\": {\"__type__\": \"tuple\", \"data\": [2, 3]}}}'"]],
 "encode-tuple": ["returned", ["str", "'{\"__type__\": \"tuple\", \"data\": [1, 2]}'"]],
 "encode-tuple-key": ["raised", [["TypeError", "keys must be str, int, float, bool or None, not tuple"]]],
 "encode-variable": ["returned", ["str", "'{\"__type__\": \"variable\", \"dims\": [\"x\"], \"data\": {\"__type__\": \"array\", \"dtype\": \"int8\", \"data\": [1, 2, 3], \"encoding\": {}}, \"attrs\": {\"a\": {\"__type__\": \"tuple\", \"data\": [1]}}}'"]],
 "hashsum-algorithm-none": ["raised", [["TypeError", "name must be a string"]]],
 "hashsum-bytes": ["raised", [["AttributeError", "'bytes' object has no attribute 'encode'"]]],
 "hashsum-empty": ["returned", ["str", "'e3b0c44298fc1c149afbf4c8996fb92427ae41e4649b934ca495991b7852b855'"]],
 "hashsum-empty-SHA512": ["returned", ["str", "'cf83e1357eefb8bdf1542850d66d8007d620e4050b5715dc83f4a921d36ce9ce47d0d13c5d85f2b0ff8318d2877eec2f63b931bd47417a81a538327af927da3e'"]],
 "hashsum-empty-blake2b": ["returned", ["str", "'786a02f742015903c6c6fd852552d272912f4740e15847618a86e217f71f5419d25e1031afee585313896444934eb04b903a685b1448b755d56f701afe9be2ce'"]],
 "hashsum-empty-md5": ["returned", ["str", "'d41d8cd98f00b204e9800998ecf8427e'"]],
 "hashsum-empty-sha1": ["returned", ["str", "'da39a3ee5e6b4b0d3255bfef95601890afd80709'"]],
 "hashsum-empty-sha256": ["returned", ["str", "'e3b0c44298fc1c149afbf4c8996fb92427ae41e4649b934ca495991b7852b855'"]],
 "hashsum-hex": ["returned", ["str", "'b8be84665c5cd09ec19677ce9714bcd987422de886ac2e8432a3e2311b5f0cde'"]],
 "hashsum-hex-SHA512": ["returned", ["str", "'24515781765d429284b010396f6e4dc9671988e2f5f47956b19b09037f0bd826ea255d1447ea993ef84e6e77558153a5f3ad0a17d9b6cadf4c20bd43be89a92f'"]],
 "hashsum-hex-blake2b": ["returned", ["str", "'d2742ed614aa05f5fc2f9db0f324dfbf19c3a19bd86486fef07e2748472b419328c492421131375e44486b54e39c5f5cafc532fa98a6f6b71c8eee65c0203e23'"]],
 "hashsum-hex-md5": ["returned", ["str", "'753d03a95f5a076135c507dea50092cf'"]],
 "hashsum-hex-sha1": ["returned", ["str", "'974c3b4bbaf02d28584bccb1f32fc0c633a4daef'"]],
 "hashsum-hex-sha256": ["returned", ["str", "'b8be84665c5cd09ec19677ce9714bcd987422de886ac2e8432a3e2311b5f0cde'"]],
 "hashsum-int": ["raised", [["AttributeError", "'int' object has no attribute 'encode'"]]],
 "hashsum-keyword": ["returned", ["str", "'e642824c3f8cf24ad09234ee7d3c766fc9a3a5168d0c94ad73b46fdf'"]],
 "hashsum-long": ["returned", ["str", "'e4ee97ec252749d2096447e849628d0d7734f51700416eefbb33574bf0b3ee75'"]],
 "hashsum-long-SHA512": ["returned", ["str", "'60c9895c8186399e4961b76bf8e6ebad4e5bb4eedf58c01bb5ea427aad40f49ac1b77507f2d2ab3faeb2622e6028306181498c73a1af26a8d787986abe6b8262'"]],
 "hashsum-long-blake2b": ["returned", ["str", "'aeb0b53a0c9eca7b11f253a5856f20d17c47c6673466f997e98ef2f741a70573ddd7833aee61d22506d265ab09e12a395ee10a6fc045d9d6966795494596a378'"]],
 "hashsum-long-md5": ["returned", ["str", "'b567fcb68d8555227123ab87e255872e'"]],
 "hashsum-long-sha1": ["returned", ["str", "'f8c5cde791c5056cf515881e701c8a9ecb439a75'"]],
 "hashsum-long-sha256": ["returned", ["str", "'e4ee97ec252749d2096447e849628d0d7734f51700416eefbb33574bf0b3ee75'"]],
 "hashsum-none": ["raised", [["AttributeError", "'NoneType' object has no attribute 'encode'"]]],
 "hashsum-shake": ["raised", [["TypeError", "hexdigest() missing required argument 'length' (pos 1)"]]],
 "hashsum-surrogate": ["raised", [["UnicodeEncodeError", "'utf-8' codec can't encode character '\\udc80' in position 0: surrogates not allowed"]]],
 "hashsum-unicode": ["returned", ["str", "'f9a2bb00dfba2e5b43743d834c5b560ccafe7dd8c0a8f82edb6f56b520cfb634'"]],
 "hashsum-unicode-SHA512": ["returned", ["str", "'320de62de11a25eaf55064a871c151a233919691b8c58f255673f0193a7ad6cd9236ab7b6d4338e8afe424dfd841d5876f1e18ea29e81507b1fb610adcdbf213'"]],
 "hashsum-unicode-blake2b": ["returned", ["str", "'70f89f5842db4e7a22a5b39d3475b5b49f183f57a7c0c35327e87f67842715f840586012bcf9f1337eb8ef5e15f2ebf30c4d94b16ce79efa60213b32067b0df4'"]],
 "hashsum-unicode-md5": ["returned", ["str", "'3130101577c4fb2e822c14d7f98de75a'"]],
 "hashsum-unicode-sha1": ["returned", ["str", "'482746f9e69880495162d393e8a0dc028d847d25'"]],
 "hashsum-unicode-sha256": ["returned", ["str", "'f9a2bb00dfba2e5b43743d834c5b560ccafe7dd8c0a8f82edb6f56b520cfb634'"]],
 "hashsum-unknown-algorithm": ["raised", [["ValueError", "unsupported hash type nope"]]],
 "hashsum-unknown-algorithm-and-bytes": ["raised", [["ValueError", "unsupported hash type nope"]]],
 "hashsum-url": ["returned", ["str", "'04391cfcf37045b78e7b4793392821b5b4c84591edfcb475954130eb34b87366'"]],
 "hashsum-url-SHA512": ["returned", ["str", "'d639360d72b4ca295e03846579f319c9a452b7e0e071720486a8c381d906d206491fad413efa93c0fa8aec89f4b32f4374bda2ba1ce29158eb1767c824fd4778'"]],
 "hashsum-url-blake2b": ["returned", ["str", "'30df87d7c005e86ecfb550f2ffb50e59d1357e6525a186ee550b1bbf8a8790cd895dc39ab4dc9fd7ee64875d07bcc6e88bed644eeba4cdd1e4710df60d11f2a3'"]],
 "hashsum-url-md5": ["returned", ["str", "'cc9fd2bbfd65d2b214968f72230489f6'"]],
 "hashsum-url-sha1": ["returned", ["str", "'7cfbc6fcc4c94a698f61c1a8a1a9e5b6b9b6056f'"]],
 "hashsum-url-sha256": ["returned", ["str", "'04391cfcf37045b78e7b4793392821b5b4c84591edfcb475954130eb34b87366'"]],
 "local-location-0-0": ["returned", ["PosixPath", "/path/to/cache1/xarray-ceos-alos2/c9db4f27e586452c6517524752dc472863ee42230ba98e83a346b8da94a33235/image1.index"]],
 "local-location-0-1": ["returned", ["PosixPath", "/path/to/cache1/xarray-ceos-alos2/c9db4f27e586452c6517524752dc472863ee42230ba98e83a346b8da94a33235/IMG-HH-ALOS2225333200-180726-WWDR1.1__D.index"]],
 "local-location-0-10": ["returned", ["PosixPath", "/path/to/cache1/xarray-ceos-alos2/c9db4f27e586452c6517524752dc472863ee42230ba98e83a346b8da94a33235/\u00e9t\u00e9.index"]],
 "local-location-0-2": ["returned", ["PosixPath", "/path/to/cache1/xarray-ceos-alos2/c9db4f27e586452c6517524752dc472863ee42230ba98e83a346b8da94a33235/image2.index"]],
 "local-location-0-3": ["returned", ["PosixPath", "/path/to/cache1/xarray-ceos-alos2/c9db4f27e586452c6517524752dc472863ee42230ba98e83a346b8da94a33235/image3.index"]],
 "local-location-0-4": ["returned", ["PosixPath", "/path/to/cache1/xarray-ceos-alos2/c9db4f27e586452c6517524752dc472863ee42230ba98e83a346b8da94a33235/.index"]],
 "local-location-0-5": ["returned", ["PosixPath", "/path/to/cache1/xarray-ceos-alos2/c9db4f27e586452c6517524752dc472863ee42230ba98e83a346b8da94a33235/.index"]],
 "local-location-0-6": ["returned", ["PosixPath", "/path/to/cache1/xarray-ceos-alos2/c9db4f27e586452c6517524752dc472863ee42230ba98e83a346b8da94a33235/.index"]],
 "local-location-0-7": ["returned", ["PosixPath", "/path/to/cache1/xarray-ceos-alos2/c9db4f27e586452c6517524752dc472863ee42230ba98e83a346b8da94a33235/b.index"]],
 "local-location-0-8": ["returned", ["PosixPath", "/path/to/cache1/xarray-ceos-alos2/c9db4f27e586452c6517524752dc472863ee42230ba98e83a346b8da94a33235/with space.index.index"]],
 "local-location-0-9": ["returned", ["PosixPath", "/path/to/cache1/xarray-ceos-alos2/c9db4f27e586452c6517524752dc472863ee42230ba98e83a346b8da94a33235/...index"]],
 "local-location-1-0": ["returned", ["PosixPath", "/path/to/cache1/xarray-ceos-alos2/04391cfcf37045b78e7b4793392821b5b4c84591edfcb475954130eb34b87366/image1.index"]],
 "local-location-1-1": ["returned", ["PosixPath", "/path/to/cache1/xarray-ceos-alos2/04391cfcf37045b78e7b4793392821b5b4c84591edfcb475954130eb34b87366/IMG-HH-ALOS2225333200-180726-WWDR1.1__D.index"]],
 "local-location-1-10": ["returned", ["PosixPath", "/path/to/cache1/xarray-ceos-alos2/04391cfcf37045b78e7b4793392821b5b4c84591edfcb475954130eb34b87366/\u00e9t\u00e9.index"]],
 "local-location-1-2": ["returned", ["PosixPath", "/path/to/cache1/xarray-ceos-alos2/04391cfcf37045b78e7b4793392821b5b4c84591edfcb475954130eb34b87366/image2.index"]],
 "local-location-1-3": ["returned", ["PosixPath", "/path/to/cache1/xarray-ceos-alos2/04391cfcf37045b78e7b4793392821b5b4c84591edfcb475954130eb34b87366/image3.index"]],
 "local-location-1-4": ["returned", ["PosixPath", "/path/to/cache1/xarray-ceos-alos2/04391cfcf37045b78e7b4793392821b5b4c84591edfcb475954130eb34b87366/.index"]],
 "local-location-1-5": ["returned", ["PosixPath", "/path/to/cache1/xarray-ceos-alos2/04391cfcf37045b78e7b4793392821b5b4c84591edfcb475954130eb34b87366/.index"]],
 "local-location-1-6": ["returned", ["PosixPath", "/path/to/cache1/xarray-ceos-alos2/04391cfcf37045b78e7b4793392821b5b4c84591edfcb475954130eb34b87366/.index"]],
 "local-location-1-7": ["returned", ["PosixPath", "/path/to/cache1/xarray-ceos-alos2/04391cfcf37045b78e7b4793392821b5b4c84591edfcb475954130eb34b87366/b.index"]],
 "local-location-1-8": ["returned", ["PosixPath", "/path/to/cache1/xarray-ceos-alos2/04391cfcf37045b78e7b4793392821b5b4c84591edfcb475954130eb34b87366/with space.index.index"]],
 "local-location-1-9": ["returned", ["PosixPath", "/path/to/cache1/xarray-ceos-alos2/04391cfcf37045b78e7b4793392821b5b4c84591edfcb475954130eb34b87366/...index"]],
 "local-location-2-0": ["returned", ["PosixPath", "/path/to/cache1/xarray-ceos-alos2/7b405676e8ed8556a3f4f98f4dc5b6df940f3a5ce48674046eebda551e335b37/image1.index"]],
 "local-location-2-1": ["returned", ["PosixPath", "/path/to/cache1/xarray-ceos-alos2/7b405676e8ed8556a3f4f98f4dc5b6df940f3a5ce48674046eebda551e335b37/IMG-HH-ALOS2225333200-180726-WWDR1.1__D.index"]],
 "local-location-2-10": ["returned", ["PosixPath", "/path/to/cache1/xarray-ceos-alos2/7b405676e8ed8556a3f4f98f4dc5b6df940f3a5ce48674046eebda551e335b37/\u00e9t\u00e9.index"]],
 "local-location-2-2": ["returned", ["PosixPath", "/path/to/cache1/xarray-ceos-alos2/7b405676e8ed8556a3f4f98f4dc5b6df940f3a5ce48674046eebda551e335b37/image2.index"]],
 "local-location-2-3": ["returned", ["PosixPath", "/path/to/cache1/xarray-ceos-alos2/7b405676e8ed8556a3f4f98f4dc5b6df940f3a5ce48674046eebda551e335b37/image3.index"]],
 "local-location-2-4": ["returned", ["PosixPath", "/path/to/cache1/xarray-ceos-alos2/7b405676e8ed8556a3f4f98f4dc5b6df940f3a5ce48674046eebda551e335b37/.index"]],
 "local-location-2-5": ["returned", ["PosixPath", "/path/to/cache1/xarray-ceos-alos2/7b405676e8ed8556a3f4f98f4dc5b6df940f3a5ce48674046eebda551e335b37/.index"]],
 "local-location-2-6": ["returned", ["PosixPath", "/path/to/cache1/xarray-ceos-alos2/7b405676e8ed8556a3f4f98f4dc5b6df940f3a5ce48674046eebda551e335b37/.index"]],
 "local-location-2-7": ["returned", ["PosixPath", "/path/to/cache1/xarray-ceos-alos2/7b405676e8ed8556a3f4f98f4dc5b6df940f3a5ce48674046eebda551e335b37/b.index"]],
 "local-location-2-8": ["returned", ["PosixPath", "/path/to/cache1/xarray-ceos-alos2/7b405676e8ed8556a3f4f98f4dc5b6df940f3a5ce48674046eebda551e335b37/with space.index.index"]],
 "local-location-2-9": ["returned", ["PosixPath", "/path/to/cache1/xarray-ceos-alos2/7b405676e8ed8556a3f4f98f4dc5b6df940f3a5ce48674046eebda551e335b37/...index"]],
 "local-location-3-0": ["returned", ["PosixPath", "/path/to/cache1/xarray-ceos-alos2/e3b0c44298fc1c149afbf4c8996fb92427ae41e4649b934ca495991b7852b855/image1.index"]],
 "local-location-3-1": ["returned", ["PosixPath", "/path/to/cache1/xarray-ceos-alos2/e3b0c44298fc1c149afbf4c8996fb92427ae41e4649b934ca495991b7852b855/IMG-HH-ALOS2225333200-180726-WWDR1.1__D.index"]],
 "local-location-3-10": ["returned", ["PosixPath", "/path/to/cache1/xarray-ceos-alos2/e3b0c44298fc1c149afbf4c8996fb92427ae41e4649b934ca495991b7852b855/\u00e9t\u00e9.index"]],
 "local-location-3-2": ["returned", ["PosixPath", "/path/to/cache1/xarray-ceos-alos2/e3b0c44298fc1c149afbf4c8996fb92427ae41e4649b934ca495991b7852b855/image2.index"]],
 "local-location-3-3": ["returned", ["PosixPath", "/path/to/cache1/xarray-ceos-alos2/e3b0c44298fc1c149afbf4c8996fb92427ae41e4649b934ca495991b7852b855/image3.index"]],
 "local-location-3-4": ["returned", ["PosixPath", "/path/to/cache1/xarray-ceos-alos2/e3b0c44298fc1c149afbf4c8996fb92427ae41e4649b934ca495991b7852b855/.index"]],
 "local-location-3-5": ["returned", ["PosixPath", "/path/to/cache1/xarray-ceos-alos2/e3b0c44298fc1c149afbf4c8996fb92427ae41e4649b934ca495991b7852b855/.index"]],
 "local-location-3-6": ["returned", ["PosixPath", "/path/to/cache1/xarray-ceos-alos2/e3b0c44298fc1c149afbf4c8996fb92427ae41e4649b934ca495991b7852b855/.index"]],
 "local-location-3-7": ["returned", ["PosixPath", "/path/to/cache1/xarray-ceos-alos2/e3b0c44298fc1c149afbf4c8996fb92427ae41e4649b934ca495991b7852b855/b.index"]],
 "local-location-3-8": ["returned", ["PosixPath", "/path/to/cache1/xarray-ceos-alos2/e3b0c44298fc1c149afbf4c8996fb92427ae41e4649b934ca495991b7852b855/with space.index.index"]],
 "local-location-3-9": ["returned", ["PosixPath", "/path/to/cache1/xarray-ceos-alos2/e3b0c44298fc1c149afbf4c8996fb92427ae41e4649b934ca495991b7852b855/...index"]],
 "local-location-bytes-root": ["raised", [["AttributeError", "'bytes' object has no attribute 'encode'"]]],
 "local-location-default-root-name": ["returned", ["list", [["str", "'xarray-ceos-alos2'"], ["str", "'xarray-ceos-alos2'"], ["bool", "True"]]]],
 "local-location-int-path": ["returned", ["PosixPath", "/c/cea59027f18ebad643825fcd6fe94a423be5c93f12493493fe153fc9e716b1eb/5.index"]],
 "local-location-none-path": ["returned", ["PosixPath", "/c/cea59027f18ebad643825fcd6fe94a423be5c93f12493493fe153fc9e716b1eb/None.index"]],
 "local-location-none-root": ["raised", [["AttributeError", "'NoneType' object has no attribute 'encode'"]]],
 "local-location-other-cache-root": ["returned", ["PosixPath", "relative/cache/cea59027f18ebad643825fcd6fe94a423be5c93f12493493fe153fc9e716b1eb/y.index"]],
 "local-location-path-object": ["returned", ["PosixPath", "/c/cea59027f18ebad643825fcd6fe94a423be5c93f12493493fe153fc9e716b1eb/y.index"]],
 "local-location-purepath-root": ["returned", ["str", "'PosixPath'"]],
 "read-both-prefers-local": ["returned", ["list", [["list", [["str", "'returned'"], ["list", [["str", "'Group'"], ["list", [["str", "'str'"], ["str", "\"'/'\""]]], ["list", [["str", "'str'"], ["str", "\"'s3://bucket/data'\""]]], ["list", [["str", "'dict'"], ["list", []]]], ["list", [["str", "'dict'"], ["list", []]]]]]]], ["list", [["tuple", [["str", "'mapper.root'"]]], ["tuple", [["str", "'mapper.root'"]]], ["tuple", [["str", "'is_file'"], ["str", "'/eq5/cache/4f7cfeeaf747854a0a17f4fa6b2181e08de541609edf2ad148ca93567cf73d6a/image3.index'"]]], ["tuple", [["str", "'read_text'"], ["str", "'/eq5/cache/4f7cfeeaf747854a0a17f4fa6b2181e08de541609edf2ad148ca93567cf73d6a/image3.index'"], ["tuple", []], ["list", []]]]]]]]],
 "read-empty-path": ["returned", ["list", [["list", [["str", "'returned'"], ["list", [["str", "'Group'"], ["list", [["str", "'str'"], ["str", "\"'/'\""]]], ["list", [["str", "'str'"], ["str", "\"'s3://bucket/data'\""]]], ["list", [["str", "'dict'"], ["list", []]]], ["list", [["str", "'dict'"], ["list", []]]]]]]], ["list", [["tuple", [["str", "'mapper.root'"]]], ["tuple", [["str", "'mapper.root'"]]], ["tuple", [["str", "'is_file'"], ["str", "'/eq5/cache/4f7cfeeaf747854a0a17f4fa6b2181e08de541609edf2ad148ca93567cf73d6a/.index'"]]], ["tuple", [["str", "'mapper.contains'"], ["str", "'.index'"]]], ["tuple", [["str", "'mapper.getitem'"], ["str", "'.index'"]]]]]]]],
 "read-local": ["returned", ["list", [["list", [["str", "'returned'"], ["list", [["str", "'Group'"], ["list", [["str", "'str'"], ["str", "\"'/'\""]]], ["list", [["str", "'str'"], ["str", "\"'s3://bucket/scene'\""]]], ["list", [["str", "'dict'"], ["list", [["list", [["list", [["str", "'str'"], ["str", "\"'title'\""]]], ["list", [["str", "'str'"], ["str", "\"'scene'\""]]]]], ["list", [["list", [["str", "'str'"], ["str", "\"'shape'\""]]], ["list", [["str", "'tuple'"], ["list", [["list", [["str", "'int'"], ["str", "'2'"]]], ["list", [["str", "'int'"], ["str", "'3'"]]]]]]]]]]]]], ["list", [["str", "'dict'"], ["list", [["list", [["list", [["str", "'str'"], ["str", "\"'v'\""]]], ["list", [["str", "'Variable'"], ["list", [["str", "'list'"], ["list", [["list", [["str", "'str'"], ["str", "\"'x'\""]]], ["list", [["str", "'str'"], ["str", "\"'y'\""]]]]]]], ["list", [["str", "'Array'"], ["str", "'DirFileSystem'"], ["list", [["str", "'str'"], ["str", "\"'/path/to'\""]]], ["str", "'LocalFileSystem'"], ["list", [["str", "'str'"], ["str", "\"'file'\""]]], ["list", [["str", "'list'"], ["list", [["list", [["str", "'tuple'"], ["list", [["list", [["str", "'int'"], ["str", "'5'"]]], ["list", [["str", "'int'"], ["str", "'10'"]]]]]]], ["list", [["str", "'tuple'"], ["list", [["list", [["str", "'int'"], ["str", "'15'"]]], ["list", [["str", "'int'"], ["str", "'20'"]]]]]]], ["list", [["str", "'tuple'"], ["list", [["list", [["str", "'int'"], ["str", "'25'"]]], ["list", [["str", "'int'"], ["str", "'30'"]]]]]]], ["list", [["str", "'tuple'"], ["list", [["list", [["str", "'int'"], ["str", "'35'"]]], ["list", [["str", "'int'"], ["str", "'40'"]]]]]]]]]]], ["list", [["str", "'tuple'"], ["list", [["list", [["str", "'int'"], ["str", "'4'"]]], ["list", [["str", "'int'"], ["str", "'3'"]]]]]]], ["list", [["str", "'str'"], ["str", "\"'complex64'\""]]], ["list", [["str", "'str'"], ["str", "\"'C*8'\""]]], ["list", [["str", "'int'"], ["str", "'4'"]]], ["list", [["str", "'dict'"], ["list", [["list", [["list", [["str", "'int'"], ["str", "'0'"]]], ["list", [["str", "'dict'"], ["list", [["list", [["list", [["str", "'str'"], ["str", "\"'offset'\""]]], ["list", [["str", "'int'"], ["str", "'5'"]]]]], ["list", [["list", [["str", "'str'"], ["str", "\"'size'\""]]], ["list", [["str", "'int'"], ["str", "'35'"]]]]]]]]]]]]]]]]], ["list", [["str", "'dict'"], ["list", [["list", [["list", [["str", "'str'"], ["str", "\"'pol'\""]]], ["list", [["str", "'str'"], ["str", "\"'HH'\""]]]]]]]]]]]]], ["list", [["list", [["str", "'str'"], ["str", "\"'t'\""]]], ["list", [["str", "'Variable'"], ["list", [["str", "'list'"], ["list", [["list", [["str", "'str'"], ["str", "\"'t'\""]]]]]]], ["list", [["str", "'ndarray'"], ["str", "'datetime64[s]'"], ["list", [["int", "2"]]], ["list", [["list", [["str", "'2020-01-01T00:00:00'"], ["int", "1577836800"]]], ["list", [["str", "'2020-01-03T00:00:00'"], ["int", "1578009600"]]]]]]], ["list", [["str", "'dict'"], ["list", [["list", [["list", [["str", "'str'"], ["str", "\"'r'\""]]], ["list", [["str", "'tuple'"], ["list", [["list", [["str", "'int'"], ["str", "'1'"]]], ["list", [["str", "'int'"], ["str", "'2'"]]]]]]]]]]]]]]]]], ["list", [["list", [["str", "'str'"], ["str", "\"'sub'\""]]], ["list", [["str", "'Group'"], ["list", [["str", "'str'"], ["str", "\"'/sub'\""]]], ["list", [["str", "'str'"], ["str", "\"'s3://bucket/scene'\""]]], ["list", [["str", "'dict'"], ["list", [["list", [["list", [["str", "'str'"], ["str", "\"'deep'\""]]], ["list", [["str", "'dict'"], ["list", [["list", [["list", [["str", "'str'"], ["str", "\"'t'\""]]], ["list", [["str", "'tuple'"], ["list", [["list", [["str", "'tuple'"], ["list", [["list", [["str", "'int'"], ["str", "'1'"]]]]]]], ["list", [["str", "'list'"], ["list", [["list", [["str", "'int'"], ["str", "'2'"]]]]]]]]]]]]]]]]]]]]]]], ["list", [["str", "'dict'"], ["list", [["list", [["list", [["str", "'str'"], ["str", "\"'n'\""]]], ["list", [["str", "'Variable'"], ["list", [["str", "'list'"], ["list", [["list", [["str", "'str'"], ["str", "\"'n'\""]]]]]]], ["list", [["str", "'ndarray'"], ["str", "'float64'"], ["list", [["int", "2"]]], ["list", [["list", [["str", "'float'"], ["str", "'1.5'"]]], ["list", [["str", "'float'"], ["str", "'2.5'"]]]]]]], ["list", [["str", "'dict'"], ["list", []]]]]]]]]]]]]]]]]]]]]]]], ["list", [["tuple", [["str", "'mapper.root'"]]], ["tuple", [["str", "'mapper.root'"]]], ["tuple", [["str", "'is_file'"], ["str", "'/eq5/cache/4f7cfeeaf747854a0a17f4fa6b2181e08de541609edf2ad148ca93567cf73d6a/image2.index'"]]], ["tuple", [["str", "'read_text'"], ["str", "'/eq5/cache/4f7cfeeaf747854a0a17f4fa6b2181e08de541609edf2ad148ca93567cf73d6a/image2.index'"], ["tuple", []], ["list", []]]]]]]]],
 "read-local-broken-structure": ["returned", ["list", [["list", [["str", "'raised'"], ["list", [["list", [["str", "'KeyError'"], ["str", "\"'data'\""]]]]]]], ["list", [["tuple", [["str", "'mapper.root'"]]], ["tuple", [["str", "'mapper.root'"]]], ["tuple", [["str", "'is_file'"], ["str", "'/eq5/cache/4f7cfeeaf747854a0a17f4fa6b2181e08de541609edf2ad148ca93567cf73d6a/image.index'"]]], ["tuple", [["str", "'read_text'"], ["str", "'/eq5/cache/4f7cfeeaf747854a0a17f4fa6b2181e08de541609edf2ad148ca93567cf73d6a/image.index'"], ["tuple", []], ["list", []]]]]]]]],
 "read-local-empty": ["returned", ["list", [["list", [["str", "'raised'"], ["list", [["list", [["str", "'CachingError'"], ["str", "'invalid or incomplete cache file'"]]], ["list", [["str", "'JSONDecodeError'"], ["str", "'Expecting value: line 1 column 1 (char 0)'"]]]]]]], ["list", [["tuple", [["str", "'mapper.root'"]]], ["tuple", [["str", "'mapper.root'"]]], ["tuple", [["str", "'is_file'"], ["str", "'/eq5/cache/4f7cfeeaf747854a0a17f4fa6b2181e08de541609edf2ad148ca93567cf73d6a/image.index'"]]], ["tuple", [["str", "'read_text'"], ["str", "'/eq5/cache/4f7cfeeaf747854a0a17f4fa6b2181e08de541609edf2ad148ca93567cf73d6a/image.index'"], ["tuple", []], ["list", []]]]]]]]],
 "read-local-invalid": ["returned", ["list", [["list", [["str", "'raised'"], ["list", [["list", [["str", "'CachingError'"], ["str", "'invalid or incomplete cache file'"]]], ["list", [["str", "'JSONDecodeError'"], ["str", "'Expecting property name enclosed in double quotes: line 1 column 2 (char 1)'"]]]]]]], ["list", [["tuple", [["str", "'mapper.root'"]]], ["tuple", [["str", "'mapper.root'"]]], ["tuple", [["str", "'is_file'"], ["str", "'/eq5/cache/4f7cfeeaf747854a0a17f4fa6b2181e08de541609edf2ad148ca93567cf73d6a/image.index'"]]], ["tuple", [["str", "'read_text'"], ["str", "'/eq5/cache/4f7cfeeaf747854a0a17f4fa6b2181e08de541609edf2ad148ca93567cf73d6a/image.index'"], ["tuple", []], ["list", []]]]]]]]],
 "read-local-oserror": ["returned", ["list", [["list", [["str", "'raised'"], ["list", [["list", [["str", "'OSError'"], ["str", "'disk'"]]]]]]], ["list", [["tuple", [["str", "'mapper.root'"]]], ["tuple", [["str", "'mapper.root'"]]], ["tuple", [["str", "'is_file'"], ["str", "'/eq5/cache/4f7cfeeaf747854a0a17f4fa6b2181e08de541609edf2ad148ca93567cf73d6a/image.index'"]]], ["tuple", [["str", "'read_text'"], ["str", "'/eq5/cache/4f7cfeeaf747854a0a17f4fa6b2181e08de541609edf2ad148ca93567cf73d6a/image.index'"], ["tuple", []], ["list", []]]]]]]]],
 "read-nested-path-local": ["returned", ["list", [["list", [["str", "'returned'"], ["list", [["str", "'Group'"], ["list", [["str", "'str'"], ["str", "\"'/'\""]]], ["list", [["str", "'str'"], ["str", "\"'s3://bucket/data'\""]]], ["list", [["str", "'dict'"], ["list", []]]], ["list", [["str", "'dict'"], ["list", []]]]]]]], ["list", [["tuple", [["str", "'mapper.root'"]]], ["tuple", [["str", "'mapper.root'"]]], ["tuple", [["str", "'is_file'"], ["str", "'/eq5/cache/4f7cfeeaf747854a0a17f4fa6b2181e08de541609edf2ad148ca93567cf73d6a/image.index'"]]], ["tuple", [["str", "'read_text'"], ["str", "'/eq5/cache/4f7cfeeaf747854a0a17f4fa6b2181e08de541609edf2ad148ca93567cf73d6a/image.index'"], ["tuple", []], ["list", []]]]]]]]],
 "read-nested-path-remote": ["returned", ["list", [["list", [["str", "'returned'"], ["list", [["str", "'Group'"], ["list", [["str", "'str'"], ["str", "\"'/'\""]]], ["list", [["str", "'str'"], ["str", "\"'s3://bucket/data'\""]]], ["list", [["str", "'dict'"], ["list", []]]], ["list", [["str", "'dict'"], ["list", []]]]]]]], ["list", [["tuple", [["str", "'mapper.root'"]]], ["tuple", [["str", "'mapper.root'"]]], ["tuple", [["str", "'is_file'"], ["str", "'/eq5/cache/4f7cfeeaf747854a0a17f4fa6b2181e08de541609edf2ad148ca93567cf73d6a/image.index'"]]], ["tuple", [["str", "'mapper.contains'"], ["str", "'sub/dir/image.index'"]]], ["tuple", [["str", "'mapper.getitem'"], ["str", "'sub/dir/image.index'"]]]]]]]],
 "read-nothing": ["returned", ["list", [["list", [["str", "'raised'"], ["list", [["list", [["str", "'CachingError'"], ["str", "'no cache found for not-a-cache'"]]]]]]], ["list", [["tuple", [["str", "'mapper.root'"]]], ["tuple", [["str", "'mapper.root'"]]], ["tuple", [["str", "'is_file'"], ["str", "'/eq5/cache/4f7cfeeaf747854a0a17f4fa6b2181e08de541609edf2ad148ca93567cf73d6a/not-a-cache.index'"]]], ["tuple", [["str", "'mapper.contains'"], ["str", "'not-a-cache.index'"]]]]]]]],
 "read-nothing-nested-path": ["returned", ["list", [["list", [["str", "'raised'"], ["list", [["list", [["str", "'CachingError'"], ["str", "'no cache found for a/b/not-a-cache'"]]]]]]], ["list", [["tuple", [["str", "'mapper.root'"]]], ["tuple", [["str", "'mapper.root'"]]], ["tuple", [["str", "'is_file'"], ["str", "'/eq5/cache/4f7cfeeaf747854a0a17f4fa6b2181e08de541609edf2ad148ca93567cf73d6a/not-a-cache.index'"]]], ["tuple", [["str", "'mapper.contains'"], ["str", "'a/b/not-a-cache.index'"]]]]]]]],
 "read-positional-rpc": ["returned", ["list", [["Group", ["str", "'/'"], ["str", "'s3://bucket/data'"], ["dict", []], ["dict", []]], ["list", [["tuple", [["str", "'mapper.root'"]]], ["tuple", [["str", "'mapper.root'"]]], ["tuple", [["str", "'is_file'"], ["str", "'/eq5/cache/4f7cfeeaf747854a0a17f4fa6b2181e08de541609edf2ad148ca93567cf73d6a/image.index'"]]], ["tuple", [["str", "'mapper.contains'"], ["str", "'image.index'"]]], ["tuple", [["str", "'mapper.getitem'"], ["str", "'image.index'"]]]]]]]],
 "read-real-mapper": ["returned", ["list", [["list", [["str", "'returned'"], ["list", [["str", "'Group'"], ["list", [["str", "'str'"], ["str", "\"'/'\""]]], ["list", [["str", "'str'"], ["str", "\"'s3://bucket/data'\""]]], ["list", [["str", "'dict'"], ["list", []]]], ["list", [["str", "'dict'"], ["list", []]]]]]]], ["list", [["str", "'raised'"], ["list", [["list", [["str", "'CachingError'"], ["str", "'no cache found for image2'"]]]]]]], ["list", [["tuple", [["str", "'is_file'"], ["str", "'/eq5/cache/178b166177ce7e83fe2ceaabf8b742be93d3b796e87e235eaa0a7f1c9b06a5fa/image1.index'"]]], ["tuple", [["str", "'is_file'"], ["str", "'/eq5/cache/178b166177ce7e83fe2ceaabf8b742be93d3b796e87e235eaa0a7f1c9b06a5fa/image2.index'"]]]]]]]],
 "read-remote": ["returned", ["list", [["list", [["str", "'returned'"], ["list", [["str", "'Group'"], ["list", [["str", "'str'"], ["str", "\"'/'\""]]], ["list", [["str", "'str'"], ["str", "\"'s3://bucket/scene'\""]]], ["list", [["str", "'dict'"], ["list", [["list", [["list", [["str", "'str'"], ["str", "\"'title'\""]]], ["list", [["str", "'str'"], ["str", "\"'scene'\""]]]]], ["list", [["list", [["str", "'str'"], ["str", "\"'shape'\""]]], ["list", [["str", "'tuple'"], ["list", [["list", [["str", "'int'"], ["str", "'2'"]]], ["list", [["str", "'int'"], ["str", "'3'"]]]]]]]]]]]]], ["list", [["str", "'dict'"], ["list", [["list", [["list", [["str", "'str'"], ["str", "\"'v'\""]]], ["list", [["str", "'Variable'"], ["list", [["str", "'list'"], ["list", [["list", [["str", "'str'"], ["str", "\"'x'\""]]], ["list", [["str", "'str'"], ["str", "\"'y'\""]]]]]]], ["list", [["str", "'Array'"], ["str", "'DirFileSystem'"], ["list", [["str", "'str'"], ["str", "\"'/path/to'\""]]], ["str", "'LocalFileSystem'"], ["list", [["str", "'str'"], ["str", "\"'file'\""]]], ["list", [["str", "'list'"], ["list", [["list", [["str", "'tuple'"], ["list", [["list", [["str", "'int'"], ["str", "'5'"]]], ["list", [["str", "'int'"], ["str", "'10'"]]]]]]], ["list", [["str", "'tuple'"], ["list", [["list", [["str", "'int'"], ["str", "'15'"]]], ["list", [["str", "'int'"], ["str", "'20'"]]]]]]], ["list", [["str", "'tuple'"], ["list", [["list", [["str", "'int'"], ["str", "'25'"]]], ["list", [["str", "'int'"], ["str", "'30'"]]]]]]], ["list", [["str", "'tuple'"], ["list", [["list", [["str", "'int'"], ["str", "'35'"]]], ["list", [["str", "'int'"], ["str", "'40'"]]]]]]]]]]], ["list", [["str", "'tuple'"], ["list", [["list", [["str", "'int'"], ["str", "'4'"]]], ["list", [["str", "'int'"], ["str", "'3'"]]]]]]], ["list", [["str", "'str'"], ["str", "\"'complex64'\""]]], ["list", [["str", "'str'"], ["str", "\"'C*8'\""]]], ["list", [["str", "'int'"], ["str", "'3'"]]], ["list", [["str", "'dict'"], ["list", [["list", [["list", [["str", "'int'"], ["str", "'0'"]]], ["list", [["str", "'dict'"], ["list", [["list", [["list", [["str", "'str'"], ["str", "\"'offset'\""]]], ["list", [["str", "'int'"], ["str", "'5'"]]]]], ["list", [["list", [["str", "'str'"], ["str", "\"'size'\""]]], ["list", [["str", "'int'"], ["str", "'25'"]]]]]]]]]]], ["list", [["list", [["str", "'int'"], ["str", "'1'"]]], ["list", [["str", "'dict'"], ["list", [["list", [["list", [["str", "'str'"], ["str", "\"'offset'\""]]], ["list", [["str", "'int'"], ["str", "'35'"]]]]], ["list", [["list", [["str", "'str'"], ["str", "\"'size'\""]]], ["list", [["str", "'int'"], ["str", "'5'"]]]]]]]]]]]]]]]]], ["list", [["str", "'dict'"], ["list", [["list", [["list", [["str", "'str'"], ["str", "\"'pol'\""]]], ["list", [["str", "'str'"], ["str", "\"'HH'\""]]]]]]]]]]]]], ["list", [["list", [["str", "'str'"], ["str", "\"'t'\""]]], ["list", [["str", "'Variable'"], ["list", [["str", "'list'"], ["list", [["list", [["str", "'str'"], ["str", "\"'t'\""]]]]]]], ["list", [["str", "'ndarray'"], ["str", "'datetime64[s]'"], ["list", [["int", "2"]]], ["list", [["list", [["str", "'2020-01-01T00:00:00'"], ["int", "1577836800"]]], ["list", [["str", "'2020-01-03T00:00:00'"], ["int", "1578009600"]]]]]]], ["list", [["str", "'dict'"], ["list", [["list", [["list", [["str", "'str'"], ["str", "\"'r'\""]]], ["list", [["str", "'tuple'"], ["list", [["list", [["str", "'int'"], ["str", "'1'"]]], ["list", [["str", "'int'"], ["str", "'2'"]]]]]]]]]]]]]]]]], ["list", [["list", [["str", "'str'"], ["str", "\"'sub'\""]]], ["list", [["str", "'Group'"], ["list", [["str", "'str'"], ["str", "\"'/sub'\""]]], ["list", [["str", "'str'"], ["str", "\"'s3://bucket/scene'\""]]], ["list", [["str", "'dict'"], ["list", [["list", [["list", [["str", "'str'"], ["str", "\"'deep'\""]]], ["list", [["str", "'dict'"], ["list", [["list", [["list", [["str", "'str'"], ["str", "\"'t'\""]]], ["list", [["str", "'tuple'"], ["list", [["list", [["str", "'tuple'"], ["list", [["list", [["str", "'int'"], ["str", "'1'"]]]]]]], ["list", [["str", "'list'"], ["list", [["list", [["str", "'int'"], ["str", "'2'"]]]]]]]]]]]]]]]]]]]]]]], ["list", [["str", "'dict'"], ["list", [["list", [["list", [["str", "'str'"], ["str", "\"'n'\""]]], ["list", [["str", "'Variable'"], ["list", [["str", "'list'"], ["list", [["list", [["str", "'str'"], ["str", "\"'n'\""]]]]]]], ["list", [["str", "'ndarray'"], ["str", "'float64'"], ["list", [["int", "2"]]], ["list", [["list", [["str", "'float'"], ["str", "'1.5'"]]], ["list", [["str", "'float'"], ["str", "'2.5'"]]]]]]], ["list", [["str", "'dict'"], ["list", []]]]]]]]]]]]]]]]]]]]]]]], ["list", [["tuple", [["str", "'mapper.root'"]]], ["tuple", [["str", "'mapper.root'"]]], ["tuple", [["str", "'is_file'"], ["str", "'/eq5/cache/4f7cfeeaf747854a0a17f4fa6b2181e08de541609edf2ad148ca93567cf73d6a/image1.index'"]]], ["tuple", [["str", "'mapper.contains'"], ["str", "'image1.index'"]]], ["tuple", [["str", "'mapper.getitem'"], ["str", "'image1.index'"]]]]]]]],
 "read-remote-empty": ["returned", ["list", [["list", [["str", "'raised'"], ["list", [["list", [["str", "'CachingError'"], ["str", "'invalid or incomplete cache file'"]]], ["list", [["str", "'JSONDecodeError'"], ["str", "'Expecting value: line 1 column 1 (char 0)'"]]]]]]], ["list", [["tuple", [["str", "'mapper.root'"]]], ["tuple", [["str", "'mapper.root'"]]], ["tuple", [["str", "'is_file'"], ["str", "'/eq5/cache/4f7cfeeaf747854a0a17f4fa6b2181e08de541609edf2ad148ca93567cf73d6a/image.index'"]]], ["tuple", [["str", "'mapper.contains'"], ["str", "'image.index'"]]], ["tuple", [["str", "'mapper.getitem'"], ["str", "'image.index'"]]]]]]]],
 "read-remote-invalid": ["returned", ["list", [["list", [["str", "'raised'"], ["list", [["list", [["str", "'CachingError'"], ["str", "'invalid or incomplete cache file'"]]], ["list", [["str", "'JSONDecodeError'"], ["str", "'Expecting value: line 1 column 1 (char 0)'"]]]]]]], ["list", [["tuple", [["str", "'mapper.root'"]]], ["tuple", [["str", "'mapper.root'"]]], ["tuple", [["str", "'is_file'"], ["str", "'/eq5/cache/4f7cfeeaf747854a0a17f4fa6b2181e08de541609edf2ad148ca93567cf73d6a/image.index'"]]], ["tuple", [["str", "'mapper.contains'"], ["str", "'image.index'"]]], ["tuple", [["str", "'mapper.getitem'"], ["str", "'image.index'"]]]]]]]],
 "read-remote-none-value": ["returned", ["list", [["list", [["str", "'raised'"], ["list", [["list", [["str", "'CachingError'"], ["str", "'no cache found for image'"]]]]]]], ["list", [["tuple", [["str", "'mapper.root'"]]], ["tuple", [["str", "'mapper.root'"]]], ["tuple", [["str", "'is_file'"], ["str", "'/eq5/cache/4f7cfeeaf747854a0a17f4fa6b2181e08de541609edf2ad148ca93567cf73d6a/image.index'"]]], ["tuple", [["str", "'mapper.contains'"], ["str", "'image.index'"]]]]]]]],
 "read-remote-not-utf8": ["returned", ["list", [["list", [["str", "'raised'"], ["list", [["list", [["str", "'UnicodeDecodeError'"], ["str", "\"'utf-8' codec can't decode byte 0xff in position 0: invalid start byte\""]]]]]]], ["list", [["tuple", [["str", "'mapper.root'"]]], ["tuple", [["str", "'mapper.root'"]]], ["tuple", [["str", "'is_file'"], ["str", "'/eq5/cache/4f7cfeeaf747854a0a17f4fa6b2181e08de541609edf2ad148ca93567cf73d6a/image.index'"]]], ["tuple", [["str", "'mapper.contains'"], ["str", "'image.index'"]]], ["tuple", [["str", "'mapper.getitem'"], ["str", "'image.index'"]]]]]]]],
 "read-remote-str": ["returned", ["list", [["list", [["str", "'raised'"], ["list", [["list", [["str", "'AttributeError'"], ["str", "\"'str' object has no attribute 'decode'\""]]]]]]], ["list", [["tuple", [["str", "'mapper.root'"]]], ["tuple", [["str", "'mapper.root'"]]], ["tuple", [["str", "'is_file'"], ["str", "'/eq5/cache/4f7cfeeaf747854a0a17f4fa6b2181e08de541609edf2ad148ca93567cf73d6a/image.index'"]]], ["tuple", [["str", "'mapper.contains'"], ["str", "'image.index'"]]], ["tuple", [["str", "'mapper.getitem'"], ["str", "'image.index'"]]]]]]]],
 "read-root-int": ["returned", ["list", [["list", [["str", "'raised'"], ["list", [["list", [["str", "'AttributeError'"], ["str", "\"'int' object has no attribute 'encode'\""]]]]]]], ["list", [["tuple", [["str", "'mapper.root'"]]], ["tuple", [["str", "'mapper.root'"]]]]]]]],
 "read-root-none": ["returned", ["list", [["list", [["str", "'raised'"], ["list", [["list", [["str", "'AttributeError'"], ["str", "\"'NoneType' object has no attribute 'encode'\""]]]]]]], ["list", [["tuple", [["str", "'mapper.root'"]]], ["tuple", [["str", "'mapper.root'"]]]]]]]],
 "read-rpc-auto": ["returned", ["list", [["list", [["str", "'returned'"], ["list", [["str", "'Group'"], ["list", [["str", "'str'"], ["str", "\"'/'\""]]], ["list", [["str", "'str'"], ["str", "\"'s3://bucket/scene'\""]]], ["list", [["str", "'dict'"], ["list", [["list", [["list", [["str", "'str'"], ["str", "\"'title'\""]]], ["list", [["str", "'str'"], ["str", "\"'scene'\""]]]]], ["list", [["list", [["str", "'str'"], ["str", "\"'shape'\""]]], ["list", [["str", "'tuple'"], ["list", [["list", [["str", "'int'"], ["str", "'2'"]]], ["list", [["str", "'int'"], ["str", "'3'"]]]]]]]]]]]]], ["list", [["str", "'dict'"], ["list", [["list", [["list", [["str", "'str'"], ["str", "\"'v'\""]]], ["list", [["str", "'Variable'"], ["list", [["str", "'list'"], ["list", [["list", [["str", "'str'"], ["str", "\"'x'\""]]], ["list", [["str", "'str'"], ["str", "\"'y'\""]]]]]]], ["list", [["str", "'Array'"], ["str", "'DirFileSystem'"], ["list", [["str", "'str'"], ["str", "\"'/path/to'\""]]], ["str", "'LocalFileSystem'"], ["list", [["str", "'str'"], ["str", "\"'file'\""]]], ["list", [["str", "'list'"], ["list", [["list", [["str", "'tuple'"], ["list", [["list", [["str", "'int'"], ["str", "'5'"]]], ["list", [["str", "'int'"], ["str", "'10'"]]]]]]], ["list", [["str", "'tuple'"], ["list", [["list", [["str", "'int'"], ["str", "'15'"]]], ["list", [["str", "'int'"], ["str", "'20'"]]]]]]], ["list", [["str", "'tuple'"], ["list", [["list", [["str", "'int'"], ["str", "'25'"]]], ["list", [["str", "'int'"], ["str", "'30'"]]]]]]], ["list", [["str", "'tuple'"], ["list", [["list", [["str", "'int'"], ["str", "'35'"]]], ["list", [["str", "'int'"], ["str", "'40'"]]]]]]]]]]], ["list", [["str", "'tuple'"], ["list", [["list", [["str", "'int'"], ["str", "'4'"]]], ["list", [["str", "'int'"], ["str", "'3'"]]]]]]], ["list", [["str", "'str'"], ["str", "\"'complex64'\""]]], ["list", [["str", "'str'"], ["str", "\"'C*8'\""]]], ["list", [["str", "'int64'"], ["str", "'4'"]]], ["list", [["str", "'dict'"], ["list", [["list", [["list", [["str", "'int'"], ["str", "'0'"]]], ["list", [["str", "'dict'"], ["list", [["list", [["list", [["str", "'str'"], ["str", "\"'offset'\""]]], ["list", [["str", "'int'"], ["str", "'5'"]]]]], ["list", [["list", [["str", "'str'"], ["str", "\"'size'\""]]], ["list", [["str", "'int'"], ["str", "'35'"]]]]]]]]]]]]]]]]], ["list", [["str", "'dict'"], ["list", [["list", [["list", [["str", "'str'"], ["str", "\"'pol'\""]]], ["list", [["str", "'str'"], ["str", "\"'HH'\""]]]]]]]]]]]]], ["list", [["list", [["str", "'str'"], ["str", "\"'t'\""]]], ["list", [["str", "'Variable'"], ["list", [["str", "'list'"], ["list", [["list", [["str", "'str'"], ["str", "\"'t'\""]]]]]]], ["list", [["str", "'ndarray'"], ["str", "'datetime64[s]'"], ["list", [["int", "2"]]], ["list", [["list", [["str", "'2020-01-01T00:00:00'"], ["int", "1577836800"]]], ["list", [["str", "'2020-01-03T00:00:00'"], ["int", "1578009600"]]]]]]], ["list", [["str", "'dict'"], ["list", [["list", [["list", [["str", "'str'"], ["str", "\"'r'\""]]], ["list", [["str", "'tuple'"], ["list", [["list", [["str", "'int'"], ["str", "'1'"]]], ["list", [["str", "'int'"], ["str", "'2'"]]]]]]]]]]]]]]]]], ["list", [["list", [["str", "'str'"], ["str", "\"'sub'\""]]], ["list", [["str", "'Group'"], ["list", [["str", "'str'"], ["str", "\"'/sub'\""]]], ["list", [["str", "'str'"], ["str", "\"'s3://bucket/scene'\""]]], ["list", [["str", "'dict'"], ["list", [["list", [["list", [["str", "'str'"], ["str", "\"'deep'\""]]], ["list", [["str", "'dict'"], ["list", [["list", [["list", [["str", "'str'"], ["str", "\"'t'\""]]], ["list", [["str", "'tuple'"], ["list", [["list", [["str", "'tuple'"], ["list", [["list", [["str", "'int'"], ["str", "'1'"]]]]]]], ["list", [["str", "'list'"], ["list", [["list", [["str", "'int'"], ["str", "'2'"]]]]]]]]]]]]]]]]]]]]]]], ["list", [["str", "'dict'"], ["list", [["list", [["list", [["str", "'str'"], ["str", "\"'n'\""]]], ["list", [["str", "'Variable'"], ["list", [["str", "'list'"], ["list", [["list", [["str", "'str'"], ["str", "\"'n'\""]]]]]]], ["list", [["str", "'ndarray'"], ["str", "'float64'"], ["list", [["int", "2"]]], ["list", [["list", [["str", "'float'"], ["str", "'1.5'"]]], ["list", [["str", "'float'"], ["str", "'2.5'"]]]]]]], ["list", [["str", "'dict'"], ["list", []]]]]]]]]]]]]]]]]]]]]]]], ["list", [["tuple", [["str", "'mapper.root'"]]], ["tuple", [["str", "'mapper.root'"]]], ["tuple", [["str", "'is_file'"], ["str", "'/eq5/cache/4f7cfeeaf747854a0a17f4fa6b2181e08de541609edf2ad148ca93567cf73d6a/image.index'"]]], ["tuple", [["str", "'mapper.contains'"], ["str", "'image.index'"]]], ["tuple", [["str", "'mapper.getitem'"], ["str", "'image.index'"]]]]]]]],
 "read-rpc-none": ["returned", ["list", [["list", [["str", "'returned'"], ["list", [["str", "'Group'"], ["list", [["str", "'str'"], ["str", "\"'/'\""]]], ["list", [["str", "'str'"], ["str", "\"'s3://bucket/scene'\""]]], ["list", [["str", "'dict'"], ["list", [["list", [["list", [["str", "'str'"], ["str", "\"'title'\""]]], ["list", [["str", "'str'"], ["str", "\"'scene'\""]]]]], ["list", [["list", [["str", "'str'"], ["str", "\"'shape'\""]]], ["list", [["str", "'tuple'"], ["list", [["list", [["str", "'int'"], ["str", "'2'"]]], ["list", [["str", "'int'"], ["str", "'3'"]]]]]]]]]]]]], ["list", [["str", "'dict'"], ["list", [["list", [["list", [["str", "'str'"], ["str", "\"'v'\""]]], ["list", [["str", "'Variable'"], ["list", [["str", "'list'"], ["list", [["list", [["str", "'str'"], ["str", "\"'x'\""]]], ["list", [["str", "'str'"], ["str", "\"'y'\""]]]]]]], ["list", [["str", "'Array'"], ["str", "'DirFileSystem'"], ["list", [["str", "'str'"], ["str", "\"'/path/to'\""]]], ["str", "'LocalFileSystem'"], ["list", [["str", "'str'"], ["str", "\"'file'\""]]], ["list", [["str", "'list'"], ["list", [["list", [["str", "'tuple'"], ["list", [["list", [["str", "'int'"], ["str", "'5'"]]], ["list", [["str", "'int'"], ["str", "'10'"]]]]]]], ["list", [["str", "'tuple'"], ["list", [["list", [["str", "'int'"], ["str", "'15'"]]], ["list", [["str", "'int'"], ["str", "'20'"]]]]]]], ["list", [["str", "'tuple'"], ["list", [["list", [["str", "'int'"], ["str", "'25'"]]], ["list", [["str", "'int'"], ["str", "'30'"]]]]]]], ["list", [["str", "'tuple'"], ["list", [["list", [["str", "'int'"], ["str", "'35'"]]], ["list", [["str", "'int'"], ["str", "'40'"]]]]]]]]]]], ["list", [["str", "'tuple'"], ["list", [["list", [["str", "'int'"], ["str", "'4'"]]], ["list", [["str", "'int'"], ["str", "'3'"]]]]]]], ["list", [["str", "'str'"], ["str", "\"'complex64'\""]]], ["list", [["str", "'str'"], ["str", "\"'C*8'\""]]], ["list", [["str", "'int'"], ["str", "'1024'"]]], ["list", [["str", "'dict'"], ["list", [["list", [["list", [["str", "'int'"], ["str", "'0'"]]], ["list", [["str", "'dict'"], ["list", [["list", [["list", [["str", "'str'"], ["str", "\"'offset'\""]]], ["list", [["str", "'int'"], ["str", "'5'"]]]]], ["list", [["list", [["str", "'str'"], ["str", "\"'size'\""]]], ["list", [["str", "'int'"], ["str", "'35'"]]]]]]]]]]]]]]]]], ["list", [["str", "'dict'"], ["list", [["list", [["list", [["str", "'str'"], ["str", "\"'pol'\""]]], ["list", [["str", "'str'"], ["str", "\"'HH'\""]]]]]]]]]]]]], ["list", [["list", [["str", "'str'"], ["str", "\"'t'\""]]], ["list", [["str", "'Variable'"], ["list", [["str", "'list'"], ["list", [["list", [["str", "'str'"], ["str", "\"'t'\""]]]]]]], ["list", [["str", "'ndarray'"], ["str", "'datetime64[s]'"], ["list", [["int", "2"]]], ["list", [["list", [["str", "'2020-01-01T00:00:00'"], ["int", "1577836800"]]], ["list", [["str", "'2020-01-03T00:00:00'"], ["int", "1578009600"]]]]]]], ["list", [["str", "'dict'"], ["list", [["list", [["list", [["str", "'str'"], ["str", "\"'r'\""]]], ["list", [["str", "'tuple'"], ["list", [["list", [["str", "'int'"], ["str", "'1'"]]], ["list", [["str", "'int'"], ["str", "'2'"]]]]]]]]]]]]]]]]], ["list", [["list", [["str", "'str'"], ["str", "\"'sub'\""]]], ["list", [["str", "'Group'"], ["list", [["str", "'str'"], ["str", "\"'/sub'\""]]], ["list", [["str", "'str'"], ["str", "\"'s3://bucket/scene'\""]]], ["list", [["str", "'dict'"], ["list", [["list", [["list", [["str", "'str'"], ["str", "\"'deep'\""]]], ["list", [["str", "'dict'"], ["list", [["list", [["list", [["str", "'str'"], ["str", "\"'t'\""]]], ["list", [["str", "'tuple'"], ["list", [["list", [["str", "'tuple'"], ["list", [["list", [["str", "'int'"], ["str", "'1'"]]]]]]], ["list", [["str", "'list'"], ["list", [["list", [["str", "'int'"], ["str", "'2'"]]]]]]]]]]]]]]]]]]]]]]], ["list", [["str", "'dict'"], ["list", [["list", [["list", [["str", "'str'"], ["str", "\"'n'\""]]], ["list", [["str", "'Variable'"], ["list", [["str", "'list'"], ["list", [["list", [["str", "'str'"], ["str", "\"'n'\""]]]]]]], ["list", [["str", "'ndarray'"], ["str", "'float64'"], ["list", [["int", "2"]]], ["list", [["list", [["str", "'float'"], ["str", "'1.5'"]]], ["list", [["str", "'float'"], ["str", "'2.5'"]]]]]]], ["list", [["str", "'dict'"], ["list", []]]]]]]]]]]]]]]]]]]]]]]], ["list", [["tuple", [["str", "'mapper.root'"]]], ["tuple", [["str", "'mapper.root'"]]], ["tuple", [["str", "'is_file'"], ["str", "'/eq5/cache/4f7cfeeaf747854a0a17f4fa6b2181e08de541609edf2ad148ca93567cf73d6a/image.index'"]]], ["tuple", [["str", "'read_text'"], ["str", "'/eq5/cache/4f7cfeeaf747854a0a17f4fa6b2181e08de541609edf2ad148ca93567cf73d6a/image.index'"], ["tuple", []], ["list", []]]]]]]]],
 "real-filesystem": ["returned", ["list", [["list", [["str", "'raised'"], ["list", [["list", [["str", "'CachingError'"], ["str", "'no cache found for image'"]]]]]]], ["list", [["str", "'nested/cache/361e4877b51326cb2e9403112c93053fd86542e1271a4fa918762bda7cddbc2a/image.index'"]]], ["str", "'{\"__type__\": \"group\", \"url\": \"s3://bucket/scene\", \"data\": {\"v\": {\"__type__\": \"variable\", \"dims\": [\"x\", \"y\"], \"data\": {\"__type__\": \"backend_array\", \"root\": \"/path/to\", \"url\": \"file\", \"shape\": {\"__type__\": \"tuple\", \"data\": [4, 3]}, \"dtype\": \"complex64\", \"byte_ranges\": [{\"__type__\": \"tuple\", \"data\": [5, 10]}, {\"__type__\": \"tuple\", \"data\": [15, 20]}, {\"__type__\": \"tuple\", \"data\": [25, 30]}, {\"__type__\": \"tuple\", \"data\": [35, 40]}], \"type_code\": \"C*8\"}, \"attrs\": {\"pol\": \"HH\"}}, \"t\": {\"__type__\": \"variable\", \"dims\": [\"t\"], \"data\": {\"__type__\": \"array\", \"dtype\": \"datetime64[s]\", \"data\": [0, 172800], \"encoding\": {\"reference\": \"2020-01-01T00:00:00\", \"units\": \"s\"}}, \"attrs\": {\"r\": {\"__type__\": \"tuple\", \"data\": [1, 2]}}}, \"sub\": {\"__type__\": \"group\", \"url\": \"s3://bucket/scene\", \"data\": {\"n\": {\"__type__\": \"variable\", \"dims\": [\"n\"], \"data\": {\"__type__\": \"array\", \"dtype\": \"float64\", \"data\": [1.5, 2.5], \"encoding\": {}}, \"attrs\": {}}}, \"path\": \"/sub\", \"attrs\": {\"deep\": {\"t\": {\"__type__\": \"tuple\", \"data\": [{\"__type__\": \"tuple\", \"data\": [1]}, [2]]}}}}}, \"path\": \"/\", \"attrs\": {\"title\": \"scene\", \"shape\": {\"__type__\": \"tuple\", \"data\": [2, 3]}}}'"], ["Group", ["str", "'/'"], ["str", "'s3://bucket/scene'"], ["dict", [[["str", "'title'"], ["str", "'scene'"]], [["str", "'shape'"], ["tuple", [["int", "2"], ["int", "3"]]]]]], ["dict", [[["str", "'v'"], ["Variable", ["list", [["str", "'x'"], ["str", "'y'"]]], ["Array", "DirFileSystem", ["str", "'/path/to'"], "LocalFileSystem", ["str", "'file'"], ["list", [["tuple", [["int", "5"], ["int", "10"]]], ["tuple", [["int", "15"], ["int", "20"]]], ["tuple", [["int", "25"], ["int", "30"]]], ["tuple", [["int", "35"], ["int", "40"]]]]], ["tuple", [["int", "4"], ["int", "3"]]], ["str", "'complex64'"], ["str", "'C*8'"], ["int", "2"], ["dict", [[["int", "0"], ["dict", [[["str", "'offset'"], ["int", "5"]], [["str", "'size'"], ["int", "15"]]]]], [["int", "1"], ["dict", [[["str", "'offset'"], ["int", "25"]], [["str", "'size'"], ["int", "15"]]]]]]]], ["dict", [[["str", "'pol'"], ["str", "'HH'"]]]]]], [["str", "'t'"], ["Variable", ["list", [["str", "'t'"]]], ["ndarray", "datetime64[s]", [2], [["2020-01-01T00:00:00", 1577836800], ["2020-01-03T00:00:00", 1578009600]]], ["dict", [[["str", "'r'"], ["tuple", [["int", "1"], ["int", "2"]]]]]]]], [["str", "'sub'"], ["Group", ["str", "'/sub'"], ["str", "'s3://bucket/scene'"], ["dict", [[["str", "'deep'"], ["dict", [[["str", "'t'"], ["tuple", [["tuple", [["int", "1"]]], ["list", [["int", "2"]]]]]]]]]]], ["dict", [[["str", "'n'"], ["Variable", ["list", [["str", "'n'"]]], ["ndarray", "float64", [2], [["float", "1.5"], ["float", "2.5"]]], ["dict", []]]]]]]]]]], ["list", []]]]],
 "remote-location-0-0": ["returned", ["str", "'image1.index'"]],
 "remote-location-0-1": ["returned", ["str", "'IMG-HH-ALOS2225333200-180726-WWDR1.1__D.index'"]],
 "remote-location-0-10": ["returned", ["str", "'\u00e9t\u00e9.index'"]],
 "remote-location-0-2": ["returned", ["str", "'sub/dir/image2.index'"]],
 "remote-location-0-3": ["returned", ["str", "'/abs/image3.index'"]],
 "remote-location-0-4": ["returned", ["str", "'trailing/.index'"]],
 "remote-location-0-5": ["returned", ["str", "'.index'"]],
 "remote-location-0-6": ["returned", ["str", "'/.index'"]],
 "remote-location-0-7": ["returned", ["str", "'a//b.index'"]],
 "remote-location-0-8": ["returned", ["str", "'with space.index.index'"]],
 "remote-location-0-9": ["returned", ["str", "'...index'"]],
 "remote-location-1-0": ["returned", ["str", "'image1.index'"]],
 "remote-location-1-1": ["returned", ["str", "'IMG-HH-ALOS2225333200-180726-WWDR1.1__D.index'"]],
 "remote-location-1-10": ["returned", ["str", "'\u00e9t\u00e9.index'"]],
 "remote-location-1-2": ["returned", ["str", "'sub/dir/image2.index'"]],
 "remote-location-1-3": ["returned", ["str", "'/abs/image3.index'"]],
 "remote-location-1-4": ["returned", ["str", "'trailing/.index'"]],
 "remote-location-1-5": ["returned", ["str", "'.index'"]],
 "remote-location-1-6": ["returned", ["str", "'/.index'"]],
 "remote-location-1-7": ["returned", ["str", "'a//b.index'"]],
 "remote-location-1-8": ["returned", ["str", "'with space.index.index'"]],
 "remote-location-1-9": ["returned", ["str", "'...index'"]],
 "remote-location-2-0": ["returned", ["str", "'image1.index'"]],
 "remote-location-2-1": ["returned", ["str", "'IMG-HH-ALOS2225333200-180726-WWDR1.1__D.index'"]],
 "remote-location-2-10": ["returned", ["str", "'\u00e9t\u00e9.index'"]],
 "remote-location-2-2": ["returned", ["str", "'sub/dir/image2.index'"]],
 "remote-location-2-3": ["returned", ["str", "'/abs/image3.index'"]],
 "remote-location-2-4": ["returned", ["str", "'trailing/.index'"]],
 "remote-location-2-5": ["returned", ["str", "'.index'"]],
 "remote-location-2-6": ["returned", ["str", "'/.index'"]],
 "remote-location-2-7": ["returned", ["str", "'a//b.index'"]],
 "remote-location-2-8": ["returned", ["str", "'with space.index.index'"]],
 "remote-location-2-9": ["returned", ["str", "'...index'"]],
 "remote-location-3-0": ["returned", ["str", "'image1.index'"]],
 "remote-location-3-1": ["returned", ["str", "'IMG-HH-ALOS2225333200-180726-WWDR1.1__D.index'"]],
 "remote-location-3-10": ["returned", ["str", "'\u00e9t\u00e9.index'"]],
 "remote-location-3-2": ["returned", ["str", "'sub/dir/image2.index'"]],
 "remote-location-3-3": ["returned", ["str", "'/abs/image3.index'"]],
 "remote-location-3-4": ["returned", ["str", "'trailing/.index'"]],
 "remote-location-3-5": ["returned", ["str", "'.index'"]],
 "remote-location-3-6": ["returned", ["str", "'/.index'"]],
 "remote-location-3-7": ["returned", ["str", "'a//b.index'"]],
 "remote-location-3-8": ["returned", ["str", "'with space.index.index'"]],
 "remote-location-3-9": ["returned", ["str", "'...index'"]]
}
'''


def test_equivalence():
    main(cases, EXPECTED)


if __name__ == "__main__":
    main(cases, EXPECTED)
