"""Equivalence check for refactoring 4 (ceos_alos2/testing.py: format_array / diff_array).

Run as

    cd /tmp/wt10/e88 && PYTHONPATH=/tmp/wt10/e88 /venv/bin/python _eq/4/equiv.py

(or through pytest). ``EXPECTED`` was recorded from the unchanged code (HEAD) with
``equiv.py --record``; the script has to pass with and without the patch.

Both functions are exercised directly and through all of their callers
(format_variable, format_inline, diff_mapping, diff_data, diff_variable, diff_tree,
assert_identical).
"""

import itertools
import sys
import types

import fsspec
import numpy as np

from ceos_alos2 import testing
from ceos_alos2.array import Array
from ceos_alos2.hierarchy import Group, Variable


def describe(value):
    module = type(value).__module__
    if module == __name__:
        module = "<equiv>"
    return f"{module}.{type(value).__qualname__}:{value!r}"


def describe_exception(e):
    return (
        f"raised {describe(e)} cause={describe(e.__cause__)}"
        f" context={type(e.__context__).__name__} suppress={e.__suppress_context__}"
    )


def call(f, *args, **kwargs):
    try:
        return "ok " + describe(f(*args, **kwargs))
    except BaseException as e:  # noqa: B902
        return describe_exception(e)


def make_array(
    *,
    protocol="memory",
    byte_ranges=None,
    path="/path/to",
    url="file",
    shape=(4, 3),
    dtype="int16",
    records_per_chunk=2,
    type_code="IU2",
):
    if byte_ranges is None:
        byte_ranges = [(x * 10 + 5, (x + 1) * 10) for x in range(shape[0])]

    fs = fsspec.filesystem(protocol)
    dirfs = fsspec.filesystem("dir", path=path, fs=fs)

    return Array(
        fs=dirfs,
        url=url,
        byte_ranges=byte_ranges,
        shape=shape,
        dtype=dtype,
        type_code=type_code,
        records_per_chunk=records_per_chunk,
    )


def fake_array(**overrides):
    """Array whose file system is a plain namespace (no fsspec involved)"""
    fs = types.SimpleNamespace(
        fs=types.SimpleNamespace(protocol=overrides.pop("protocol", "fake")),
        sep=overrides.pop("sep", "/"),
        path=overrides.pop("path", "root"),
    )
    parameters = dict(
        fs=fs,
        url="image",
        byte_ranges=[(0, 4), (4, 8)],
        shape=(2, 2),
        dtype="uint16",
        type_code="IU2",
        records_per_chunk=1,
    )
    # values the constructor cannot digest are set afterwards
    late = {}
    ranges = overrides.get("byte_ranges")
    if ranges is not None and any(r is None for r in ranges):
        late["byte_ranges"] = overrides.pop("byte_ranges")
    parameters.update(overrides)
    arr = Array(**parameters)
    for name, value in late.items():
        setattr(arr, name, value)
    return arr


array_parameters = {
    "default": {},
    "protocol": {"protocol": "file"},
    "path": {"path": "/path/to/other"},
    "path2": {"path": "/"},
    "url": {"url": "file2"},
    "url-empty": {"url": ""},
    "ranges-value": {"byte_ranges": [(5, 10), (15, 21), (25, 30), (35, 40)]},
    "ranges-first-last": {"byte_ranges": [(0, 10), (15, 20), (25, 30), (35, 41)]},
    "ranges-all": {"byte_ranges": [(1, 2), (3, 4), (5, 6), (7, 8)]},
    "ranges-shorter": {"byte_ranges": [(5, 10), (15, 20)]},
    "ranges-longer": {"byte_ranges": [(x * 10 + 5, (x + 1) * 10) for x in range(7)]},
    "ranges-empty": {"byte_ranges": []},
    "ranges-lists": {"byte_ranges": [[5, 10], [15, 20], [25, 30], [35, 40]]},
    "shape": {"shape": (4, 5)},
    "shape-rows": {"shape": (3, 3), "byte_ranges": [(5, 10), (15, 20), (25, 30)]},
    "dtype": {"dtype": "complex64"},
    "dtype-np": {"dtype": np.dtype("int16")},
    "dtype-np-other": {"dtype": np.dtype(">u2")},
    "type_code": {"type_code": "C*8"},
    "rpc": {"records_per_chunk": 3},
    "rpc-none": {"records_per_chunk": None},
    "rpc-large": {"records_per_chunk": 100},
    "rpc-str": {"records_per_chunk": "25 B"},
    "everything": {
        "protocol": "file",
        "path": "/elsewhere",
        "url": "other",
        "byte_ranges": [(0, 1)],
        "shape": (1, 9),
        "dtype": "float32",
        "type_code": "C*8",
        "records_per_chunk": 1,
    },
    "protocol+path": {"protocol": "file", "path": "/elsewhere"},
    "url+dtype+rpc": {"url": "u", "dtype": "uint8", "records_per_chunk": 4},
}


def numpy_arrays():
    arrays = {}
    for size in [0, 1, 2, 3, 5, 7, 8, 9, 10, 100]:
        arrays[f"int32-{size}"] = np.arange(size, dtype="int32")
    arrays["int8"] = np.array([0, 1], dtype="int8")
    arrays["uint16-be"] = np.arange(12, dtype=">u2")
    arrays["float16"] = np.array([0.5, 1.5, np.nan, np.inf, -np.inf, -0.0], dtype="float16")
    arrays["float64"] = np.linspace(0, 1, 11)
    arrays["float32-2d"] = np.arange(6, dtype="float32").reshape(2, 3)
    arrays["int64-2d-large"] = np.arange(12).reshape(3, 4)
    arrays["int64-3d"] = np.arange(24).reshape(2, 3, 4)
    arrays["int64-0d"] = np.array(5)
    arrays["int64-empty-2d"] = np.empty((0, 3), dtype="int64")
    arrays["complex64"] = np.array([1.5 + 1.5j, -2j, 0], dtype="complex64")
    arrays["complex128-large"] = np.arange(9) * (1 + 1j)
    arrays["bool"] = np.array([True, False, True])
    arrays["bool-large"] = np.arange(9) % 2 == 0
    arrays["str"] = np.array(["abc", "d", ""])
    arrays["str-large"] = np.array(list("abcdefghij"))
    arrays["bytes"] = np.array([b"abc", b"d"])
    arrays["datetime-ms"] = np.array(
        ["2011-04-27T00:00:00.000", "2011-04-27T00:00:01.500", "NaT"], dtype="datetime64[ms]"
    )
    arrays["datetime-ns-large"] = np.datetime64("2020-01-01", "ns") + np.arange(
        10
    ) * np.timedelta64(1, "h")
    arrays["datetime-D"] = np.array(["2020-01-01", "2020-02-01"], dtype="datetime64[D]")
    arrays["timedelta-s"] = np.array([201, 0, -5], dtype="timedelta64[s]")
    arrays["timedelta-ms-large"] = np.arange(8).astype("timedelta64[ms]")
    arrays["timedelta-nat"] = np.array(["NaT", 1], dtype="timedelta64[us]")
    arrays["object"] = np.array([1, "a", None], dtype=object)
    arrays["object-empty"] = np.array([], dtype=object)
    arrays["structured"] = np.array([(1.0, 2.0), (3.0, 4.0)], dtype=[("real", ">f4"), ("imag", ">f4")])
    arrays["masked"] = np.ma.masked_array([1, 2, 3], mask=[False, True, False])
    arrays["noncontiguous"] = np.arange(20)[::2]
    arrays["transposed"] = np.arange(12).reshape(3, 4).T
    arrays["readonly"] = np.broadcast_to(np.int16(3), (3, 3))
    return arrays


other_objects = {
    "list-int": [1, 2, 3],
    "list-nested": [[1, 2], [3, 4]],
    "list-large": list(range(20)),
    "list-empty": [],
    "list-ragged": [[1], [2, 3]],
    "list-mixed": [1, 2.5, 3],
    "tuple-str": ("a", "b"),
    "int": 5,
    "float": 2.5,
    "str": "text",
    "None": None,
    "np-scalar": np.float32(1.5),
    "range": range(9),
    "dict": {"a": 1},
}


def observe_format():
    observed = []
    for name, arr in numpy_arrays().items():
        observed.append(f"format_array[{name}] -> {call(testing.format_array, arr)}")
    for name, obj in other_objects.items():
        observed.append(f"format_array[{name}] -> {call(testing.format_array, obj)}")
    for name, parameters in array_parameters.items():
        observed.append(f"format_array[Array {name}] -> {call(testing.format_array, make_array(**parameters))}")

    fakes = {
        "plain": {},
        "tuple protocol": {"protocol": ("a", "b")},
        "None protocol": {"protocol": None},
        "sep": {"sep": "\\"},
        "empty sep": {"sep": ""},
        "empty path": {"path": ""},
        "path not str": {"path": 5},
        "url not str": {"url": 7},
        "sep not str": {"sep": None},
        "shape list": {"shape": [2, 2]},
        "dtype object": {"dtype": np.dtype("O")},
    }
    for name, overrides in fakes.items():
        observed.append(f"format_array[fake {name}] -> {call(testing.format_array, fake_array(**overrides))}")
    broken = fake_array()
    broken.fs = None
    observed.append(f"format_array[fs None] -> {call(testing.format_array, broken)}")
    broken = fake_array()
    del broken.fs.sep
    observed.append(f"format_array[no sep] -> {call(testing.format_array, broken)}")
    broken = fake_array()
    del broken.fs.fs
    observed.append(f"format_array[no inner fs] -> {call(testing.format_array, broken)}")
    broken = fake_array()
    del broken.fs.path
    observed.append(f"format_array[no path] -> {call(testing.format_array, broken)}")
    observed.append(f"format_array keyword -> {call(testing.format_array, arr=np.arange(3))}")

    # callers
    variables = {
        "x": Variable("x", np.array([0, 1], dtype="int8"), {}),
        "xy": Variable(["x", "y"], np.arange(12, dtype="int32").reshape(3, 4), {"a": 1, "b": "b"}),
        "array": Variable(["rows", "columns"], make_array(), {"units": "m"}),
        "time": Variable("t", numpy_arrays()["datetime-ns-large"], {}),
        "empty": Variable("x", np.array([], dtype="float32"), {}),
        "nodims": Variable([], np.array(1.5), {}),
    }
    for name, var in variables.items():
        observed.append(f"format_variable[{name}] -> {call(testing.format_variable, var)}")
        observed.append(f"format_inline[{name}] -> {call(testing.format_inline, var)}")

    # `format_item` is looked up when formatting, not when importing
    original = testing.format_item
    testing.format_item = lambda x: f"<{original(x)}>"
    try:
        observed.append(f"patched format_item small -> {call(testing.format_array, np.arange(3))}")
        observed.append(f"patched format_item large -> {call(testing.format_array, np.arange(30))}")
    finally:
        testing.format_item = original
    observed.append(f"restored format_item -> {call(testing.format_array, np.arange(30))}")
    return observed


def observe_diff():
    observed = []
    names = list(array_parameters)
    arrays = {name: make_array(**parameters) for name, parameters in array_parameters.items()}

    # every attribute against the default in both directions and all other pairs
    for left, right in itertools.product(names, names):
        if left != "default" and right != "default" and (names.index(left) + names.index(right)) % 3:
            continue
        a = arrays[left]
        b = arrays[right]
        observed.append(f"diff_array[{left}|{right}] -> {call(testing.diff_array, a, b)}")

    for left, right in [("default", "everything"), ("rpc", "rpc"), ("url", "dtype")]:
        a = arrays[left]
        b = arrays[right]
        observed.append(f"diff_data[{left}|{right}] -> {call(testing.diff_data, a, b, name='Data')}")
        observed.append(f"compare_data[{left}|{right}] -> {call(testing.compare_data, a, b)}")
        va = Variable(["rows", "columns"], a, {"a": 1})
        vb = Variable(["rows", "cols"], b, {"a": 2, "b": a})
        observed.append(f"diff_variable[{left}|{right}] -> {call(testing.diff_variable, va, vb)}")
        observed.append(f"assert_identical[{left}|{right}] -> {call(testing.assert_identical, a, b)}")
        observed.append(f"assert_identical[var {left}|{right}] -> {call(testing.assert_identical, va, vb)}")
        ga = Group("/", "url", {"v": va, "sub": Group("sub", None, {"w": va}, {})}, {"k": va})
        gb = Group("/", "url", {"v": vb, "sub": Group("sub", None, {"w": vb}, {})}, {"k": vb})
        observed.append(f"diff_tree[{left}|{right}] -> {call(testing.diff_tree, ga, gb)}")
        observed.append(f"assert_identical[group {left}|{right}] -> {call(testing.assert_identical, ga, gb)}")

    # fakes: attributes the real classes never have
    fake_pairs = {
        "equal": ({}, {}),
        "tuple protocol": ({"protocol": ("file", "local")}, {"protocol": "file"}),
        "path only": ({"path": "a"}, {"path": "b"}),
        "sep only": ({"sep": "/"}, {"sep": "\\"}),
        "ranges None": ({"byte_ranges": [None, (1, 2)]}, {"byte_ranges": [None, (1, 3), None]}),
        "ranges nan": (
            {"byte_ranges": [(float("nan"), 1)]},
            {"byte_ranges": [(float("nan"), 1)]},
        ),
        "ranges left empty": ({"byte_ranges": []}, {"byte_ranges": [(0, 1), (1, 2)]}),
        "ranges right empty": ({"byte_ranges": [(0, 1), (1, 2)]}, {"byte_ranges": []}),
        "ranges tuple vs list": ({"byte_ranges": [(0, 4), (4, 8)]}, {"byte_ranges": [[0, 4], [4, 8]]}),
        "ranges container": ({"byte_ranges": [(0, 4), (4, 8)]}, {"byte_ranges": ((0, 4), (4, 8))}),
        "ranges long": (
            {"byte_ranges": [(i, i + 1) for i in range(30)]},
            {"byte_ranges": [(i, i + 1 + (i % 7 == 0)) for i in range(25)]},
        ),
        "shape list": ({"shape": [2, 2]}, {"shape": (2, 2)}),
        "dtype str vs np": ({"dtype": "uint16"}, {"dtype": np.dtype("uint16")}),
        "dtype differs": ({"dtype": "uint16"}, {"dtype": np.dtype("int16")}),
        "type code None": ({"type_code": None}, {"type_code": "IU2"}),
        "url types": ({"url": "1"}, {"url": 1}),
        "rpc": ({"records_per_chunk": 1}, {"records_per_chunk": 2}),
    }
    for name, (left, right) in fake_pairs.items():
        a = fake_array(**left)
        b = fake_array(**right)
        observed.append(f"diff_array[fake {name}] -> {call(testing.diff_array, a, b)}")
        observed.append(f"diff_array[fake {name} swapped] -> {call(testing.diff_array, b, a)}")
    shared = fake_array()
    other = fake_array()
    other.fs = shared.fs
    observed.append(f"diff_array[fake shared fs] -> {call(testing.diff_array, shared, other)}")
    observed.append(f"diff_array[same object] -> {call(testing.diff_array, shared, shared)}")

    # not arrays / mixed
    numpy = numpy_arrays()
    mixed = [
        ("np|np", numpy["int8"], numpy["int32-10"]),
        ("np|np same", numpy["float64"], numpy["float64"]),
        ("np 2d|np", numpy["float32-2d"], numpy["datetime-ms"]),
        ("np|list", numpy["int8"], [1, 2]),
        ("list|np", [1, 2], numpy["int8"]),
        ("np|Array", numpy["int8"], arrays["default"]),
        ("Array|np", arrays["default"], numpy["int8"]),
        ("Array|None", arrays["default"], None),
        ("None|Array", None, arrays["default"]),
        ("None|None", None, None),
        ("object|np", numpy["object"], numpy["int8"]),
        ("np|object", numpy["int8"], numpy["object"]),
        ("Array|Variable", arrays["default"], Variable("x", numpy["int8"], {})),
        ("fake|Array", fake_array(), arrays["default"]),
        ("Array|fake", arrays["default"], fake_array()),
    ]
    for name, a, b in mixed:
        observed.append(f"diff_array[{name}] -> {call(testing.diff_array, a, b)}")
        observed.append(f"diff_data[{name}] -> {call(testing.diff_data, a, b, name='data')}")
        observed.append(f"assert_identical[{name}] -> {call(testing.assert_identical, a, b)}")

    incomplete = fake_array()
    del incomplete.type_code
    observed.append(f"diff_array[left incomplete] -> {call(testing.diff_array, incomplete, fake_array(url='x'))}")
    observed.append(f"diff_array[right incomplete] -> {call(testing.diff_array, fake_array(url='x'), incomplete)}")
    nofs = fake_array()
    nofs.fs = None
    observed.append(f"diff_array[left fs None] -> {call(testing.diff_array, nofs, fake_array())}")
    observed.append(f"diff_array[right fs None] -> {call(testing.diff_array, fake_array(), nofs)}")
    observed.append(f"diff_array[both fs None] -> {call(testing.diff_array, nofs, nofs)}")
    observed.append(f"diff_array keywords -> {call(testing.diff_array, a=arrays['default'], b=arrays['url'])}")

    # attributes of the mapping diff which contain arrays
    attrs_a = {"v": Variable("x", numpy["int32-10"], {}), "arr": arrays["default"], "n": 1}
    attrs_b = {"v": Variable("x", numpy["int32-9"], {}), "arr": arrays["url"], "m": 1}
    observed.append(f"diff_mapping -> {call(testing.diff_mapping, attrs_a, attrs_b, name='attributes')}")
    return observed


def observe():
    observed = observe_format() + observe_diff()
    cwd_marker = "memory"  # the reprs must not depend on the machine
    assert any(cwd_marker in line for line in observed)
    return observed


EXPECTED = ["format_array[int32-0] -> ok builtins.str:'int32  '",
 "format_array[int32-1] -> ok builtins.str:'int32  0'",
 "format_array[int32-2] -> ok builtins.str:'int32  0 1'",
 "format_array[int32-3] -> ok builtins.str:'int32  0 1 2'",
 "format_array[int32-5] -> ok builtins.str:'int32  0 1 2 3 4'",
 "format_array[int32-7] -> ok builtins.str:'int32  0 1 2 3 4 5 6'",
 "format_array[int32-8] -> ok builtins.str:'int32  0 1 2 ... 6 7'",
 "format_array[int32-9] -> ok builtins.str:'int32  0 1 2 ... 7 8'",
 "format_array[int32-10] -> ok builtins.str:'int32  0 1 2 ... 8 9'",
 "format_array[int32-100] -> ok builtins.str:'int32  0 1 2 ... 98 99'",
 "format_array[int8] -> ok builtins.str:'int8  0 1'",
 "format_array[uint16-be] -> ok builtins.str:'>u2  0 1 2 ... 10 11'",
 "format_array[float16] -> ok builtins.str:'float16  0.5 1.5 nan inf -inf -0.0'",
 "format_array[float64] -> ok builtins.str:'float64  0.0 0.1 0.2 ... 0.9 1.0'",
 "format_array[float32-2d] -> ok builtins.str:'float32  0.0 1.0 2.0 3.0 4.0 5.0'",
 "format_array[int64-2d-large] -> ok builtins.str:'int64  0 1 2 ... 10 11'",
 "format_array[int64-3d] -> ok builtins.str:'int64  0 1 2 ... 22 23'",
 "format_array[int64-0d] -> ok builtins.str:'int64  5'",
 "format_array[int64-empty-2d] -> ok builtins.str:'int64  '",
 "format_array[complex64] -> ok builtins.str:'complex64  (1.5+1.5j) (-0-2j) 0j'",
 "format_array[complex128-large] -> ok builtins.str:'complex128  0j (1+1j) (2+2j) ... (7+7j) (8+8j)'",
 "format_array[bool] -> ok builtins.str:'bool  True False True'",
 "format_array[bool-large] -> ok builtins.str:'bool  True False True ... False True'",
 'format_array[str] -> ok builtins.str:"<U3  \'abc\' \'d\' \'\'"',
 'format_array[str-large] -> ok builtins.str:"<U1  \'a\' \'b\' \'c\' ... \'i\' \'j\'"',
 'format_array[bytes] -> ok builtins.str:"|S3  b\'abc\' b\'d\'"',
 "format_array[datetime-ms] -> ok builtins.str:'datetime64[ms]  2011-04-27T00:00:00.000 "
 "2011-04-27T00:00:01.500 NaT'",
 "format_array[datetime-ns-large] -> ok builtins.str:'datetime64[ns]  2020-01-01T00:00:00.000000000 "
 '2020-01-01T01:00:00.000000000 2020-01-01T02:00:00.000000000 ... 2020-01-01T08:00:00.000000000 '
 "2020-01-01T09:00:00.000000000'",
 "format_array[datetime-D] -> ok builtins.str:'datetime64[D]  2020-01-01 2020-02-01'",
 "format_array[timedelta-s] -> ok builtins.str:'timedelta64[s]  201 seconds 0 seconds -5 seconds'",
 "format_array[timedelta-ms-large] -> ok builtins.str:'timedelta64[ms]  0 milliseconds 1 milliseconds 2 "
 "milliseconds ... 6 milliseconds 7 milliseconds'",
 "format_array[timedelta-nat] -> ok builtins.str:'timedelta64[us]  NaT 1 microseconds'",
 'format_array[object] -> raised builtins.AttributeError:AttributeError("\'int\' object has no attribute '
 '\'dtype\'") cause=builtins.NoneType:None context=NoneType suppress=False',
 "format_array[object-empty] -> ok builtins.str:'object  '",
 'format_array[structured] -> ok builtins.str:"[(\'real\', \'>f4\'), (\'imag\', \'>f4\')]  (1.0, 2.0) (3.0, '
 '4.0)"',
 "format_array[masked] -> ok builtins.str:'int64  1 0.0 3'",
 "format_array[noncontiguous] -> ok builtins.str:'int64  0 2 4 ... 16 18'",
 "format_array[transposed] -> ok builtins.str:'int64  0 4 8 ... 7 11'",
 "format_array[readonly] -> ok builtins.str:'int16  3 3 3 ... 3 3'",
 "format_array[list-int] -> ok builtins.str:'int64  1 2 3'",
 "format_array[list-nested] -> ok builtins.str:'int64  1 2 3 4'",
 "format_array[list-large] -> ok builtins.str:'int64  0 1 2 ... 18 19'",
 "format_array[list-empty] -> ok builtins.str:'float64  '",
 "format_array[list-ragged] -> raised builtins.ValueError:ValueError('setting an array element with a "
 'sequence. The requested array has an inhomogeneous shape after 1 dimensions. The detected shape was (2,) + '
 "inhomogeneous part.') cause=builtins.NoneType:None context=NoneType suppress=False",
 "format_array[list-mixed] -> ok builtins.str:'float64  1.0 2.5 3.0'",
 'format_array[tuple-str] -> ok builtins.str:"<U1  \'a\' \'b\'"',
 "format_array[int] -> ok builtins.str:'int64  5'",
 "format_array[float] -> ok builtins.str:'float64  2.5'",
 'format_array[str] -> ok builtins.str:"<U4  \'text\'"',
 'format_array[None] -> raised builtins.AttributeError:AttributeError("\'NoneType\' object has no attribute '
 '\'dtype\'") cause=builtins.NoneType:None context=NoneType suppress=False',
 "format_array[np-scalar] -> ok builtins.str:'float32  1.5'",
 "format_array[range] -> ok builtins.str:'int64  0 1 2 ... 7 8'",
 'format_array[dict] -> raised builtins.AttributeError:AttributeError("\'dict\' object has no attribute '
 '\'dtype\'") cause=builtins.NoneType:None context=NoneType suppress=False',
 "format_array[Array default] -> ok builtins.str:'Array(shape=(4, 3), dtype=int16, rpc=2)\\n    url: "
 "memory:///path/to/file'",
 'format_array[Array protocol] -> ok builtins.str:"Array(shape=(4, 3), dtype=int16, rpc=2)\\n    url: '
 '(\'file\', \'local\'):///path/to/file"',
 "format_array[Array path] -> ok builtins.str:'Array(shape=(4, 3), dtype=int16, rpc=2)\\n    url: "
 "memory:///path/to/other/file'",
 "format_array[Array path2] -> ok builtins.str:'Array(shape=(4, 3), dtype=int16, rpc=2)\\n    url: "
 "memory:///file'",
 "format_array[Array url] -> ok builtins.str:'Array(shape=(4, 3), dtype=int16, rpc=2)\\n    url: "
 "memory:///path/to/file2'",
 "format_array[Array url-empty] -> ok builtins.str:'Array(shape=(4, 3), dtype=int16, rpc=2)\\n    url: "
 "memory:///path/to/'",
 "format_array[Array ranges-value] -> ok builtins.str:'Array(shape=(4, 3), dtype=int16, rpc=2)\\n    url: "
 "memory:///path/to/file'",
 "format_array[Array ranges-first-last] -> ok builtins.str:'Array(shape=(4, 3), dtype=int16, rpc=2)\\n    "
 "url: memory:///path/to/file'",
 "format_array[Array ranges-all] -> ok builtins.str:'Array(shape=(4, 3), dtype=int16, rpc=2)\\n    url: "
 "memory:///path/to/file'",
 "format_array[Array ranges-shorter] -> ok builtins.str:'Array(shape=(4, 3), dtype=int16, rpc=2)\\n    url: "
 "memory:///path/to/file'",
 "format_array[Array ranges-longer] -> ok builtins.str:'Array(shape=(4, 3), dtype=int16, rpc=2)\\n    url: "
 "memory:///path/to/file'",
 "format_array[Array ranges-empty] -> ok builtins.str:'Array(shape=(4, 3), dtype=int16, rpc=2)\\n    url: "
 "memory:///path/to/file'",
 "format_array[Array ranges-lists] -> ok builtins.str:'Array(shape=(4, 3), dtype=int16, rpc=2)\\n    url: "
 "memory:///path/to/file'",
 "format_array[Array shape] -> ok builtins.str:'Array(shape=(4, 5), dtype=int16, rpc=2)\\n    url: "
 "memory:///path/to/file'",
 "format_array[Array shape-rows] -> ok builtins.str:'Array(shape=(3, 3), dtype=int16, rpc=2)\\n    url: "
 "memory:///path/to/file'",
 "format_array[Array dtype] -> ok builtins.str:'Array(shape=(4, 3), dtype=complex64, rpc=2)\\n    url: "
 "memory:///path/to/file'",
 "format_array[Array dtype-np] -> ok builtins.str:'Array(shape=(4, 3), dtype=int16, rpc=2)\\n    url: "
 "memory:///path/to/file'",
 "format_array[Array dtype-np-other] -> ok builtins.str:'Array(shape=(4, 3), dtype=>u2, rpc=2)\\n    url: "
 "memory:///path/to/file'",
 "format_array[Array type_code] -> ok builtins.str:'Array(shape=(4, 3), dtype=int16, rpc=2)\\n    url: "
 "memory:///path/to/file'",
 "format_array[Array rpc] -> ok builtins.str:'Array(shape=(4, 3), dtype=int16, rpc=3)\\n    url: "
 "memory:///path/to/file'",
 "format_array[Array rpc-none] -> ok builtins.str:'Array(shape=(4, 3), dtype=int16, rpc=1024)\\n    url: "
 "memory:///path/to/file'",
 "format_array[Array rpc-large] -> ok builtins.str:'Array(shape=(4, 3), dtype=int16, rpc=4)\\n    url: "
 "memory:///path/to/file'",
 "format_array[Array rpc-str] -> ok builtins.str:'Array(shape=(4, 3), dtype=int16, rpc=4)\\n    url: "
 "memory:///path/to/file'",
 'format_array[Array everything] -> ok builtins.str:"Array(shape=(1, 9), dtype=float32, rpc=1)\\n    url: '
 '(\'file\', \'local\'):///elsewhere/other"',
 'format_array[Array protocol+path] -> ok builtins.str:"Array(shape=(4, 3), dtype=int16, rpc=2)\\n    url: '
 '(\'file\', \'local\'):///elsewhere/file"',
 "format_array[Array url+dtype+rpc] -> ok builtins.str:'Array(shape=(4, 3), dtype=uint8, rpc=4)\\n    url: "
 "memory:///path/to/u'",
 "format_array[fake plain] -> ok builtins.str:'Array(shape=(2, 2), dtype=uint16, rpc=1)\\n    url: "
 "fake://root/image'",
 'format_array[fake tuple protocol] -> ok builtins.str:"Array(shape=(2, 2), dtype=uint16, rpc=1)\\n    url: '
 '(\'a\', \'b\')://root/image"',
 "format_array[fake None protocol] -> ok builtins.str:'Array(shape=(2, 2), dtype=uint16, rpc=1)\\n    url: "
 "None://root/image'",
 "format_array[fake sep] -> ok builtins.str:'Array(shape=(2, 2), dtype=uint16, rpc=1)\\n    url: "
 "fake://root\\\\image'",
 "format_array[fake empty sep] -> ok builtins.str:'Array(shape=(2, 2), dtype=uint16, rpc=1)\\n    url: "
 "fake://rootimage'",
 "format_array[fake empty path] -> ok builtins.str:'Array(shape=(2, 2), dtype=uint16, rpc=1)\\n    url: "
 "fake:///image'",
 "format_array[fake path not str] -> raised builtins.TypeError:TypeError('sequence item 0: expected str "
 "instance, int found') cause=builtins.NoneType:None context=NoneType suppress=False",
 "format_array[fake url not str] -> raised builtins.TypeError:TypeError('sequence item 1: expected str "
 "instance, int found') cause=builtins.NoneType:None context=NoneType suppress=False",
 'format_array[fake sep not str] -> raised builtins.AttributeError:AttributeError("\'NoneType\' object has '
 'no attribute \'join\'") cause=builtins.NoneType:None context=NoneType suppress=False',
 "format_array[fake shape list] -> ok builtins.str:'Array(shape=[2, 2], dtype=uint16, rpc=1)\\n    url: "
 "fake://root/image'",
 "format_array[fake dtype object] -> ok builtins.str:'Array(shape=(2, 2), dtype=object, rpc=1)\\n    url: "
 "fake://root/image'",
 'format_array[fs None] -> raised builtins.AttributeError:AttributeError("\'NoneType\' object has no '
 'attribute \'fs\'") cause=builtins.NoneType:None context=NoneType suppress=False',
 'format_array[no sep] -> raised builtins.AttributeError:AttributeError("\'types.SimpleNamespace\' object '
 'has no attribute \'sep\'") cause=builtins.NoneType:None context=NoneType suppress=False',
 'format_array[no inner fs] -> raised builtins.AttributeError:AttributeError("\'types.SimpleNamespace\' '
 'object has no attribute \'fs\'") cause=builtins.NoneType:None context=NoneType suppress=False',
 'format_array[no path] -> raised builtins.AttributeError:AttributeError("\'types.SimpleNamespace\' object '
 'has no attribute \'path\'") cause=builtins.NoneType:None context=NoneType suppress=False',
 "format_array keyword -> ok builtins.str:'int64  0 1 2'",
 "format_variable[x] -> ok builtins.str:'(x)    int8  0 1'",
 "format_inline[x] -> ok builtins.str:'(x)    int8  0 1'",
 "format_variable[xy] -> ok builtins.str:'(x, y)    int32  0 1 2 ... 10 11\\n    a: 1\\n    b: b'",
 "format_inline[xy] -> ok builtins.str:'(x, y)    int32  0 1 2 ... 10 11\\n    a: 1\\n    b: b'",
 "format_variable[array] -> ok builtins.str:'(rows, columns)    Array(shape=(4, 3), dtype=int16, "
 "rpc=2)\\n    url: memory:///path/to/file\\n    units: m'",
 "format_inline[array] -> ok builtins.str:'(rows, columns)    Array(shape=(4, 3), dtype=int16, rpc=2)\\n    "
 "url: memory:///path/to/file\\n    units: m'",
 "format_variable[time] -> ok builtins.str:'(t)    datetime64[ns]  2020-01-01T00:00:00.000000000 "
 '2020-01-01T01:00:00.000000000 2020-01-01T02:00:00.000000000 ... 2020-01-01T08:00:00.000000000 '
 "2020-01-01T09:00:00.000000000'",
 "format_inline[time] -> ok builtins.str:'(t)    datetime64[ns]  2020-01-01T00:00:00.000000000 "
 '2020-01-01T01:00:00.000000000 2020-01-01T02:00:00.000000000 ... 2020-01-01T08:00:00.000000000 '
 "2020-01-01T09:00:00.000000000'",
 "format_variable[empty] -> ok builtins.str:'(x)    float32  '",
 "format_inline[empty] -> ok builtins.str:'(x)    float32  '",
 "format_variable[nodims] -> ok builtins.str:'()    float64  1.5'",
 "format_inline[nodims] -> ok builtins.str:'()    float64  1.5'",
 "patched format_item small -> ok builtins.str:'int64  <0> <1> <2>'",
 "patched format_item large -> ok builtins.str:'int64  <0> <1> <2> ... <28> <29>'",
 "restored format_item -> ok builtins.str:'int64  0 1 2 ... 28 29'",
 "diff_array[default|default] -> ok builtins.str:''",
 'diff_array[default|protocol] -> ok builtins.str:"Differing filesystem:\\n  L protocol  memory\\n  R '
 'protocol  (\'file\', \'local\')"',
 "diff_array[default|path] -> ok builtins.str:'Differing filesystem:\\n  L path  /path/to\\n  R path  "
 "/path/to/other'",
 "diff_array[default|path2] -> ok builtins.str:'Differing filesystem:\\n  L path  /path/to\\n  R path  '",
 "diff_array[default|url] -> ok builtins.str:'Differing urls:\\n  L url  file\\n  R url  file2'",
 "diff_array[default|url-empty] -> ok builtins.str:'Differing urls:\\n  L url  file\\n  R url  '",
 "diff_array[default|ranges-value] -> ok builtins.str:'Differing byte ranges:\\n  L line 2  (15, 20)\\n  R "
 "line 2  (15, 21)'",
 "diff_array[default|ranges-first-last] -> ok builtins.str:'Differing byte ranges:\\n  L line 1  (5, 10)\\n  "
 "R line 1  (0, 10)\\n  L line 4  (35, 40)\\n  R line 4  (35, 41)'",
 "diff_array[default|ranges-all] -> ok builtins.str:'Differing byte ranges:\\n  L line 1  (5, 10)\\n  R line "
 '1  (1, 2)\\n  L line 2  (15, 20)\\n  R line 2  (3, 4)\\n  L line 3  (25, 30)\\n  R line 3  (5, 6)\\n  L '
 "line 4  (35, 40)\\n  R line 4  (7, 8)'",
 "diff_array[default|ranges-shorter] -> ok builtins.str:'Differing byte ranges:\\n  L line 3  (25, 30)\\n  R "
 "line 3  None\\n  L line 4  (35, 40)\\n  R line 4  None'",
 "diff_array[default|ranges-longer] -> ok builtins.str:'Differing byte ranges:\\n  L line 5  None\\n  R line "
 "5  (45, 50)\\n  L line 6  None\\n  R line 6  (55, 60)\\n  L line 7  None\\n  R line 7  (65, 70)'",
 "diff_array[default|ranges-empty] -> ok builtins.str:'Differing byte ranges:\\n  L line 1  (5, 10)\\n  R "
 'line 1  None\\n  L line 2  (15, 20)\\n  R line 2  None\\n  L line 3  (25, 30)\\n  R line 3  None\\n  L '
 "line 4  (35, 40)\\n  R line 4  None'",
 "diff_array[default|ranges-lists] -> ok builtins.str:'Differing byte ranges:\\n  L line 1  (5, 10)\\n  R "
 'line 1  [5, 10]\\n  L line 2  (15, 20)\\n  R line 2  [15, 20]\\n  L line 3  (25, 30)\\n  R line 3  [25, '
 "30]\\n  L line 4  (35, 40)\\n  R line 4  [35, 40]'",
 "diff_array[default|shape] -> ok builtins.str:'Differing shapes:\\n  (4, 3) != (4, 5)'",
 "diff_array[default|shape-rows] -> ok builtins.str:'Differing byte ranges:\\n  L line 4  (35, 40)\\n  R "
 "line 4  None\\nDiffering shapes:\\n  (4, 3) != (3, 3)'",
 "diff_array[default|dtype] -> ok builtins.str:'Differing dtypes:\\n  int16 != complex64'",
 "diff_array[default|dtype-np] -> ok builtins.str:''",
 "diff_array[default|dtype-np-other] -> ok builtins.str:'Differing dtypes:\\n  int16 != >u2'",
 "diff_array[default|type_code] -> ok builtins.str:'Differing type code:\\n  L type_code  IU2\\n  R "
 "type_code  C*8'",
 "diff_array[default|rpc] -> ok builtins.str:'Differing chunksizes:\\n  L records_per_chunk  2\\n  R "
 "records_per_chunk  3'",
 "diff_array[default|rpc-none] -> ok builtins.str:'Differing chunksizes:\\n  L records_per_chunk  2\\n  R "
 "records_per_chunk  1024'",
 "diff_array[default|rpc-large] -> ok builtins.str:'Differing chunksizes:\\n  L records_per_chunk  2\\n  R "
 "records_per_chunk  4'",
 "diff_array[default|rpc-str] -> ok builtins.str:'Differing chunksizes:\\n  L records_per_chunk  2\\n  R "
 "records_per_chunk  4'",
 'diff_array[default|everything] -> ok builtins.str:"Differing filesystem:\\n  L protocol  memory\\n  R '
 "protocol  ('file', 'local')\\n  L path  /path/to\\n  R path  /elsewhere\\nDiffering urls:\\n  L url  "
 'file\\n  R url  other\\nDiffering byte ranges:\\n  L line 1  (5, 10)\\n  R line 1  (0, 1)\\n  L line 2  '
 '(15, 20)\\n  R line 2  None\\n  L line 3  (25, 30)\\n  R line 3  None\\n  L line 4  (35, 40)\\n  R line 4  '
 'None\\nDiffering shapes:\\n  (4, 3) != (1, 9)\\nDiffering dtypes:\\n  int16 != float32\\nDiffering type '
 'code:\\n  L type_code  IU2\\n  R type_code  C*8\\nDiffering chunksizes:\\n  L records_per_chunk  2\\n  R '
 'records_per_chunk  1"',
 'diff_array[default|protocol+path] -> ok builtins.str:"Differing filesystem:\\n  L protocol  memory\\n  R '
 'protocol  (\'file\', \'local\')\\n  L path  /path/to\\n  R path  /elsewhere"',
 "diff_array[default|url+dtype+rpc] -> ok builtins.str:'Differing urls:\\n  L url  file\\n  R url  "
 'u\\nDiffering dtypes:\\n  int16 != uint8\\nDiffering chunksizes:\\n  L records_per_chunk  2\\n  R '
 "records_per_chunk  4'",
 'diff_array[protocol|default] -> ok builtins.str:"Differing filesystem:\\n  L protocol  (\'file\', '
 '\'local\')\\n  R protocol  memory"',
 'diff_array[protocol|path] -> ok builtins.str:"Differing filesystem:\\n  L protocol  (\'file\', '
 '\'local\')\\n  R protocol  memory\\n  L path  /path/to\\n  R path  /path/to/other"',
 'diff_array[protocol|url-empty] -> ok builtins.str:"Differing filesystem:\\n  L protocol  (\'file\', '
 '\'local\')\\n  R protocol  memory\\nDiffering urls:\\n  L url  file\\n  R url  "',
 'diff_array[protocol|ranges-all] -> ok builtins.str:"Differing filesystem:\\n  L protocol  (\'file\', '
 "'local')\\n  R protocol  memory\\nDiffering byte ranges:\\n  L line 1  (5, 10)\\n  R line 1  (1, 2)\\n  L "
 'line 2  (15, 20)\\n  R line 2  (3, 4)\\n  L line 3  (25, 30)\\n  R line 3  (5, 6)\\n  L line 4  (35, '
 '40)\\n  R line 4  (7, 8)"',
 'diff_array[protocol|ranges-empty] -> ok builtins.str:"Differing filesystem:\\n  L protocol  (\'file\', '
 "'local')\\n  R protocol  memory\\nDiffering byte ranges:\\n  L line 1  (5, 10)\\n  R line 1  None\\n  L "
 'line 2  (15, 20)\\n  R line 2  None\\n  L line 3  (25, 30)\\n  R line 3  None\\n  L line 4  (35, 40)\\n  R '
 'line 4  None"',
 'diff_array[protocol|shape-rows] -> ok builtins.str:"Differing filesystem:\\n  L protocol  (\'file\', '
 "'local')\\n  R protocol  memory\\nDiffering byte ranges:\\n  L line 4  (35, 40)\\n  R line 4  "
 'None\\nDiffering shapes:\\n  (4, 3) != (3, 3)"',
 'diff_array[protocol|dtype-np-other] -> ok builtins.str:"Differing filesystem:\\n  L protocol  (\'file\', '
 '\'local\')\\n  R protocol  memory\\nDiffering dtypes:\\n  int16 != >u2"',
 'diff_array[protocol|rpc-none] -> ok builtins.str:"Differing filesystem:\\n  L protocol  (\'file\', '
 "'local')\\n  R protocol  memory\\nDiffering chunksizes:\\n  L records_per_chunk  2\\n  R "
 'records_per_chunk  1024"',
 "diff_array[protocol|everything] -> ok builtins.str:'Differing filesystem:\\n  L path  /path/to\\n  R path  "
 '/elsewhere\\nDiffering urls:\\n  L url  file\\n  R url  other\\nDiffering byte ranges:\\n  L line 1  (5, '
 '10)\\n  R line 1  (0, 1)\\n  L line 2  (15, 20)\\n  R line 2  None\\n  L line 3  (25, 30)\\n  R line 3  '
 'None\\n  L line 4  (35, 40)\\n  R line 4  None\\nDiffering shapes:\\n  (4, 3) != (1, 9)\\nDiffering '
 'dtypes:\\n  int16 != float32\\nDiffering type code:\\n  L type_code  IU2\\n  R type_code  C*8\\nDiffering '
 "chunksizes:\\n  L records_per_chunk  2\\n  R records_per_chunk  1'",
 "diff_array[path|default] -> ok builtins.str:'Differing filesystem:\\n  L path  /path/to/other\\n  R path  "
 "/path/to'",
 'diff_array[path|protocol] -> ok builtins.str:"Differing filesystem:\\n  L protocol  memory\\n  R protocol  '
 '(\'file\', \'local\')\\n  L path  /path/to/other\\n  R path  /path/to"',
 "diff_array[path|url] -> ok builtins.str:'Differing filesystem:\\n  L path  /path/to/other\\n  R path  "
 "/path/to\\nDiffering urls:\\n  L url  file\\n  R url  file2'",
 "diff_array[path|ranges-first-last] -> ok builtins.str:'Differing filesystem:\\n  L path  "
 '/path/to/other\\n  R path  /path/to\\nDiffering byte ranges:\\n  L line 1  (5, 10)\\n  R line 1  (0, '
 "10)\\n  L line 4  (35, 40)\\n  R line 4  (35, 41)'",
 "diff_array[path|ranges-longer] -> ok builtins.str:'Differing filesystem:\\n  L path  /path/to/other\\n  R "
 'path  /path/to\\nDiffering byte ranges:\\n  L line 5  None\\n  R line 5  (45, 50)\\n  L line 6  None\\n  R '
 "line 6  (55, 60)\\n  L line 7  None\\n  R line 7  (65, 70)'",
 "diff_array[path|shape] -> ok builtins.str:'Differing filesystem:\\n  L path  /path/to/other\\n  R path  "
 "/path/to\\nDiffering shapes:\\n  (4, 3) != (4, 5)'",
 "diff_array[path|dtype-np] -> ok builtins.str:'Differing filesystem:\\n  L path  /path/to/other\\n  R path  "
 "/path/to'",
 "diff_array[path|rpc] -> ok builtins.str:'Differing filesystem:\\n  L path  /path/to/other\\n  R path  "
 "/path/to\\nDiffering chunksizes:\\n  L records_per_chunk  2\\n  R records_per_chunk  3'",
 "diff_array[path|rpc-str] -> ok builtins.str:'Differing filesystem:\\n  L path  /path/to/other\\n  R path  "
 "/path/to\\nDiffering chunksizes:\\n  L records_per_chunk  2\\n  R records_per_chunk  4'",
 "diff_array[path|url+dtype+rpc] -> ok builtins.str:'Differing filesystem:\\n  L path  /path/to/other\\n  R "
 'path  /path/to\\nDiffering urls:\\n  L url  file\\n  R url  u\\nDiffering dtypes:\\n  int16 != '
 "uint8\\nDiffering chunksizes:\\n  L records_per_chunk  2\\n  R records_per_chunk  4'",
 "diff_array[path2|default] -> ok builtins.str:'Differing filesystem:\\n  L path  \\n  R path  /path/to'",
 "diff_array[path2|path2] -> ok builtins.str:''",
 "diff_array[path2|ranges-value] -> ok builtins.str:'Differing filesystem:\\n  L path  \\n  R path  "
 "/path/to\\nDiffering byte ranges:\\n  L line 2  (15, 20)\\n  R line 2  (15, 21)'",
 "diff_array[path2|ranges-shorter] -> ok builtins.str:'Differing filesystem:\\n  L path  \\n  R path  "
 '/path/to\\nDiffering byte ranges:\\n  L line 3  (25, 30)\\n  R line 3  None\\n  L line 4  (35, 40)\\n  R '
 "line 4  None'",
 "diff_array[path2|ranges-lists] -> ok builtins.str:'Differing filesystem:\\n  L path  \\n  R path  "
 '/path/to\\nDiffering byte ranges:\\n  L line 1  (5, 10)\\n  R line 1  [5, 10]\\n  L line 2  (15, 20)\\n  R '
 'line 2  [15, 20]\\n  L line 3  (25, 30)\\n  R line 3  [25, 30]\\n  L line 4  (35, 40)\\n  R line 4  [35, '
 "40]'",
 "diff_array[path2|dtype] -> ok builtins.str:'Differing filesystem:\\n  L path  \\n  R path  "
 "/path/to\\nDiffering dtypes:\\n  int16 != complex64'",
 "diff_array[path2|type_code] -> ok builtins.str:'Differing filesystem:\\n  L path  \\n  R path  "
 "/path/to\\nDiffering type code:\\n  L type_code  IU2\\n  R type_code  C*8'",
 "diff_array[path2|rpc-large] -> ok builtins.str:'Differing filesystem:\\n  L path  \\n  R path  "
 "/path/to\\nDiffering chunksizes:\\n  L records_per_chunk  2\\n  R records_per_chunk  4'",
 'diff_array[path2|protocol+path] -> ok builtins.str:"Differing filesystem:\\n  L protocol  memory\\n  R '
 'protocol  (\'file\', \'local\')\\n  L path  \\n  R path  /elsewhere"',
 "diff_array[url|default] -> ok builtins.str:'Differing urls:\\n  L url  file2\\n  R url  file'",
 "diff_array[url|path] -> ok builtins.str:'Differing filesystem:\\n  L path  /path/to\\n  R path  "
 "/path/to/other\\nDiffering urls:\\n  L url  file2\\n  R url  file'",
 "diff_array[url|url-empty] -> ok builtins.str:'Differing urls:\\n  L url  file2\\n  R url  '",
 "diff_array[url|ranges-all] -> ok builtins.str:'Differing urls:\\n  L url  file2\\n  R url  "
 'file\\nDiffering byte ranges:\\n  L line 1  (5, 10)\\n  R line 1  (1, 2)\\n  L line 2  (15, 20)\\n  R line '
 "2  (3, 4)\\n  L line 3  (25, 30)\\n  R line 3  (5, 6)\\n  L line 4  (35, 40)\\n  R line 4  (7, 8)'",
 "diff_array[url|ranges-empty] -> ok builtins.str:'Differing urls:\\n  L url  file2\\n  R url  "
 'file\\nDiffering byte ranges:\\n  L line 1  (5, 10)\\n  R line 1  None\\n  L line 2  (15, 20)\\n  R line '
 "2  None\\n  L line 3  (25, 30)\\n  R line 3  None\\n  L line 4  (35, 40)\\n  R line 4  None'",
 "diff_array[url|shape-rows] -> ok builtins.str:'Differing urls:\\n  L url  file2\\n  R url  "
 'file\\nDiffering byte ranges:\\n  L line 4  (35, 40)\\n  R line 4  None\\nDiffering shapes:\\n  (4, 3) != '
 "(3, 3)'",
 "diff_array[url|dtype-np-other] -> ok builtins.str:'Differing urls:\\n  L url  file2\\n  R url  "
 "file\\nDiffering dtypes:\\n  int16 != >u2'",
 "diff_array[url|rpc-none] -> ok builtins.str:'Differing urls:\\n  L url  file2\\n  R url  file\\nDiffering "
 "chunksizes:\\n  L records_per_chunk  2\\n  R records_per_chunk  1024'",
 'diff_array[url|everything] -> ok builtins.str:"Differing filesystem:\\n  L protocol  memory\\n  R '
 "protocol  ('file', 'local')\\n  L path  /path/to\\n  R path  /elsewhere\\nDiffering urls:\\n  L url  "
 'file2\\n  R url  other\\nDiffering byte ranges:\\n  L line 1  (5, 10)\\n  R line 1  (0, 1)\\n  L line 2  '
 '(15, 20)\\n  R line 2  None\\n  L line 3  (25, 30)\\n  R line 3  None\\n  L line 4  (35, 40)\\n  R line 4  '
 'None\\nDiffering shapes:\\n  (4, 3) != (1, 9)\\nDiffering dtypes:\\n  int16 != float32\\nDiffering type '
 'code:\\n  L type_code  IU2\\n  R type_code  C*8\\nDiffering chunksizes:\\n  L records_per_chunk  2\\n  R '
 'records_per_chunk  1"',
 "diff_array[url-empty|default] -> ok builtins.str:'Differing urls:\\n  L url  \\n  R url  file'",
 'diff_array[url-empty|protocol] -> ok builtins.str:"Differing filesystem:\\n  L protocol  memory\\n  R '
 'protocol  (\'file\', \'local\')\\nDiffering urls:\\n  L url  \\n  R url  file"',
 "diff_array[url-empty|url] -> ok builtins.str:'Differing urls:\\n  L url  \\n  R url  file2'",
 "diff_array[url-empty|ranges-first-last] -> ok builtins.str:'Differing urls:\\n  L url  \\n  R url  "
 'file\\nDiffering byte ranges:\\n  L line 1  (5, 10)\\n  R line 1  (0, 10)\\n  L line 4  (35, 40)\\n  R '
 "line 4  (35, 41)'",
 "diff_array[url-empty|ranges-longer] -> ok builtins.str:'Differing urls:\\n  L url  \\n  R url  "
 'file\\nDiffering byte ranges:\\n  L line 5  None\\n  R line 5  (45, 50)\\n  L line 6  None\\n  R line 6  '
 "(55, 60)\\n  L line 7  None\\n  R line 7  (65, 70)'",
 "diff_array[url-empty|shape] -> ok builtins.str:'Differing urls:\\n  L url  \\n  R url  file\\nDiffering "
 "shapes:\\n  (4, 3) != (4, 5)'",
 "diff_array[url-empty|dtype-np] -> ok builtins.str:'Differing urls:\\n  L url  \\n  R url  file'",
 "diff_array[url-empty|rpc] -> ok builtins.str:'Differing urls:\\n  L url  \\n  R url  file\\nDiffering "
 "chunksizes:\\n  L records_per_chunk  2\\n  R records_per_chunk  3'",
 "diff_array[url-empty|rpc-str] -> ok builtins.str:'Differing urls:\\n  L url  \\n  R url  file\\nDiffering "
 "chunksizes:\\n  L records_per_chunk  2\\n  R records_per_chunk  4'",
 "diff_array[url-empty|url+dtype+rpc] -> ok builtins.str:'Differing urls:\\n  L url  \\n  R url  "
 'u\\nDiffering dtypes:\\n  int16 != uint8\\nDiffering chunksizes:\\n  L records_per_chunk  2\\n  R '
 "records_per_chunk  4'",
 "diff_array[ranges-value|default] -> ok builtins.str:'Differing byte ranges:\\n  L line 2  (15, 21)\\n  R "
 "line 2  (15, 20)'",
 "diff_array[ranges-value|path2] -> ok builtins.str:'Differing filesystem:\\n  L path  /path/to\\n  R path  "
 "\\nDiffering byte ranges:\\n  L line 2  (15, 21)\\n  R line 2  (15, 20)'",
 "diff_array[ranges-value|ranges-value] -> ok builtins.str:''",
 "diff_array[ranges-value|ranges-shorter] -> ok builtins.str:'Differing byte ranges:\\n  L line 2  (15, "
 '21)\\n  R line 2  (15, 20)\\n  L line 3  (25, 30)\\n  R line 3  None\\n  L line 4  (35, 40)\\n  R line 4  '
 "None'",
 "diff_array[ranges-value|ranges-lists] -> ok builtins.str:'Differing byte ranges:\\n  L line 1  (5, 10)\\n  "
 'R line 1  [5, 10]\\n  L line 2  (15, 21)\\n  R line 2  [15, 20]\\n  L line 3  (25, 30)\\n  R line 3  [25, '
 "30]\\n  L line 4  (35, 40)\\n  R line 4  [35, 40]'",
 "diff_array[ranges-value|dtype] -> ok builtins.str:'Differing byte ranges:\\n  L line 2  (15, 21)\\n  R "
 "line 2  (15, 20)\\nDiffering dtypes:\\n  int16 != complex64'",
 "diff_array[ranges-value|type_code] -> ok builtins.str:'Differing byte ranges:\\n  L line 2  (15, 21)\\n  R "
 "line 2  (15, 20)\\nDiffering type code:\\n  L type_code  IU2\\n  R type_code  C*8'",
 "diff_array[ranges-value|rpc-large] -> ok builtins.str:'Differing byte ranges:\\n  L line 2  (15, 21)\\n  R "
 "line 2  (15, 20)\\nDiffering chunksizes:\\n  L records_per_chunk  2\\n  R records_per_chunk  4'",
 'diff_array[ranges-value|protocol+path] -> ok builtins.str:"Differing filesystem:\\n  L protocol  '
 "memory\\n  R protocol  ('file', 'local')\\n  L path  /path/to\\n  R path  /elsewhere\\nDiffering byte "
 'ranges:\\n  L line 2  (15, 21)\\n  R line 2  (15, 20)"',
 "diff_array[ranges-first-last|default] -> ok builtins.str:'Differing byte ranges:\\n  L line 1  (0, 10)\\n  "
 "R line 1  (5, 10)\\n  L line 4  (35, 41)\\n  R line 4  (35, 40)'",
 "diff_array[ranges-first-last|path] -> ok builtins.str:'Differing filesystem:\\n  L path  /path/to\\n  R "
 'path  /path/to/other\\nDiffering byte ranges:\\n  L line 1  (0, 10)\\n  R line 1  (5, 10)\\n  L line 4  '
 "(35, 41)\\n  R line 4  (35, 40)'",
 "diff_array[ranges-first-last|url-empty] -> ok builtins.str:'Differing urls:\\n  L url  file\\n  R url  "
 '\\nDiffering byte ranges:\\n  L line 1  (0, 10)\\n  R line 1  (5, 10)\\n  L line 4  (35, 41)\\n  R line 4  '
 "(35, 40)'",
 "diff_array[ranges-first-last|ranges-all] -> ok builtins.str:'Differing byte ranges:\\n  L line 1  (0, "
 '10)\\n  R line 1  (1, 2)\\n  L line 2  (15, 20)\\n  R line 2  (3, 4)\\n  L line 3  (25, 30)\\n  R line 3  '
 "(5, 6)\\n  L line 4  (35, 41)\\n  R line 4  (7, 8)'",
 "diff_array[ranges-first-last|ranges-empty] -> ok builtins.str:'Differing byte ranges:\\n  L line 1  (0, "
 '10)\\n  R line 1  None\\n  L line 2  (15, 20)\\n  R line 2  None\\n  L line 3  (25, 30)\\n  R line 3  '
 "None\\n  L line 4  (35, 41)\\n  R line 4  None'",
 "diff_array[ranges-first-last|shape-rows] -> ok builtins.str:'Differing byte ranges:\\n  L line 1  (0, "
 '10)\\n  R line 1  (5, 10)\\n  L line 4  (35, 41)\\n  R line 4  None\\nDiffering shapes:\\n  (4, 3) != (3, '
 "3)'",
 "diff_array[ranges-first-last|dtype-np-other] -> ok builtins.str:'Differing byte ranges:\\n  L line 1  (0, "
 '10)\\n  R line 1  (5, 10)\\n  L line 4  (35, 41)\\n  R line 4  (35, 40)\\nDiffering dtypes:\\n  int16 != '
 ">u2'",
 "diff_array[ranges-first-last|rpc-none] -> ok builtins.str:'Differing byte ranges:\\n  L line 1  (0, "
 '10)\\n  R line 1  (5, 10)\\n  L line 4  (35, 41)\\n  R line 4  (35, 40)\\nDiffering chunksizes:\\n  L '
 "records_per_chunk  2\\n  R records_per_chunk  1024'",
 'diff_array[ranges-first-last|everything] -> ok builtins.str:"Differing filesystem:\\n  L protocol  '
 "memory\\n  R protocol  ('file', 'local')\\n  L path  /path/to\\n  R path  /elsewhere\\nDiffering urls:\\n  "
 'L url  file\\n  R url  other\\nDiffering byte ranges:\\n  L line 1  (0, 10)\\n  R line 1  (0, 1)\\n  L '
 'line 2  (15, 20)\\n  R line 2  None\\n  L line 3  (25, 30)\\n  R line 3  None\\n  L line 4  (35, 41)\\n  R '
 'line 4  None\\nDiffering shapes:\\n  (4, 3) != (1, 9)\\nDiffering dtypes:\\n  int16 != float32\\nDiffering '
 'type code:\\n  L type_code  IU2\\n  R type_code  C*8\\nDiffering chunksizes:\\n  L records_per_chunk  '
 '2\\n  R records_per_chunk  1"',
 "diff_array[ranges-all|default] -> ok builtins.str:'Differing byte ranges:\\n  L line 1  (1, 2)\\n  R line "
 '1  (5, 10)\\n  L line 2  (3, 4)\\n  R line 2  (15, 20)\\n  L line 3  (5, 6)\\n  R line 3  (25, 30)\\n  L '
 "line 4  (7, 8)\\n  R line 4  (35, 40)'",
 'diff_array[ranges-all|protocol] -> ok builtins.str:"Differing filesystem:\\n  L protocol  memory\\n  R '
 "protocol  ('file', 'local')\\nDiffering byte ranges:\\n  L line 1  (1, 2)\\n  R line 1  (5, 10)\\n  L line "
 '2  (3, 4)\\n  R line 2  (15, 20)\\n  L line 3  (5, 6)\\n  R line 3  (25, 30)\\n  L line 4  (7, 8)\\n  R '
 'line 4  (35, 40)"',
 "diff_array[ranges-all|url] -> ok builtins.str:'Differing urls:\\n  L url  file\\n  R url  "
 'file2\\nDiffering byte ranges:\\n  L line 1  (1, 2)\\n  R line 1  (5, 10)\\n  L line 2  (3, 4)\\n  R line '
 "2  (15, 20)\\n  L line 3  (5, 6)\\n  R line 3  (25, 30)\\n  L line 4  (7, 8)\\n  R line 4  (35, 40)'",
 "diff_array[ranges-all|ranges-first-last] -> ok builtins.str:'Differing byte ranges:\\n  L line 1  (1, "
 '2)\\n  R line 1  (0, 10)\\n  L line 2  (3, 4)\\n  R line 2  (15, 20)\\n  L line 3  (5, 6)\\n  R line 3  '
 "(25, 30)\\n  L line 4  (7, 8)\\n  R line 4  (35, 41)'",
 "diff_array[ranges-all|ranges-longer] -> ok builtins.str:'Differing byte ranges:\\n  L line 1  (1, 2)\\n  R "
 'line 1  (5, 10)\\n  L line 2  (3, 4)\\n  R line 2  (15, 20)\\n  L line 3  (5, 6)\\n  R line 3  (25, '
 '30)\\n  L line 4  (7, 8)\\n  R line 4  (35, 40)\\n  L line 5  None\\n  R line 5  (45, 50)\\n  L line 6  '
 "None\\n  R line 6  (55, 60)\\n  L line 7  None\\n  R line 7  (65, 70)'",
 "diff_array[ranges-all|shape] -> ok builtins.str:'Differing byte ranges:\\n  L line 1  (1, 2)\\n  R line 1  "
 '(5, 10)\\n  L line 2  (3, 4)\\n  R line 2  (15, 20)\\n  L line 3  (5, 6)\\n  R line 3  (25, 30)\\n  L line '
 "4  (7, 8)\\n  R line 4  (35, 40)\\nDiffering shapes:\\n  (4, 3) != (4, 5)'",
 "diff_array[ranges-all|dtype-np] -> ok builtins.str:'Differing byte ranges:\\n  L line 1  (1, 2)\\n  R line "
 '1  (5, 10)\\n  L line 2  (3, 4)\\n  R line 2  (15, 20)\\n  L line 3  (5, 6)\\n  R line 3  (25, 30)\\n  L '
 "line 4  (7, 8)\\n  R line 4  (35, 40)'",
 "diff_array[ranges-all|rpc] -> ok builtins.str:'Differing byte ranges:\\n  L line 1  (1, 2)\\n  R line 1  "
 '(5, 10)\\n  L line 2  (3, 4)\\n  R line 2  (15, 20)\\n  L line 3  (5, 6)\\n  R line 3  (25, 30)\\n  L line '
 '4  (7, 8)\\n  R line 4  (35, 40)\\nDiffering chunksizes:\\n  L records_per_chunk  2\\n  R '
 "records_per_chunk  3'",
 "diff_array[ranges-all|rpc-str] -> ok builtins.str:'Differing byte ranges:\\n  L line 1  (1, 2)\\n  R line "
 '1  (5, 10)\\n  L line 2  (3, 4)\\n  R line 2  (15, 20)\\n  L line 3  (5, 6)\\n  R line 3  (25, 30)\\n  L '
 'line 4  (7, 8)\\n  R line 4  (35, 40)\\nDiffering chunksizes:\\n  L records_per_chunk  2\\n  R '
 "records_per_chunk  4'",
 "diff_array[ranges-all|url+dtype+rpc] -> ok builtins.str:'Differing urls:\\n  L url  file\\n  R url  "
 'u\\nDiffering byte ranges:\\n  L line 1  (1, 2)\\n  R line 1  (5, 10)\\n  L line 2  (3, 4)\\n  R line 2  '
 '(15, 20)\\n  L line 3  (5, 6)\\n  R line 3  (25, 30)\\n  L line 4  (7, 8)\\n  R line 4  (35, '
 '40)\\nDiffering dtypes:\\n  int16 != uint8\\nDiffering chunksizes:\\n  L records_per_chunk  2\\n  R '
 "records_per_chunk  4'",
 "diff_array[ranges-shorter|default] -> ok builtins.str:'Differing byte ranges:\\n  L line 3  None\\n  R "
 "line 3  (25, 30)\\n  L line 4  None\\n  R line 4  (35, 40)'",
 "diff_array[ranges-shorter|path2] -> ok builtins.str:'Differing filesystem:\\n  L path  /path/to\\n  R "
 'path  \\nDiffering byte ranges:\\n  L line 3  None\\n  R line 3  (25, 30)\\n  L line 4  None\\n  R line 4  '
 "(35, 40)'",
 "diff_array[ranges-shorter|ranges-value] -> ok builtins.str:'Differing byte ranges:\\n  L line 2  (15, "
 '20)\\n  R line 2  (15, 21)\\n  L line 3  None\\n  R line 3  (25, 30)\\n  L line 4  None\\n  R line 4  (35, '
 "40)'",
 "diff_array[ranges-shorter|ranges-shorter] -> ok builtins.str:''",
 "diff_array[ranges-shorter|ranges-lists] -> ok builtins.str:'Differing byte ranges:\\n  L line 1  (5, "
 '10)\\n  R line 1  [5, 10]\\n  L line 2  (15, 20)\\n  R line 2  [15, 20]\\n  L line 3  None\\n  R line 3  '
 "[25, 30]\\n  L line 4  None\\n  R line 4  [35, 40]'",
 "diff_array[ranges-shorter|dtype] -> ok builtins.str:'Differing byte ranges:\\n  L line 3  None\\n  R line "
 "3  (25, 30)\\n  L line 4  None\\n  R line 4  (35, 40)\\nDiffering dtypes:\\n  int16 != complex64'",
 "diff_array[ranges-shorter|type_code] -> ok builtins.str:'Differing byte ranges:\\n  L line 3  None\\n  R "
 'line 3  (25, 30)\\n  L line 4  None\\n  R line 4  (35, 40)\\nDiffering type code:\\n  L type_code  IU2\\n  '
 "R type_code  C*8'",
 "diff_array[ranges-shorter|rpc-large] -> ok builtins.str:'Differing byte ranges:\\n  L line 3  None\\n  R "
 'line 3  (25, 30)\\n  L line 4  None\\n  R line 4  (35, 40)\\nDiffering chunksizes:\\n  L '
 "records_per_chunk  2\\n  R records_per_chunk  4'",
 'diff_array[ranges-shorter|protocol+path] -> ok builtins.str:"Differing filesystem:\\n  L protocol  '
 "memory\\n  R protocol  ('file', 'local')\\n  L path  /path/to\\n  R path  /elsewhere\\nDiffering byte "
 'ranges:\\n  L line 3  None\\n  R line 3  (25, 30)\\n  L line 4  None\\n  R line 4  (35, 40)"',
 "diff_array[ranges-longer|default] -> ok builtins.str:'Differing byte ranges:\\n  L line 5  (45, 50)\\n  R "
 "line 5  None\\n  L line 6  (55, 60)\\n  R line 6  None\\n  L line 7  (65, 70)\\n  R line 7  None'",
 "diff_array[ranges-longer|path] -> ok builtins.str:'Differing filesystem:\\n  L path  /path/to\\n  R path  "
 '/path/to/other\\nDiffering byte ranges:\\n  L line 5  (45, 50)\\n  R line 5  None\\n  L line 6  (55, '
 "60)\\n  R line 6  None\\n  L line 7  (65, 70)\\n  R line 7  None'",
 "diff_array[ranges-longer|url-empty] -> ok builtins.str:'Differing urls:\\n  L url  file\\n  R url  "
 '\\nDiffering byte ranges:\\n  L line 5  (45, 50)\\n  R line 5  None\\n  L line 6  (55, 60)\\n  R line 6  '
 "None\\n  L line 7  (65, 70)\\n  R line 7  None'",
 "diff_array[ranges-longer|ranges-all] -> ok builtins.str:'Differing byte ranges:\\n  L line 1  (5, 10)\\n  "
 'R line 1  (1, 2)\\n  L line 2  (15, 20)\\n  R line 2  (3, 4)\\n  L line 3  (25, 30)\\n  R line 3  (5, '
 '6)\\n  L line 4  (35, 40)\\n  R line 4  (7, 8)\\n  L line 5  (45, 50)\\n  R line 5  None\\n  L line 6  '
 "(55, 60)\\n  R line 6  None\\n  L line 7  (65, 70)\\n  R line 7  None'",
 "diff_array[ranges-longer|ranges-empty] -> ok builtins.str:'Differing byte ranges:\\n  L line 1  (5, "
 '10)\\n  R line 1  None\\n  L line 2  (15, 20)\\n  R line 2  None\\n  L line 3  (25, 30)\\n  R line 3  '
 'None\\n  L line 4  (35, 40)\\n  R line 4  None\\n  L line 5  (45, 50)\\n  R line 5  None\\n  L line 6  '
 "(55, 60)\\n  R line 6  None\\n  L line 7  (65, 70)\\n  R line 7  None'",
 "diff_array[ranges-longer|shape-rows] -> ok builtins.str:'Differing byte ranges:\\n  L line 4  (35, 40)\\n  "
 'R line 4  None\\n  L line 5  (45, 50)\\n  R line 5  None\\n  L line 6  (55, 60)\\n  R line 6  None\\n  L '
 "line 7  (65, 70)\\n  R line 7  None\\nDiffering shapes:\\n  (4, 3) != (3, 3)'",
 "diff_array[ranges-longer|dtype-np-other] -> ok builtins.str:'Differing byte ranges:\\n  L line 5  (45, "
 '50)\\n  R line 5  None\\n  L line 6  (55, 60)\\n  R line 6  None\\n  L line 7  (65, 70)\\n  R line 7  '
 "None\\nDiffering dtypes:\\n  int16 != >u2'",
 "diff_array[ranges-longer|rpc-none] -> ok builtins.str:'Differing byte ranges:\\n  L line 5  (45, 50)\\n  R "
 'line 5  None\\n  L line 6  (55, 60)\\n  R line 6  None\\n  L line 7  (65, 70)\\n  R line 7  '
 "None\\nDiffering chunksizes:\\n  L records_per_chunk  2\\n  R records_per_chunk  1024'",
 'diff_array[ranges-longer|everything] -> ok builtins.str:"Differing filesystem:\\n  L protocol  memory\\n  '
 "R protocol  ('file', 'local')\\n  L path  /path/to\\n  R path  /elsewhere\\nDiffering urls:\\n  L url  "
 'file\\n  R url  other\\nDiffering byte ranges:\\n  L line 1  (5, 10)\\n  R line 1  (0, 1)\\n  L line 2  '
 '(15, 20)\\n  R line 2  None\\n  L line 3  (25, 30)\\n  R line 3  None\\n  L line 4  (35, 40)\\n  R line 4  '
 'None\\n  L line 5  (45, 50)\\n  R line 5  None\\n  L line 6  (55, 60)\\n  R line 6  None\\n  L line 7  '
 '(65, 70)\\n  R line 7  None\\nDiffering shapes:\\n  (4, 3) != (1, 9)\\nDiffering dtypes:\\n  int16 != '
 'float32\\nDiffering type code:\\n  L type_code  IU2\\n  R type_code  C*8\\nDiffering chunksizes:\\n  L '
 'records_per_chunk  2\\n  R records_per_chunk  1"',
 "diff_array[ranges-empty|default] -> ok builtins.str:'Differing byte ranges:\\n  L line 1  None\\n  R line "
 '1  (5, 10)\\n  L line 2  None\\n  R line 2  (15, 20)\\n  L line 3  None\\n  R line 3  (25, 30)\\n  L line '
 "4  None\\n  R line 4  (35, 40)'",
 'diff_array[ranges-empty|protocol] -> ok builtins.str:"Differing filesystem:\\n  L protocol  memory\\n  R '
 "protocol  ('file', 'local')\\nDiffering byte ranges:\\n  L line 1  None\\n  R line 1  (5, 10)\\n  L line "
 '2  None\\n  R line 2  (15, 20)\\n  L line 3  None\\n  R line 3  (25, 30)\\n  L line 4  None\\n  R line 4  '
 '(35, 40)"',
 "diff_array[ranges-empty|url] -> ok builtins.str:'Differing urls:\\n  L url  file\\n  R url  "
 'file2\\nDiffering byte ranges:\\n  L line 1  None\\n  R line 1  (5, 10)\\n  L line 2  None\\n  R line 2  '
 "(15, 20)\\n  L line 3  None\\n  R line 3  (25, 30)\\n  L line 4  None\\n  R line 4  (35, 40)'",
 "diff_array[ranges-empty|ranges-first-last] -> ok builtins.str:'Differing byte ranges:\\n  L line 1  "
 'None\\n  R line 1  (0, 10)\\n  L line 2  None\\n  R line 2  (15, 20)\\n  L line 3  None\\n  R line 3  (25, '
 "30)\\n  L line 4  None\\n  R line 4  (35, 41)'",
 "diff_array[ranges-empty|ranges-longer] -> ok builtins.str:'Differing byte ranges:\\n  L line 1  None\\n  R "
 'line 1  (5, 10)\\n  L line 2  None\\n  R line 2  (15, 20)\\n  L line 3  None\\n  R line 3  (25, 30)\\n  L '
 'line 4  None\\n  R line 4  (35, 40)\\n  L line 5  None\\n  R line 5  (45, 50)\\n  L line 6  None\\n  R '
 "line 6  (55, 60)\\n  L line 7  None\\n  R line 7  (65, 70)'",
 "diff_array[ranges-empty|shape] -> ok builtins.str:'Differing byte ranges:\\n  L line 1  None\\n  R line 1  "
 '(5, 10)\\n  L line 2  None\\n  R line 2  (15, 20)\\n  L line 3  None\\n  R line 3  (25, 30)\\n  L line 4  '
 "None\\n  R line 4  (35, 40)\\nDiffering shapes:\\n  (4, 3) != (4, 5)'",
 "diff_array[ranges-empty|dtype-np] -> ok builtins.str:'Differing byte ranges:\\n  L line 1  None\\n  R line "
 '1  (5, 10)\\n  L line 2  None\\n  R line 2  (15, 20)\\n  L line 3  None\\n  R line 3  (25, 30)\\n  L line '
 "4  None\\n  R line 4  (35, 40)'",
 "diff_array[ranges-empty|rpc] -> ok builtins.str:'Differing byte ranges:\\n  L line 1  None\\n  R line 1  "
 '(5, 10)\\n  L line 2  None\\n  R line 2  (15, 20)\\n  L line 3  None\\n  R line 3  (25, 30)\\n  L line 4  '
 "None\\n  R line 4  (35, 40)\\nDiffering chunksizes:\\n  L records_per_chunk  2\\n  R records_per_chunk  3'",
 "diff_array[ranges-empty|rpc-str] -> ok builtins.str:'Differing byte ranges:\\n  L line 1  None\\n  R line "
 '1  (5, 10)\\n  L line 2  None\\n  R line 2  (15, 20)\\n  L line 3  None\\n  R line 3  (25, 30)\\n  L line '
 '4  None\\n  R line 4  (35, 40)\\nDiffering chunksizes:\\n  L records_per_chunk  2\\n  R records_per_chunk  '
 "4'",
 "diff_array[ranges-empty|url+dtype+rpc] -> ok builtins.str:'Differing urls:\\n  L url  file\\n  R url  "
 'u\\nDiffering byte ranges:\\n  L line 1  None\\n  R line 1  (5, 10)\\n  L line 2  None\\n  R line 2  (15, '
 '20)\\n  L line 3  None\\n  R line 3  (25, 30)\\n  L line 4  None\\n  R line 4  (35, 40)\\nDiffering '
 "dtypes:\\n  int16 != uint8\\nDiffering chunksizes:\\n  L records_per_chunk  2\\n  R records_per_chunk  4'",
 "diff_array[ranges-lists|default] -> ok builtins.str:'Differing byte ranges:\\n  L line 1  [5, 10]\\n  R "
 'line 1  (5, 10)\\n  L line 2  [15, 20]\\n  R line 2  (15, 20)\\n  L line 3  [25, 30]\\n  R line 3  (25, '
 "30)\\n  L line 4  [35, 40]\\n  R line 4  (35, 40)'",
 "diff_array[ranges-lists|path2] -> ok builtins.str:'Differing filesystem:\\n  L path  /path/to\\n  R path  "
 '\\nDiffering byte ranges:\\n  L line 1  [5, 10]\\n  R line 1  (5, 10)\\n  L line 2  [15, 20]\\n  R line 2  '
 "(15, 20)\\n  L line 3  [25, 30]\\n  R line 3  (25, 30)\\n  L line 4  [35, 40]\\n  R line 4  (35, 40)'",
 "diff_array[ranges-lists|ranges-value] -> ok builtins.str:'Differing byte ranges:\\n  L line 1  [5, 10]\\n  "
 'R line 1  (5, 10)\\n  L line 2  [15, 20]\\n  R line 2  (15, 21)\\n  L line 3  [25, 30]\\n  R line 3  (25, '
 "30)\\n  L line 4  [35, 40]\\n  R line 4  (35, 40)'",
 "diff_array[ranges-lists|ranges-shorter] -> ok builtins.str:'Differing byte ranges:\\n  L line 1  [5, "
 '10]\\n  R line 1  (5, 10)\\n  L line 2  [15, 20]\\n  R line 2  (15, 20)\\n  L line 3  [25, 30]\\n  R line '
 "3  None\\n  L line 4  [35, 40]\\n  R line 4  None'",
 "diff_array[ranges-lists|ranges-lists] -> ok builtins.str:''",
 "diff_array[ranges-lists|dtype] -> ok builtins.str:'Differing byte ranges:\\n  L line 1  [5, 10]\\n  R line "
 '1  (5, 10)\\n  L line 2  [15, 20]\\n  R line 2  (15, 20)\\n  L line 3  [25, 30]\\n  R line 3  (25, 30)\\n  '
 "L line 4  [35, 40]\\n  R line 4  (35, 40)\\nDiffering dtypes:\\n  int16 != complex64'",
 "diff_array[ranges-lists|type_code] -> ok builtins.str:'Differing byte ranges:\\n  L line 1  [5, 10]\\n  R "
 'line 1  (5, 10)\\n  L line 2  [15, 20]\\n  R line 2  (15, 20)\\n  L line 3  [25, 30]\\n  R line 3  (25, '
 '30)\\n  L line 4  [35, 40]\\n  R line 4  (35, 40)\\nDiffering type code:\\n  L type_code  IU2\\n  R '
 "type_code  C*8'",
 "diff_array[ranges-lists|rpc-large] -> ok builtins.str:'Differing byte ranges:\\n  L line 1  [5, 10]\\n  R "
 'line 1  (5, 10)\\n  L line 2  [15, 20]\\n  R line 2  (15, 20)\\n  L line 3  [25, 30]\\n  R line 3  (25, '
 '30)\\n  L line 4  [35, 40]\\n  R line 4  (35, 40)\\nDiffering chunksizes:\\n  L records_per_chunk  2\\n  R '
 "records_per_chunk  4'",
 'diff_array[ranges-lists|protocol+path] -> ok builtins.str:"Differing filesystem:\\n  L protocol  '
 "memory\\n  R protocol  ('file', 'local')\\n  L path  /path/to\\n  R path  /elsewhere\\nDiffering byte "
 'ranges:\\n  L line 1  [5, 10]\\n  R line 1  (5, 10)\\n  L line 2  [15, 20]\\n  R line 2  (15, 20)\\n  L '
 'line 3  [25, 30]\\n  R line 3  (25, 30)\\n  L line 4  [35, 40]\\n  R line 4  (35, 40)"',
 "diff_array[shape|default] -> ok builtins.str:'Differing shapes:\\n  (4, 5) != (4, 3)'",
 "diff_array[shape|path] -> ok builtins.str:'Differing filesystem:\\n  L path  /path/to\\n  R path  "
 "/path/to/other\\nDiffering shapes:\\n  (4, 5) != (4, 3)'",
 "diff_array[shape|url-empty] -> ok builtins.str:'Differing urls:\\n  L url  file\\n  R url  \\nDiffering "
 "shapes:\\n  (4, 5) != (4, 3)'",
 "diff_array[shape|ranges-all] -> ok builtins.str:'Differing byte ranges:\\n  L line 1  (5, 10)\\n  R line "
 '1  (1, 2)\\n  L line 2  (15, 20)\\n  R line 2  (3, 4)\\n  L line 3  (25, 30)\\n  R line 3  (5, 6)\\n  L '
 "line 4  (35, 40)\\n  R line 4  (7, 8)\\nDiffering shapes:\\n  (4, 5) != (4, 3)'",
 "diff_array[shape|ranges-empty] -> ok builtins.str:'Differing byte ranges:\\n  L line 1  (5, 10)\\n  R line "
 '1  None\\n  L line 2  (15, 20)\\n  R line 2  None\\n  L line 3  (25, 30)\\n  R line 3  None\\n  L line 4  '
 "(35, 40)\\n  R line 4  None\\nDiffering shapes:\\n  (4, 5) != (4, 3)'",
 "diff_array[shape|shape-rows] -> ok builtins.str:'Differing byte ranges:\\n  L line 4  (35, 40)\\n  R line "
 "4  None\\nDiffering shapes:\\n  (4, 5) != (3, 3)'",
 "diff_array[shape|dtype-np-other] -> ok builtins.str:'Differing shapes:\\n  (4, 5) != (4, 3)\\nDiffering "
 "dtypes:\\n  int16 != >u2'",
 "diff_array[shape|rpc-none] -> ok builtins.str:'Differing shapes:\\n  (4, 5) != (4, 3)\\nDiffering "
 "chunksizes:\\n  L records_per_chunk  2\\n  R records_per_chunk  1024'",
 'diff_array[shape|everything] -> ok builtins.str:"Differing filesystem:\\n  L protocol  memory\\n  R '
 "protocol  ('file', 'local')\\n  L path  /path/to\\n  R path  /elsewhere\\nDiffering urls:\\n  L url  "
 'file\\n  R url  other\\nDiffering byte ranges:\\n  L line 1  (5, 10)\\n  R line 1  (0, 1)\\n  L line 2  '
 '(15, 20)\\n  R line 2  None\\n  L line 3  (25, 30)\\n  R line 3  None\\n  L line 4  (35, 40)\\n  R line 4  '
 'None\\nDiffering shapes:\\n  (4, 5) != (1, 9)\\nDiffering dtypes:\\n  int16 != float32\\nDiffering type '
 'code:\\n  L type_code  IU2\\n  R type_code  C*8\\nDiffering chunksizes:\\n  L records_per_chunk  2\\n  R '
 'records_per_chunk  1"',
 "diff_array[shape-rows|default] -> ok builtins.str:'Differing byte ranges:\\n  L line 4  None\\n  R line 4  "
 "(35, 40)\\nDiffering shapes:\\n  (3, 3) != (4, 3)'",
 'diff_array[shape-rows|protocol] -> ok builtins.str:"Differing filesystem:\\n  L protocol  memory\\n  R '
 "protocol  ('file', 'local')\\nDiffering byte ranges:\\n  L line 4  None\\n  R line 4  (35, 40)\\nDiffering "
 'shapes:\\n  (3, 3) != (4, 3)"',
 "diff_array[shape-rows|url] -> ok builtins.str:'Differing urls:\\n  L url  file\\n  R url  "
 'file2\\nDiffering byte ranges:\\n  L line 4  None\\n  R line 4  (35, 40)\\nDiffering shapes:\\n  (3, 3) != '
 "(4, 3)'",
 "diff_array[shape-rows|ranges-first-last] -> ok builtins.str:'Differing byte ranges:\\n  L line 1  (5, "
 '10)\\n  R line 1  (0, 10)\\n  L line 4  None\\n  R line 4  (35, 41)\\nDiffering shapes:\\n  (3, 3) != (4, '
 "3)'",
 "diff_array[shape-rows|ranges-longer] -> ok builtins.str:'Differing byte ranges:\\n  L line 4  None\\n  R "
 'line 4  (35, 40)\\n  L line 5  None\\n  R line 5  (45, 50)\\n  L line 6  None\\n  R line 6  (55, 60)\\n  L '
 "line 7  None\\n  R line 7  (65, 70)\\nDiffering shapes:\\n  (3, 3) != (4, 3)'",
 "diff_array[shape-rows|shape] -> ok builtins.str:'Differing byte ranges:\\n  L line 4  None\\n  R line 4  "
 "(35, 40)\\nDiffering shapes:\\n  (3, 3) != (4, 5)'",
 "diff_array[shape-rows|dtype-np] -> ok builtins.str:'Differing byte ranges:\\n  L line 4  None\\n  R line "
 "4  (35, 40)\\nDiffering shapes:\\n  (3, 3) != (4, 3)'",
 "diff_array[shape-rows|rpc] -> ok builtins.str:'Differing byte ranges:\\n  L line 4  None\\n  R line 4  "
 '(35, 40)\\nDiffering shapes:\\n  (3, 3) != (4, 3)\\nDiffering chunksizes:\\n  L records_per_chunk  2\\n  R '
 "records_per_chunk  3'",
 "diff_array[shape-rows|rpc-str] -> ok builtins.str:'Differing byte ranges:\\n  L line 4  None\\n  R line 4  "
 '(35, 40)\\nDiffering shapes:\\n  (3, 3) != (4, 3)\\nDiffering chunksizes:\\n  L records_per_chunk  2\\n  R '
 "records_per_chunk  4'",
 "diff_array[shape-rows|url+dtype+rpc] -> ok builtins.str:'Differing urls:\\n  L url  file\\n  R url  "
 'u\\nDiffering byte ranges:\\n  L line 4  None\\n  R line 4  (35, 40)\\nDiffering shapes:\\n  (3, 3) != (4, '
 '3)\\nDiffering dtypes:\\n  int16 != uint8\\nDiffering chunksizes:\\n  L records_per_chunk  2\\n  R '
 "records_per_chunk  4'",
 "diff_array[dtype|default] -> ok builtins.str:'Differing dtypes:\\n  complex64 != int16'",
 "diff_array[dtype|path2] -> ok builtins.str:'Differing filesystem:\\n  L path  /path/to\\n  R path  "
 "\\nDiffering dtypes:\\n  complex64 != int16'",
 "diff_array[dtype|ranges-value] -> ok builtins.str:'Differing byte ranges:\\n  L line 2  (15, 20)\\n  R "
 "line 2  (15, 21)\\nDiffering dtypes:\\n  complex64 != int16'",
 "diff_array[dtype|ranges-shorter] -> ok builtins.str:'Differing byte ranges:\\n  L line 3  (25, 30)\\n  R "
 "line 3  None\\n  L line 4  (35, 40)\\n  R line 4  None\\nDiffering dtypes:\\n  complex64 != int16'",
 "diff_array[dtype|ranges-lists] -> ok builtins.str:'Differing byte ranges:\\n  L line 1  (5, 10)\\n  R line "
 '1  [5, 10]\\n  L line 2  (15, 20)\\n  R line 2  [15, 20]\\n  L line 3  (25, 30)\\n  R line 3  [25, 30]\\n  '
 "L line 4  (35, 40)\\n  R line 4  [35, 40]\\nDiffering dtypes:\\n  complex64 != int16'",
 "diff_array[dtype|dtype] -> ok builtins.str:''",
 "diff_array[dtype|type_code] -> ok builtins.str:'Differing dtypes:\\n  complex64 != int16\\nDiffering type "
 "code:\\n  L type_code  IU2\\n  R type_code  C*8'",
 "diff_array[dtype|rpc-large] -> ok builtins.str:'Differing dtypes:\\n  complex64 != int16\\nDiffering "
 "chunksizes:\\n  L records_per_chunk  2\\n  R records_per_chunk  4'",
 'diff_array[dtype|protocol+path] -> ok builtins.str:"Differing filesystem:\\n  L protocol  memory\\n  R '
 "protocol  ('file', 'local')\\n  L path  /path/to\\n  R path  /elsewhere\\nDiffering dtypes:\\n  complex64 "
 '!= int16"',
 "diff_array[dtype-np|default] -> ok builtins.str:''",
 "diff_array[dtype-np|path] -> ok builtins.str:'Differing filesystem:\\n  L path  /path/to\\n  R path  "
 "/path/to/other'",
 "diff_array[dtype-np|url-empty] -> ok builtins.str:'Differing urls:\\n  L url  file\\n  R url  '",
 "diff_array[dtype-np|ranges-all] -> ok builtins.str:'Differing byte ranges:\\n  L line 1  (5, 10)\\n  R "
 'line 1  (1, 2)\\n  L line 2  (15, 20)\\n  R line 2  (3, 4)\\n  L line 3  (25, 30)\\n  R line 3  (5, 6)\\n  '
 "L line 4  (35, 40)\\n  R line 4  (7, 8)'",
 "diff_array[dtype-np|ranges-empty] -> ok builtins.str:'Differing byte ranges:\\n  L line 1  (5, 10)\\n  R "
 'line 1  None\\n  L line 2  (15, 20)\\n  R line 2  None\\n  L line 3  (25, 30)\\n  R line 3  None\\n  L '
 "line 4  (35, 40)\\n  R line 4  None'",
 "diff_array[dtype-np|shape-rows] -> ok builtins.str:'Differing byte ranges:\\n  L line 4  (35, 40)\\n  R "
 "line 4  None\\nDiffering shapes:\\n  (4, 3) != (3, 3)'",
 "diff_array[dtype-np|dtype-np-other] -> ok builtins.str:'Differing dtypes:\\n  int16 != >u2'",
 "diff_array[dtype-np|rpc-none] -> ok builtins.str:'Differing chunksizes:\\n  L records_per_chunk  2\\n  R "
 "records_per_chunk  1024'",
 'diff_array[dtype-np|everything] -> ok builtins.str:"Differing filesystem:\\n  L protocol  memory\\n  R '
 "protocol  ('file', 'local')\\n  L path  /path/to\\n  R path  /elsewhere\\nDiffering urls:\\n  L url  "
 'file\\n  R url  other\\nDiffering byte ranges:\\n  L line 1  (5, 10)\\n  R line 1  (0, 1)\\n  L line 2  '
 '(15, 20)\\n  R line 2  None\\n  L line 3  (25, 30)\\n  R line 3  None\\n  L line 4  (35, 40)\\n  R line 4  '
 'None\\nDiffering shapes:\\n  (4, 3) != (1, 9)\\nDiffering dtypes:\\n  int16 != float32\\nDiffering type '
 'code:\\n  L type_code  IU2\\n  R type_code  C*8\\nDiffering chunksizes:\\n  L records_per_chunk  2\\n  R '
 'records_per_chunk  1"',
 "diff_array[dtype-np-other|default] -> ok builtins.str:'Differing dtypes:\\n  >u2 != int16'",
 'diff_array[dtype-np-other|protocol] -> ok builtins.str:"Differing filesystem:\\n  L protocol  memory\\n  R '
 'protocol  (\'file\', \'local\')\\nDiffering dtypes:\\n  >u2 != int16"',
 "diff_array[dtype-np-other|url] -> ok builtins.str:'Differing urls:\\n  L url  file\\n  R url  "
 "file2\\nDiffering dtypes:\\n  >u2 != int16'",
 "diff_array[dtype-np-other|ranges-first-last] -> ok builtins.str:'Differing byte ranges:\\n  L line 1  (5, "
 '10)\\n  R line 1  (0, 10)\\n  L line 4  (35, 40)\\n  R line 4  (35, 41)\\nDiffering dtypes:\\n  >u2 != '
 "int16'",
 "diff_array[dtype-np-other|ranges-longer] -> ok builtins.str:'Differing byte ranges:\\n  L line 5  None\\n  "
 'R line 5  (45, 50)\\n  L line 6  None\\n  R line 6  (55, 60)\\n  L line 7  None\\n  R line 7  (65, '
 "70)\\nDiffering dtypes:\\n  >u2 != int16'",
 "diff_array[dtype-np-other|shape] -> ok builtins.str:'Differing shapes:\\n  (4, 3) != (4, 5)\\nDiffering "
 "dtypes:\\n  >u2 != int16'",
 "diff_array[dtype-np-other|dtype-np] -> ok builtins.str:'Differing dtypes:\\n  >u2 != int16'",
 "diff_array[dtype-np-other|rpc] -> ok builtins.str:'Differing dtypes:\\n  >u2 != int16\\nDiffering "
 "chunksizes:\\n  L records_per_chunk  2\\n  R records_per_chunk  3'",
 "diff_array[dtype-np-other|rpc-str] -> ok builtins.str:'Differing dtypes:\\n  >u2 != int16\\nDiffering "
 "chunksizes:\\n  L records_per_chunk  2\\n  R records_per_chunk  4'",
 "diff_array[dtype-np-other|url+dtype+rpc] -> ok builtins.str:'Differing urls:\\n  L url  file\\n  R url  "
 'u\\nDiffering dtypes:\\n  >u2 != uint8\\nDiffering chunksizes:\\n  L records_per_chunk  2\\n  R '
 "records_per_chunk  4'",
 "diff_array[type_code|default] -> ok builtins.str:'Differing type code:\\n  L type_code  C*8\\n  R "
 "type_code  IU2'",
 "diff_array[type_code|path2] -> ok builtins.str:'Differing filesystem:\\n  L path  /path/to\\n  R path  "
 "\\nDiffering type code:\\n  L type_code  C*8\\n  R type_code  IU2'",
 "diff_array[type_code|ranges-value] -> ok builtins.str:'Differing byte ranges:\\n  L line 2  (15, 20)\\n  R "
 "line 2  (15, 21)\\nDiffering type code:\\n  L type_code  C*8\\n  R type_code  IU2'",
 "diff_array[type_code|ranges-shorter] -> ok builtins.str:'Differing byte ranges:\\n  L line 3  (25, 30)\\n  "
 'R line 3  None\\n  L line 4  (35, 40)\\n  R line 4  None\\nDiffering type code:\\n  L type_code  C*8\\n  R '
 "type_code  IU2'",
 "diff_array[type_code|ranges-lists] -> ok builtins.str:'Differing byte ranges:\\n  L line 1  (5, 10)\\n  R "
 'line 1  [5, 10]\\n  L line 2  (15, 20)\\n  R line 2  [15, 20]\\n  L line 3  (25, 30)\\n  R line 3  [25, '
 '30]\\n  L line 4  (35, 40)\\n  R line 4  [35, 40]\\nDiffering type code:\\n  L type_code  C*8\\n  R '
 "type_code  IU2'",
 "diff_array[type_code|dtype] -> ok builtins.str:'Differing dtypes:\\n  int16 != complex64\\nDiffering type "
 "code:\\n  L type_code  C*8\\n  R type_code  IU2'",
 "diff_array[type_code|type_code] -> ok builtins.str:''",
 "diff_array[type_code|rpc-large] -> ok builtins.str:'Differing type code:\\n  L type_code  C*8\\n  R "
 "type_code  IU2\\nDiffering chunksizes:\\n  L records_per_chunk  2\\n  R records_per_chunk  4'",
 'diff_array[type_code|protocol+path] -> ok builtins.str:"Differing filesystem:\\n  L protocol  memory\\n  R '
 "protocol  ('file', 'local')\\n  L path  /path/to\\n  R path  /elsewhere\\nDiffering type code:\\n  L "
 'type_code  C*8\\n  R type_code  IU2"',
 "diff_array[rpc|default] -> ok builtins.str:'Differing chunksizes:\\n  L records_per_chunk  3\\n  R "
 "records_per_chunk  2'",
 "diff_array[rpc|path] -> ok builtins.str:'Differing filesystem:\\n  L path  /path/to\\n  R path  "
 "/path/to/other\\nDiffering chunksizes:\\n  L records_per_chunk  3\\n  R records_per_chunk  2'",
 "diff_array[rpc|url-empty] -> ok builtins.str:'Differing urls:\\n  L url  file\\n  R url  \\nDiffering "
 "chunksizes:\\n  L records_per_chunk  3\\n  R records_per_chunk  2'",
 "diff_array[rpc|ranges-all] -> ok builtins.str:'Differing byte ranges:\\n  L line 1  (5, 10)\\n  R line 1  "
 '(1, 2)\\n  L line 2  (15, 20)\\n  R line 2  (3, 4)\\n  L line 3  (25, 30)\\n  R line 3  (5, 6)\\n  L line '
 '4  (35, 40)\\n  R line 4  (7, 8)\\nDiffering chunksizes:\\n  L records_per_chunk  3\\n  R '
 "records_per_chunk  2'",
 "diff_array[rpc|ranges-empty] -> ok builtins.str:'Differing byte ranges:\\n  L line 1  (5, 10)\\n  R line "
 '1  None\\n  L line 2  (15, 20)\\n  R line 2  None\\n  L line 3  (25, 30)\\n  R line 3  None\\n  L line 4  '
 "(35, 40)\\n  R line 4  None\\nDiffering chunksizes:\\n  L records_per_chunk  3\\n  R records_per_chunk  2'",
 "diff_array[rpc|shape-rows] -> ok builtins.str:'Differing byte ranges:\\n  L line 4  (35, 40)\\n  R line 4  "
 'None\\nDiffering shapes:\\n  (4, 3) != (3, 3)\\nDiffering chunksizes:\\n  L records_per_chunk  3\\n  R '
 "records_per_chunk  2'",
 "diff_array[rpc|dtype-np-other] -> ok builtins.str:'Differing dtypes:\\n  int16 != >u2\\nDiffering "
 "chunksizes:\\n  L records_per_chunk  3\\n  R records_per_chunk  2'",
 "diff_array[rpc|rpc-none] -> ok builtins.str:'Differing chunksizes:\\n  L records_per_chunk  3\\n  R "
 "records_per_chunk  1024'",
 'diff_array[rpc|everything] -> ok builtins.str:"Differing filesystem:\\n  L protocol  memory\\n  R '
 "protocol  ('file', 'local')\\n  L path  /path/to\\n  R path  /elsewhere\\nDiffering urls:\\n  L url  "
 'file\\n  R url  other\\nDiffering byte ranges:\\n  L line 1  (5, 10)\\n  R line 1  (0, 1)\\n  L line 2  '
 '(15, 20)\\n  R line 2  None\\n  L line 3  (25, 30)\\n  R line 3  None\\n  L line 4  (35, 40)\\n  R line 4  '
 'None\\nDiffering shapes:\\n  (4, 3) != (1, 9)\\nDiffering dtypes:\\n  int16 != float32\\nDiffering type '
 'code:\\n  L type_code  IU2\\n  R type_code  C*8\\nDiffering chunksizes:\\n  L records_per_chunk  3\\n  R '
 'records_per_chunk  1"',
 "diff_array[rpc-none|default] -> ok builtins.str:'Differing chunksizes:\\n  L records_per_chunk  1024\\n  R "
 "records_per_chunk  2'",
 'diff_array[rpc-none|protocol] -> ok builtins.str:"Differing filesystem:\\n  L protocol  memory\\n  R '
 "protocol  ('file', 'local')\\nDiffering chunksizes:\\n  L records_per_chunk  1024\\n  R records_per_chunk  "
 '2"',
 "diff_array[rpc-none|url] -> ok builtins.str:'Differing urls:\\n  L url  file\\n  R url  file2\\nDiffering "
 "chunksizes:\\n  L records_per_chunk  1024\\n  R records_per_chunk  2'",
 "diff_array[rpc-none|ranges-first-last] -> ok builtins.str:'Differing byte ranges:\\n  L line 1  (5, "
 '10)\\n  R line 1  (0, 10)\\n  L line 4  (35, 40)\\n  R line 4  (35, 41)\\nDiffering chunksizes:\\n  L '
 "records_per_chunk  1024\\n  R records_per_chunk  2'",
 "diff_array[rpc-none|ranges-longer] -> ok builtins.str:'Differing byte ranges:\\n  L line 5  None\\n  R "
 'line 5  (45, 50)\\n  L line 6  None\\n  R line 6  (55, 60)\\n  L line 7  None\\n  R line 7  (65, '
 "70)\\nDiffering chunksizes:\\n  L records_per_chunk  1024\\n  R records_per_chunk  2'",
 "diff_array[rpc-none|shape] -> ok builtins.str:'Differing shapes:\\n  (4, 3) != (4, 5)\\nDiffering "
 "chunksizes:\\n  L records_per_chunk  1024\\n  R records_per_chunk  2'",
 "diff_array[rpc-none|dtype-np] -> ok builtins.str:'Differing chunksizes:\\n  L records_per_chunk  1024\\n  "
 "R records_per_chunk  2'",
 "diff_array[rpc-none|rpc] -> ok builtins.str:'Differing chunksizes:\\n  L records_per_chunk  1024\\n  R "
 "records_per_chunk  3'",
 "diff_array[rpc-none|rpc-str] -> ok builtins.str:'Differing chunksizes:\\n  L records_per_chunk  1024\\n  R "
 "records_per_chunk  4'",
 "diff_array[rpc-none|url+dtype+rpc] -> ok builtins.str:'Differing urls:\\n  L url  file\\n  R url  "
 'u\\nDiffering dtypes:\\n  int16 != uint8\\nDiffering chunksizes:\\n  L records_per_chunk  1024\\n  R '
 "records_per_chunk  4'",
 "diff_array[rpc-large|default] -> ok builtins.str:'Differing chunksizes:\\n  L records_per_chunk  4\\n  R "
 "records_per_chunk  2'",
 "diff_array[rpc-large|path2] -> ok builtins.str:'Differing filesystem:\\n  L path  /path/to\\n  R path  "
 "\\nDiffering chunksizes:\\n  L records_per_chunk  4\\n  R records_per_chunk  2'",
 "diff_array[rpc-large|ranges-value] -> ok builtins.str:'Differing byte ranges:\\n  L line 2  (15, 20)\\n  R "
 "line 2  (15, 21)\\nDiffering chunksizes:\\n  L records_per_chunk  4\\n  R records_per_chunk  2'",
 "diff_array[rpc-large|ranges-shorter] -> ok builtins.str:'Differing byte ranges:\\n  L line 3  (25, 30)\\n  "
 'R line 3  None\\n  L line 4  (35, 40)\\n  R line 4  None\\nDiffering chunksizes:\\n  L records_per_chunk  '
 "4\\n  R records_per_chunk  2'",
 "diff_array[rpc-large|ranges-lists] -> ok builtins.str:'Differing byte ranges:\\n  L line 1  (5, 10)\\n  R "
 'line 1  [5, 10]\\n  L line 2  (15, 20)\\n  R line 2  [15, 20]\\n  L line 3  (25, 30)\\n  R line 3  [25, '
 '30]\\n  L line 4  (35, 40)\\n  R line 4  [35, 40]\\nDiffering chunksizes:\\n  L records_per_chunk  4\\n  R '
 "records_per_chunk  2'",
 "diff_array[rpc-large|dtype] -> ok builtins.str:'Differing dtypes:\\n  int16 != complex64\\nDiffering "
 "chunksizes:\\n  L records_per_chunk  4\\n  R records_per_chunk  2'",
 "diff_array[rpc-large|type_code] -> ok builtins.str:'Differing type code:\\n  L type_code  IU2\\n  R "
 "type_code  C*8\\nDiffering chunksizes:\\n  L records_per_chunk  4\\n  R records_per_chunk  2'",
 "diff_array[rpc-large|rpc-large] -> ok builtins.str:''",
 'diff_array[rpc-large|protocol+path] -> ok builtins.str:"Differing filesystem:\\n  L protocol  memory\\n  R '
 "protocol  ('file', 'local')\\n  L path  /path/to\\n  R path  /elsewhere\\nDiffering chunksizes:\\n  L "
 'records_per_chunk  4\\n  R records_per_chunk  2"',
 "diff_array[rpc-str|default] -> ok builtins.str:'Differing chunksizes:\\n  L records_per_chunk  4\\n  R "
 "records_per_chunk  2'",
 "diff_array[rpc-str|path] -> ok builtins.str:'Differing filesystem:\\n  L path  /path/to\\n  R path  "
 "/path/to/other\\nDiffering chunksizes:\\n  L records_per_chunk  4\\n  R records_per_chunk  2'",
 "diff_array[rpc-str|url-empty] -> ok builtins.str:'Differing urls:\\n  L url  file\\n  R url  \\nDiffering "
 "chunksizes:\\n  L records_per_chunk  4\\n  R records_per_chunk  2'",
 "diff_array[rpc-str|ranges-all] -> ok builtins.str:'Differing byte ranges:\\n  L line 1  (5, 10)\\n  R line "
 '1  (1, 2)\\n  L line 2  (15, 20)\\n  R line 2  (3, 4)\\n  L line 3  (25, 30)\\n  R line 3  (5, 6)\\n  L '
 'line 4  (35, 40)\\n  R line 4  (7, 8)\\nDiffering chunksizes:\\n  L records_per_chunk  4\\n  R '
 "records_per_chunk  2'",
 "diff_array[rpc-str|ranges-empty] -> ok builtins.str:'Differing byte ranges:\\n  L line 1  (5, 10)\\n  R "
 'line 1  None\\n  L line 2  (15, 20)\\n  R line 2  None\\n  L line 3  (25, 30)\\n  R line 3  None\\n  L '
 'line 4  (35, 40)\\n  R line 4  None\\nDiffering chunksizes:\\n  L records_per_chunk  4\\n  R '
 "records_per_chunk  2'",
 "diff_array[rpc-str|shape-rows] -> ok builtins.str:'Differing byte ranges:\\n  L line 4  (35, 40)\\n  R "
 'line 4  None\\nDiffering shapes:\\n  (4, 3) != (3, 3)\\nDiffering chunksizes:\\n  L records_per_chunk  '
 "4\\n  R records_per_chunk  2'",
 "diff_array[rpc-str|dtype-np-other] -> ok builtins.str:'Differing dtypes:\\n  int16 != >u2\\nDiffering "
 "chunksizes:\\n  L records_per_chunk  4\\n  R records_per_chunk  2'",
 "diff_array[rpc-str|rpc-none] -> ok builtins.str:'Differing chunksizes:\\n  L records_per_chunk  4\\n  R "
 "records_per_chunk  1024'",
 'diff_array[rpc-str|everything] -> ok builtins.str:"Differing filesystem:\\n  L protocol  memory\\n  R '
 "protocol  ('file', 'local')\\n  L path  /path/to\\n  R path  /elsewhere\\nDiffering urls:\\n  L url  "
 'file\\n  R url  other\\nDiffering byte ranges:\\n  L line 1  (5, 10)\\n  R line 1  (0, 1)\\n  L line 2  '
 '(15, 20)\\n  R line 2  None\\n  L line 3  (25, 30)\\n  R line 3  None\\n  L line 4  (35, 40)\\n  R line 4  '
 'None\\nDiffering shapes:\\n  (4, 3) != (1, 9)\\nDiffering dtypes:\\n  int16 != float32\\nDiffering type '
 'code:\\n  L type_code  IU2\\n  R type_code  C*8\\nDiffering chunksizes:\\n  L records_per_chunk  4\\n  R '
 'records_per_chunk  1"',
 'diff_array[everything|default] -> ok builtins.str:"Differing filesystem:\\n  L protocol  (\'file\', '
 "'local')\\n  R protocol  memory\\n  L path  /elsewhere\\n  R path  /path/to\\nDiffering urls:\\n  L url  "
 'other\\n  R url  file\\nDiffering byte ranges:\\n  L line 1  (0, 1)\\n  R line 1  (5, 10)\\n  L line 2  '
 'None\\n  R line 2  (15, 20)\\n  L line 3  None\\n  R line 3  (25, 30)\\n  L line 4  None\\n  R line 4  '
 '(35, 40)\\nDiffering shapes:\\n  (1, 9) != (4, 3)\\nDiffering dtypes:\\n  float32 != int16\\nDiffering '
 'type code:\\n  L type_code  C*8\\n  R type_code  IU2\\nDiffering chunksizes:\\n  L records_per_chunk  '
 '1\\n  R records_per_chunk  2"',
 "diff_array[everything|protocol] -> ok builtins.str:'Differing filesystem:\\n  L path  /elsewhere\\n  R "
 'path  /path/to\\nDiffering urls:\\n  L url  other\\n  R url  file\\nDiffering byte ranges:\\n  L line 1  '
 '(0, 1)\\n  R line 1  (5, 10)\\n  L line 2  None\\n  R line 2  (15, 20)\\n  L line 3  None\\n  R line 3  '
 '(25, 30)\\n  L line 4  None\\n  R line 4  (35, 40)\\nDiffering shapes:\\n  (1, 9) != (4, 3)\\nDiffering '
 'dtypes:\\n  float32 != int16\\nDiffering type code:\\n  L type_code  C*8\\n  R type_code  IU2\\nDiffering '
 "chunksizes:\\n  L records_per_chunk  1\\n  R records_per_chunk  2'",
 'diff_array[everything|url] -> ok builtins.str:"Differing filesystem:\\n  L protocol  (\'file\', '
 "'local')\\n  R protocol  memory\\n  L path  /elsewhere\\n  R path  /path/to\\nDiffering urls:\\n  L url  "
 'other\\n  R url  file2\\nDiffering byte ranges:\\n  L line 1  (0, 1)\\n  R line 1  (5, 10)\\n  L line 2  '
 'None\\n  R line 2  (15, 20)\\n  L line 3  None\\n  R line 3  (25, 30)\\n  L line 4  None\\n  R line 4  '
 '(35, 40)\\nDiffering shapes:\\n  (1, 9) != (4, 3)\\nDiffering dtypes:\\n  float32 != int16\\nDiffering '
 'type code:\\n  L type_code  C*8\\n  R type_code  IU2\\nDiffering chunksizes:\\n  L records_per_chunk  '
 '1\\n  R records_per_chunk  2"',
 'diff_array[everything|ranges-first-last] -> ok builtins.str:"Differing filesystem:\\n  L protocol  '
 "('file', 'local')\\n  R protocol  memory\\n  L path  /elsewhere\\n  R path  /path/to\\nDiffering urls:\\n  "
 'L url  other\\n  R url  file\\nDiffering byte ranges:\\n  L line 1  (0, 1)\\n  R line 1  (0, 10)\\n  L '
 'line 2  None\\n  R line 2  (15, 20)\\n  L line 3  None\\n  R line 3  (25, 30)\\n  L line 4  None\\n  R '
 'line 4  (35, 41)\\nDiffering shapes:\\n  (1, 9) != (4, 3)\\nDiffering dtypes:\\n  float32 != '
 'int16\\nDiffering type code:\\n  L type_code  C*8\\n  R type_code  IU2\\nDiffering chunksizes:\\n  L '
 'records_per_chunk  1\\n  R records_per_chunk  2"',
 'diff_array[everything|ranges-longer] -> ok builtins.str:"Differing filesystem:\\n  L protocol  (\'file\', '
 "'local')\\n  R protocol  memory\\n  L path  /elsewhere\\n  R path  /path/to\\nDiffering urls:\\n  L url  "
 'other\\n  R url  file\\nDiffering byte ranges:\\n  L line 1  (0, 1)\\n  R line 1  (5, 10)\\n  L line 2  '
 'None\\n  R line 2  (15, 20)\\n  L line 3  None\\n  R line 3  (25, 30)\\n  L line 4  None\\n  R line 4  '
 '(35, 40)\\n  L line 5  None\\n  R line 5  (45, 50)\\n  L line 6  None\\n  R line 6  (55, 60)\\n  L line 7  '
 'None\\n  R line 7  (65, 70)\\nDiffering shapes:\\n  (1, 9) != (4, 3)\\nDiffering dtypes:\\n  float32 != '
 'int16\\nDiffering type code:\\n  L type_code  C*8\\n  R type_code  IU2\\nDiffering chunksizes:\\n  L '
 'records_per_chunk  1\\n  R records_per_chunk  2"',
 'diff_array[everything|shape] -> ok builtins.str:"Differing filesystem:\\n  L protocol  (\'file\', '
 "'local')\\n  R protocol  memory\\n  L path  /elsewhere\\n  R path  /path/to\\nDiffering urls:\\n  L url  "
 'other\\n  R url  file\\nDiffering byte ranges:\\n  L line 1  (0, 1)\\n  R line 1  (5, 10)\\n  L line 2  '
 'None\\n  R line 2  (15, 20)\\n  L line 3  None\\n  R line 3  (25, 30)\\n  L line 4  None\\n  R line 4  '
 '(35, 40)\\nDiffering shapes:\\n  (1, 9) != (4, 5)\\nDiffering dtypes:\\n  float32 != int16\\nDiffering '
 'type code:\\n  L type_code  C*8\\n  R type_code  IU2\\nDiffering chunksizes:\\n  L records_per_chunk  '
 '1\\n  R records_per_chunk  2"',
 'diff_array[everything|dtype-np] -> ok builtins.str:"Differing filesystem:\\n  L protocol  (\'file\', '
 "'local')\\n  R protocol  memory\\n  L path  /elsewhere\\n  R path  /path/to\\nDiffering urls:\\n  L url  "
 'other\\n  R url  file\\nDiffering byte ranges:\\n  L line 1  (0, 1)\\n  R line 1  (5, 10)\\n  L line 2  '
 'None\\n  R line 2  (15, 20)\\n  L line 3  None\\n  R line 3  (25, 30)\\n  L line 4  None\\n  R line 4  '
 '(35, 40)\\nDiffering shapes:\\n  (1, 9) != (4, 3)\\nDiffering dtypes:\\n  float32 != int16\\nDiffering '
 'type code:\\n  L type_code  C*8\\n  R type_code  IU2\\nDiffering chunksizes:\\n  L records_per_chunk  '
 '1\\n  R records_per_chunk  2"',
 'diff_array[everything|rpc] -> ok builtins.str:"Differing filesystem:\\n  L protocol  (\'file\', '
 "'local')\\n  R protocol  memory\\n  L path  /elsewhere\\n  R path  /path/to\\nDiffering urls:\\n  L url  "
 'other\\n  R url  file\\nDiffering byte ranges:\\n  L line 1  (0, 1)\\n  R line 1  (5, 10)\\n  L line 2  '
 'None\\n  R line 2  (15, 20)\\n  L line 3  None\\n  R line 3  (25, 30)\\n  L line 4  None\\n  R line 4  '
 '(35, 40)\\nDiffering shapes:\\n  (1, 9) != (4, 3)\\nDiffering dtypes:\\n  float32 != int16\\nDiffering '
 'type code:\\n  L type_code  C*8\\n  R type_code  IU2\\nDiffering chunksizes:\\n  L records_per_chunk  '
 '1\\n  R records_per_chunk  3"',
 'diff_array[everything|rpc-str] -> ok builtins.str:"Differing filesystem:\\n  L protocol  (\'file\', '
 "'local')\\n  R protocol  memory\\n  L path  /elsewhere\\n  R path  /path/to\\nDiffering urls:\\n  L url  "
 'other\\n  R url  file\\nDiffering byte ranges:\\n  L line 1  (0, 1)\\n  R line 1  (5, 10)\\n  L line 2  '
 'None\\n  R line 2  (15, 20)\\n  L line 3  None\\n  R line 3  (25, 30)\\n  L line 4  None\\n  R line 4  '
 '(35, 40)\\nDiffering shapes:\\n  (1, 9) != (4, 3)\\nDiffering dtypes:\\n  float32 != int16\\nDiffering '
 'type code:\\n  L type_code  C*8\\n  R type_code  IU2\\nDiffering chunksizes:\\n  L records_per_chunk  '
 '1\\n  R records_per_chunk  4"',
 'diff_array[everything|url+dtype+rpc] -> ok builtins.str:"Differing filesystem:\\n  L protocol  (\'file\', '
 "'local')\\n  R protocol  memory\\n  L path  /elsewhere\\n  R path  /path/to\\nDiffering urls:\\n  L url  "
 'other\\n  R url  u\\nDiffering byte ranges:\\n  L line 1  (0, 1)\\n  R line 1  (5, 10)\\n  L line 2  '
 'None\\n  R line 2  (15, 20)\\n  L line 3  None\\n  R line 3  (25, 30)\\n  L line 4  None\\n  R line 4  '
 '(35, 40)\\nDiffering shapes:\\n  (1, 9) != (4, 3)\\nDiffering dtypes:\\n  float32 != uint8\\nDiffering '
 'type code:\\n  L type_code  C*8\\n  R type_code  IU2\\nDiffering chunksizes:\\n  L records_per_chunk  '
 '1\\n  R records_per_chunk  4"',
 'diff_array[protocol+path|default] -> ok builtins.str:"Differing filesystem:\\n  L protocol  (\'file\', '
 '\'local\')\\n  R protocol  memory\\n  L path  /elsewhere\\n  R path  /path/to"',
 'diff_array[protocol+path|path2] -> ok builtins.str:"Differing filesystem:\\n  L protocol  (\'file\', '
 '\'local\')\\n  R protocol  memory\\n  L path  /elsewhere\\n  R path  "',
 'diff_array[protocol+path|ranges-value] -> ok builtins.str:"Differing filesystem:\\n  L protocol  '
 "('file', 'local')\\n  R protocol  memory\\n  L path  /elsewhere\\n  R path  /path/to\\nDiffering byte "
 'ranges:\\n  L line 2  (15, 20)\\n  R line 2  (15, 21)"',
 'diff_array[protocol+path|ranges-shorter] -> ok builtins.str:"Differing filesystem:\\n  L protocol  '
 "('file', 'local')\\n  R protocol  memory\\n  L path  /elsewhere\\n  R path  /path/to\\nDiffering byte "
 'ranges:\\n  L line 3  (25, 30)\\n  R line 3  None\\n  L line 4  (35, 40)\\n  R line 4  None"',
 'diff_array[protocol+path|ranges-lists] -> ok builtins.str:"Differing filesystem:\\n  L protocol  '
 "('file', 'local')\\n  R protocol  memory\\n  L path  /elsewhere\\n  R path  /path/to\\nDiffering byte "
 'ranges:\\n  L line 1  (5, 10)\\n  R line 1  [5, 10]\\n  L line 2  (15, 20)\\n  R line 2  [15, 20]\\n  L '
 'line 3  (25, 30)\\n  R line 3  [25, 30]\\n  L line 4  (35, 40)\\n  R line 4  [35, 40]"',
 'diff_array[protocol+path|dtype] -> ok builtins.str:"Differing filesystem:\\n  L protocol  (\'file\', '
 "'local')\\n  R protocol  memory\\n  L path  /elsewhere\\n  R path  /path/to\\nDiffering dtypes:\\n  int16 "
 '!= complex64"',
 'diff_array[protocol+path|type_code] -> ok builtins.str:"Differing filesystem:\\n  L protocol  (\'file\', '
 "'local')\\n  R protocol  memory\\n  L path  /elsewhere\\n  R path  /path/to\\nDiffering type code:\\n  L "
 'type_code  IU2\\n  R type_code  C*8"',
 'diff_array[protocol+path|rpc-large] -> ok builtins.str:"Differing filesystem:\\n  L protocol  (\'file\', '
 "'local')\\n  R protocol  memory\\n  L path  /elsewhere\\n  R path  /path/to\\nDiffering chunksizes:\\n  L "
 'records_per_chunk  2\\n  R records_per_chunk  4"',
 "diff_array[protocol+path|protocol+path] -> ok builtins.str:''",
 "diff_array[url+dtype+rpc|default] -> ok builtins.str:'Differing urls:\\n  L url  u\\n  R url  "
 'file\\nDiffering dtypes:\\n  uint8 != int16\\nDiffering chunksizes:\\n  L records_per_chunk  4\\n  R '
 "records_per_chunk  2'",
 "diff_array[url+dtype+rpc|path] -> ok builtins.str:'Differing filesystem:\\n  L path  /path/to\\n  R path  "
 '/path/to/other\\nDiffering urls:\\n  L url  u\\n  R url  file\\nDiffering dtypes:\\n  uint8 != '
 "int16\\nDiffering chunksizes:\\n  L records_per_chunk  4\\n  R records_per_chunk  2'",
 "diff_array[url+dtype+rpc|url-empty] -> ok builtins.str:'Differing urls:\\n  L url  u\\n  R url  "
 '\\nDiffering dtypes:\\n  uint8 != int16\\nDiffering chunksizes:\\n  L records_per_chunk  4\\n  R '
 "records_per_chunk  2'",
 "diff_array[url+dtype+rpc|ranges-all] -> ok builtins.str:'Differing urls:\\n  L url  u\\n  R url  "
 'file\\nDiffering byte ranges:\\n  L line 1  (5, 10)\\n  R line 1  (1, 2)\\n  L line 2  (15, 20)\\n  R line '
 '2  (3, 4)\\n  L line 3  (25, 30)\\n  R line 3  (5, 6)\\n  L line 4  (35, 40)\\n  R line 4  (7, '
 '8)\\nDiffering dtypes:\\n  uint8 != int16\\nDiffering chunksizes:\\n  L records_per_chunk  4\\n  R '
 "records_per_chunk  2'",
 "diff_array[url+dtype+rpc|ranges-empty] -> ok builtins.str:'Differing urls:\\n  L url  u\\n  R url  "
 'file\\nDiffering byte ranges:\\n  L line 1  (5, 10)\\n  R line 1  None\\n  L line 2  (15, 20)\\n  R line '
 '2  None\\n  L line 3  (25, 30)\\n  R line 3  None\\n  L line 4  (35, 40)\\n  R line 4  None\\nDiffering '
 "dtypes:\\n  uint8 != int16\\nDiffering chunksizes:\\n  L records_per_chunk  4\\n  R records_per_chunk  2'",
 "diff_array[url+dtype+rpc|shape-rows] -> ok builtins.str:'Differing urls:\\n  L url  u\\n  R url  "
 'file\\nDiffering byte ranges:\\n  L line 4  (35, 40)\\n  R line 4  None\\nDiffering shapes:\\n  (4, 3) != '
 '(3, 3)\\nDiffering dtypes:\\n  uint8 != int16\\nDiffering chunksizes:\\n  L records_per_chunk  4\\n  R '
 "records_per_chunk  2'",
 "diff_array[url+dtype+rpc|dtype-np-other] -> ok builtins.str:'Differing urls:\\n  L url  u\\n  R url  "
 'file\\nDiffering dtypes:\\n  uint8 != >u2\\nDiffering chunksizes:\\n  L records_per_chunk  4\\n  R '
 "records_per_chunk  2'",
 "diff_array[url+dtype+rpc|rpc-none] -> ok builtins.str:'Differing urls:\\n  L url  u\\n  R url  "
 'file\\nDiffering dtypes:\\n  uint8 != int16\\nDiffering chunksizes:\\n  L records_per_chunk  4\\n  R '
 "records_per_chunk  1024'",
 'diff_array[url+dtype+rpc|everything] -> ok builtins.str:"Differing filesystem:\\n  L protocol  memory\\n  '
 "R protocol  ('file', 'local')\\n  L path  /path/to\\n  R path  /elsewhere\\nDiffering urls:\\n  L url  "
 'u\\n  R url  other\\nDiffering byte ranges:\\n  L line 1  (5, 10)\\n  R line 1  (0, 1)\\n  L line 2  (15, '
 '20)\\n  R line 2  None\\n  L line 3  (25, 30)\\n  R line 3  None\\n  L line 4  (35, 40)\\n  R line 4  '
 'None\\nDiffering shapes:\\n  (4, 3) != (1, 9)\\nDiffering dtypes:\\n  uint8 != float32\\nDiffering type '
 'code:\\n  L type_code  IU2\\n  R type_code  C*8\\nDiffering chunksizes:\\n  L records_per_chunk  4\\n  R '
 'records_per_chunk  1"',
 'diff_data[default|everything] -> ok builtins.str:"Differing data:\\n  Differing filesystem:\\n    L '
 "protocol  memory\\n    R protocol  ('file', 'local')\\n    L path  /path/to\\n    R path  /elsewhere\\n  "
 'Differing urls:\\n    L url  file\\n    R url  other\\n  Differing byte ranges:\\n    L line 1  (5, '
 '10)\\n    R line 1  (0, 1)\\n    L line 2  (15, 20)\\n    R line 2  None\\n    L line 3  (25, 30)\\n    R '
 'line 3  None\\n    L line 4  (35, 40)\\n    R line 4  None\\n  Differing shapes:\\n    (4, 3) != (1, '
 '9)\\n  Differing dtypes:\\n    int16 != float32\\n  Differing type code:\\n    L type_code  IU2\\n    R '
 'type_code  C*8\\n  Differing chunksizes:\\n    L records_per_chunk  2\\n    R records_per_chunk  1"',
 'compare_data[default|everything] -> ok builtins.bool:False',
 'diff_variable[default|everything] -> ok builtins.str:"Left and right Variable objects are not equal\\n  '
 'Differing dimensions:\\n    (rows: 4, columns: 3) != (rows: 1, cols: 9)\\n  Differing data:\\n    '
 "Differing filesystem:\\n      L protocol  memory\\n      R protocol  ('file', 'local')\\n      L path  "
 '/path/to\\n      R path  /elsewhere\\n    Differing urls:\\n      L url  file\\n      R url  other\\n    '
 'Differing byte ranges:\\n      L line 1  (5, 10)\\n      R line 1  (0, 1)\\n      L line 2  (15, '
 '20)\\n      R line 2  None\\n      L line 3  (25, 30)\\n      R line 3  None\\n      L line 4  (35, '
 '40)\\n      R line 4  None\\n    Differing shapes:\\n      (4, 3) != (1, 9)\\n    Differing '
 'dtypes:\\n      int16 != float32\\n    Differing type code:\\n      L type_code  IU2\\n      R type_code  '
 'C*8\\n    Differing chunksizes:\\n      L records_per_chunk  2\\n      R records_per_chunk  1\\n  '
 'Attributes:\\n    Missing left:\\n     - b\\n    Differing attributes:\\n       L a  1\\n       R a  2"',
 'assert_identical[default|everything] -> raised builtins.AssertionError:AssertionError("Differing '
 "filesystem:\\n  L protocol  memory\\n  R protocol  ('file', 'local')\\n  L path  /path/to\\n  R path  "
 '/elsewhere\\nDiffering urls:\\n  L url  file\\n  R url  other\\nDiffering byte ranges:\\n  L line 1  (5, '
 '10)\\n  R line 1  (0, 1)\\n  L line 2  (15, 20)\\n  R line 2  None\\n  L line 3  (25, 30)\\n  R line 3  '
 'None\\n  L line 4  (35, 40)\\n  R line 4  None\\nDiffering shapes:\\n  (4, 3) != (1, 9)\\nDiffering '
 'dtypes:\\n  int16 != float32\\nDiffering type code:\\n  L type_code  IU2\\n  R type_code  C*8\\nDiffering '
 'chunksizes:\\n  L records_per_chunk  2\\n  R records_per_chunk  1") cause=builtins.NoneType:None '
 'context=NoneType suppress=False',
 'assert_identical[var default|everything] -> raised builtins.AssertionError:AssertionError("Left and right '
 'Variable objects are not equal\\n  Differing dimensions:\\n    (rows: 4, columns: 3) != (rows: 1, cols: '
 "9)\\n  Differing data:\\n    Differing filesystem:\\n      L protocol  memory\\n      R protocol  ('file', "
 "'local')\\n      L path  /path/to\\n      R path  /elsewhere\\n    Differing urls:\\n      L url  "
 'file\\n      R url  other\\n    Differing byte ranges:\\n      L line 1  (5, 10)\\n      R line 1  (0, '
 '1)\\n      L line 2  (15, 20)\\n      R line 2  None\\n      L line 3  (25, 30)\\n      R line 3  '
 'None\\n      L line 4  (35, 40)\\n      R line 4  None\\n    Differing shapes:\\n      (4, 3) != (1, '
 '9)\\n    Differing dtypes:\\n      int16 != float32\\n    Differing type code:\\n      L type_code  '
 'IU2\\n      R type_code  C*8\\n    Differing chunksizes:\\n      L records_per_chunk  2\\n      R '
 'records_per_chunk  1\\n  Attributes:\\n    Missing left:\\n     - b\\n    Differing attributes:\\n       L '
 'a  1\\n       R a  2") cause=builtins.NoneType:None context=NoneType suppress=False',
 'diff_tree[default|everything] -> ok builtins.str:"Left and right Group objects are not equal\\n  Differing '
 'groups:\\n    Group /:\\n      Variables:\\n        Differing variables:\\n           L v  (rows, '
 'columns)    Array(shape=(4, 3), dtype=int16, rpc=2)\\n             url: '
 'memory:///path/to/file\\n             a: 1\\n           R v  (rows, cols)    Array(shape=(1, 9), '
 "dtype=float32, rpc=1)\\n             url: ('file', 'local'):///elsewhere/other\\n             a: "
 "2\\n             b: Array(url='file', shape=(4, 3), dtype='int16', records_per_chunk=2)\\n      "
 'Attributes:\\n        Differing attributes:\\n           L k  (rows, columns)    Array(shape=(4, 3), '
 'dtype=int16, rpc=2)\\n             url: memory:///path/to/file\\n             a: 1\\n           R k  '
 "(rows, cols)    Array(shape=(1, 9), dtype=float32, rpc=1)\\n             url: ('file', "
 "'local'):///elsewhere/other\\n             a: 2\\n             b: Array(url='file', shape=(4, 3), "
 "dtype='int16', records_per_chunk=2)\\n    Group /sub:\\n      Variables:\\n        Differing "
 'variables:\\n           L w  (rows, columns)    Array(shape=(4, 3), dtype=int16, rpc=2)\\n             '
 'url: memory:///path/to/file\\n             a: 1\\n           R w  (rows, cols)    Array(shape=(1, 9), '
 "dtype=float32, rpc=1)\\n             url: ('file', 'local'):///elsewhere/other\\n             a: "
 '2\\n             b: Array(url=\'file\', shape=(4, 3), dtype=\'int16\', records_per_chunk=2)"',
 'assert_identical[group default|everything] -> raised builtins.AssertionError:AssertionError("Left and '
 'right Group objects are not equal\\n  Differing groups:\\n    Group /:\\n      Variables:\\n        '
 'Differing variables:\\n           L v  (rows, columns)    Array(shape=(4, 3), dtype=int16, '
 'rpc=2)\\n             url: memory:///path/to/file\\n             a: 1\\n           R v  (rows, cols)    '
 "Array(shape=(1, 9), dtype=float32, rpc=1)\\n             url: ('file', "
 "'local'):///elsewhere/other\\n             a: 2\\n             b: Array(url='file', shape=(4, 3), "
 "dtype='int16', records_per_chunk=2)\\n      Attributes:\\n        Differing attributes:\\n           L k  "
 '(rows, columns)    Array(shape=(4, 3), dtype=int16, rpc=2)\\n             url: '
 'memory:///path/to/file\\n             a: 1\\n           R k  (rows, cols)    Array(shape=(1, 9), '
 "dtype=float32, rpc=1)\\n             url: ('file', 'local'):///elsewhere/other\\n             a: "
 "2\\n             b: Array(url='file', shape=(4, 3), dtype='int16', records_per_chunk=2)\\n    Group "
 '/sub:\\n      Variables:\\n        Differing variables:\\n           L w  (rows, columns)    '
 'Array(shape=(4, 3), dtype=int16, rpc=2)\\n             url: memory:///path/to/file\\n             a: '
 "1\\n           R w  (rows, cols)    Array(shape=(1, 9), dtype=float32, rpc=1)\\n             url: ('file', "
 "'local'):///elsewhere/other\\n             a: 2\\n             b: Array(url='file', shape=(4, 3), "
 'dtype=\'int16\', records_per_chunk=2)") cause=builtins.NoneType:None context=NoneType suppress=False',
 "diff_data[rpc|rpc] -> ok builtins.str:'Differing data:\\n'",
 'compare_data[rpc|rpc] -> ok builtins.bool:True',
 "diff_variable[rpc|rpc] -> ok builtins.str:'Left and right Variable objects are not equal\\n  Differing "
 'dimensions:\\n    (rows: 4, columns: 3) != (rows: 4, cols: 3)\\n  Attributes:\\n    Missing left:\\n     - '
 "b\\n    Differing attributes:\\n       L a  1\\n       R a  2'",
 'assert_identical[rpc|rpc] -> ok builtins.NoneType:None',
 "assert_identical[var rpc|rpc] -> raised builtins.AssertionError:AssertionError('Left and right Variable "
 'objects are not equal\\n  Differing dimensions:\\n    (rows: 4, columns: 3) != (rows: 4, cols: 3)\\n  '
 "Attributes:\\n    Missing left:\\n     - b\\n    Differing attributes:\\n       L a  1\\n       R a  2') "
 'cause=builtins.NoneType:None context=NoneType suppress=False',
 'diff_tree[rpc|rpc] -> ok builtins.str:"Left and right Group objects are not equal\\n  Differing '
 'groups:\\n    Group /:\\n      Variables:\\n        Differing variables:\\n           L v  (rows, '
 'columns)    Array(shape=(4, 3), dtype=int16, rpc=3)\\n             url: '
 'memory:///path/to/file\\n             a: 1\\n           R v  (rows, cols)    Array(shape=(4, 3), '
 'dtype=int16, rpc=3)\\n             url: memory:///path/to/file\\n             a: 2\\n             b: '
 "Array(url='file', shape=(4, 3), dtype='int16', records_per_chunk=3)\\n      Attributes:\\n        "
 'Differing attributes:\\n           L k  (rows, columns)    Array(shape=(4, 3), dtype=int16, '
 'rpc=3)\\n             url: memory:///path/to/file\\n             a: 1\\n           R k  (rows, cols)    '
 'Array(shape=(4, 3), dtype=int16, rpc=3)\\n             url: memory:///path/to/file\\n             a: '
 "2\\n             b: Array(url='file', shape=(4, 3), dtype='int16', records_per_chunk=3)\\n    Group "
 '/sub:\\n      Variables:\\n        Differing variables:\\n           L w  (rows, columns)    '
 'Array(shape=(4, 3), dtype=int16, rpc=3)\\n             url: memory:///path/to/file\\n             a: '
 '1\\n           R w  (rows, cols)    Array(shape=(4, 3), dtype=int16, rpc=3)\\n             url: '
 "memory:///path/to/file\\n             a: 2\\n             b: Array(url='file', shape=(4, 3), "
 'dtype=\'int16\', records_per_chunk=3)"',
 'assert_identical[group rpc|rpc] -> raised builtins.AssertionError:AssertionError("Left and right Group '
 'objects are not equal\\n  Differing groups:\\n    Group /:\\n      Variables:\\n        Differing '
 'variables:\\n           L v  (rows, columns)    Array(shape=(4, 3), dtype=int16, rpc=3)\\n             '
 'url: memory:///path/to/file\\n             a: 1\\n           R v  (rows, cols)    Array(shape=(4, 3), '
 'dtype=int16, rpc=3)\\n             url: memory:///path/to/file\\n             a: 2\\n             b: '
 "Array(url='file', shape=(4, 3), dtype='int16', records_per_chunk=3)\\n      Attributes:\\n        "
 'Differing attributes:\\n           L k  (rows, columns)    Array(shape=(4, 3), dtype=int16, '
 'rpc=3)\\n             url: memory:///path/to/file\\n             a: 1\\n           R k  (rows, cols)    '
 'Array(shape=(4, 3), dtype=int16, rpc=3)\\n             url: memory:///path/to/file\\n             a: '
 "2\\n             b: Array(url='file', shape=(4, 3), dtype='int16', records_per_chunk=3)\\n    Group "
 '/sub:\\n      Variables:\\n        Differing variables:\\n           L w  (rows, columns)    '
 'Array(shape=(4, 3), dtype=int16, rpc=3)\\n             url: memory:///path/to/file\\n             a: '
 '1\\n           R w  (rows, cols)    Array(shape=(4, 3), dtype=int16, rpc=3)\\n             url: '
 "memory:///path/to/file\\n             a: 2\\n             b: Array(url='file', shape=(4, 3), "
 'dtype=\'int16\', records_per_chunk=3)") cause=builtins.NoneType:None context=NoneType suppress=False',
 "diff_data[url|dtype] -> ok builtins.str:'Differing data:\\n  Differing urls:\\n    L url  file2\\n    R "
 "url  file\\n  Differing dtypes:\\n    int16 != complex64'",
 'compare_data[url|dtype] -> ok builtins.bool:False',
 "diff_variable[url|dtype] -> ok builtins.str:'Left and right Variable objects are not equal\\n  Differing "
 'dimensions:\\n    (rows: 4, columns: 3) != (rows: 4, cols: 3)\\n  Differing data:\\n    Differing '
 'urls:\\n      L url  file2\\n      R url  file\\n    Differing dtypes:\\n      int16 != complex64\\n  '
 "Attributes:\\n    Missing left:\\n     - b\\n    Differing attributes:\\n       L a  1\\n       R a  2'",
 "assert_identical[url|dtype] -> raised builtins.AssertionError:AssertionError('Differing urls:\\n  L url  "
 "file2\\n  R url  file\\nDiffering dtypes:\\n  int16 != complex64') cause=builtins.NoneType:None "
 'context=NoneType suppress=False',
 "assert_identical[var url|dtype] -> raised builtins.AssertionError:AssertionError('Left and right Variable "
 'objects are not equal\\n  Differing dimensions:\\n    (rows: 4, columns: 3) != (rows: 4, cols: 3)\\n  '
 'Differing data:\\n    Differing urls:\\n      L url  file2\\n      R url  file\\n    Differing '
 'dtypes:\\n      int16 != complex64\\n  Attributes:\\n    Missing left:\\n     - b\\n    Differing '
 "attributes:\\n       L a  1\\n       R a  2') cause=builtins.NoneType:None context=NoneType suppress=False",
 'diff_tree[url|dtype] -> ok builtins.str:"Left and right Group objects are not equal\\n  Differing '
 'groups:\\n    Group /:\\n      Variables:\\n        Differing variables:\\n           L v  (rows, '
 'columns)    Array(shape=(4, 3), dtype=int16, rpc=2)\\n             url: '
 'memory:///path/to/file2\\n             a: 1\\n           R v  (rows, cols)    Array(shape=(4, 3), '
 'dtype=complex64, rpc=2)\\n             url: memory:///path/to/file\\n             a: 2\\n             b: '
 "Array(url='file2', shape=(4, 3), dtype='int16', records_per_chunk=2)\\n      Attributes:\\n        "
 'Differing attributes:\\n           L k  (rows, columns)    Array(shape=(4, 3), dtype=int16, '
 'rpc=2)\\n             url: memory:///path/to/file2\\n             a: 1\\n           R k  (rows, cols)    '
 'Array(shape=(4, 3), dtype=complex64, rpc=2)\\n             url: memory:///path/to/file\\n             a: '
 "2\\n             b: Array(url='file2', shape=(4, 3), dtype='int16', records_per_chunk=2)\\n    Group "
 '/sub:\\n      Variables:\\n        Differing variables:\\n           L w  (rows, columns)    '
 'Array(shape=(4, 3), dtype=int16, rpc=2)\\n             url: memory:///path/to/file2\\n             a: '
 '1\\n           R w  (rows, cols)    Array(shape=(4, 3), dtype=complex64, rpc=2)\\n             url: '
 "memory:///path/to/file\\n             a: 2\\n             b: Array(url='file2', shape=(4, 3), "
 'dtype=\'int16\', records_per_chunk=2)"',
 'assert_identical[group url|dtype] -> raised builtins.AssertionError:AssertionError("Left and right Group '
 'objects are not equal\\n  Differing groups:\\n    Group /:\\n      Variables:\\n        Differing '
 'variables:\\n           L v  (rows, columns)    Array(shape=(4, 3), dtype=int16, rpc=2)\\n             '
 'url: memory:///path/to/file2\\n             a: 1\\n           R v  (rows, cols)    Array(shape=(4, 3), '
 'dtype=complex64, rpc=2)\\n             url: memory:///path/to/file\\n             a: 2\\n             b: '
 "Array(url='file2', shape=(4, 3), dtype='int16', records_per_chunk=2)\\n      Attributes:\\n        "
 'Differing attributes:\\n           L k  (rows, columns)    Array(shape=(4, 3), dtype=int16, '
 'rpc=2)\\n             url: memory:///path/to/file2\\n             a: 1\\n           R k  (rows, cols)    '
 'Array(shape=(4, 3), dtype=complex64, rpc=2)\\n             url: memory:///path/to/file\\n             a: '
 "2\\n             b: Array(url='file2', shape=(4, 3), dtype='int16', records_per_chunk=2)\\n    Group "
 '/sub:\\n      Variables:\\n        Differing variables:\\n           L w  (rows, columns)    '
 'Array(shape=(4, 3), dtype=int16, rpc=2)\\n             url: memory:///path/to/file2\\n             a: '
 '1\\n           R w  (rows, cols)    Array(shape=(4, 3), dtype=complex64, rpc=2)\\n             url: '
 "memory:///path/to/file\\n             a: 2\\n             b: Array(url='file2', shape=(4, 3), "
 'dtype=\'int16\', records_per_chunk=2)") cause=builtins.NoneType:None context=NoneType suppress=False',
 "diff_array[fake equal] -> ok builtins.str:''",
 "diff_array[fake equal swapped] -> ok builtins.str:''",
 'diff_array[fake tuple protocol] -> ok builtins.str:"Differing filesystem:\\n  L protocol  (\'file\', '
 '\'local\')\\n  R protocol  file"',
 'diff_array[fake tuple protocol swapped] -> ok builtins.str:"Differing filesystem:\\n  L protocol  file\\n  '
 'R protocol  (\'file\', \'local\')"',
 "diff_array[fake path only] -> ok builtins.str:'Differing filesystem:\\n  L path  a\\n  R path  b'",
 "diff_array[fake path only swapped] -> ok builtins.str:'Differing filesystem:\\n  L path  b\\n  R path  a'",
 "diff_array[fake sep only] -> ok builtins.str:'Differing filesystem:'",
 "diff_array[fake sep only swapped] -> ok builtins.str:'Differing filesystem:'",
 "diff_array[fake ranges None] -> ok builtins.str:'Differing byte ranges:\\n  L line 2  (1, 2)\\n  R line 2  "
 "(1, 3)'",
 "diff_array[fake ranges None swapped] -> ok builtins.str:'Differing byte ranges:\\n  L line 2  (1, 3)\\n  R "
 "line 2  (1, 2)'",
 "diff_array[fake ranges nan] -> ok builtins.str:'Differing byte ranges:\\n  L line 1  (nan, 1)\\n  R line "
 "1  (nan, 1)'",
 "diff_array[fake ranges nan swapped] -> ok builtins.str:'Differing byte ranges:\\n  L line 1  (nan, 1)\\n  "
 "R line 1  (nan, 1)'",
 "diff_array[fake ranges left empty] -> ok builtins.str:'Differing byte ranges:\\n  L line 1  None\\n  R "
 "line 1  (0, 1)\\n  L line 2  None\\n  R line 2  (1, 2)'",
 "diff_array[fake ranges left empty swapped] -> ok builtins.str:'Differing byte ranges:\\n  L line 1  (0, "
 "1)\\n  R line 1  None\\n  L line 2  (1, 2)\\n  R line 2  None'",
 "diff_array[fake ranges right empty] -> ok builtins.str:'Differing byte ranges:\\n  L line 1  (0, 1)\\n  R "
 "line 1  None\\n  L line 2  (1, 2)\\n  R line 2  None'",
 "diff_array[fake ranges right empty swapped] -> ok builtins.str:'Differing byte ranges:\\n  L line 1  "
 "None\\n  R line 1  (0, 1)\\n  L line 2  None\\n  R line 2  (1, 2)'",
 "diff_array[fake ranges tuple vs list] -> ok builtins.str:'Differing byte ranges:\\n  L line 1  (0, 4)\\n  "
 "R line 1  [0, 4]\\n  L line 2  (4, 8)\\n  R line 2  [4, 8]'",
 "diff_array[fake ranges tuple vs list swapped] -> ok builtins.str:'Differing byte ranges:\\n  L line 1  [0, "
 "4]\\n  R line 1  (0, 4)\\n  L line 2  [4, 8]\\n  R line 2  (4, 8)'",
 "diff_array[fake ranges container] -> ok builtins.str:'Differing byte ranges:'",
 "diff_array[fake ranges container swapped] -> ok builtins.str:'Differing byte ranges:'",
 "diff_array[fake ranges long] -> ok builtins.str:'Differing byte ranges:\\n  L line 1  (0, 1)\\n  R line 1  "
 '(0, 2)\\n  L line 8  (7, 8)\\n  R line 8  (7, 9)\\n  L line 15  (14, 15)\\n  R line 15  (14, 16)\\n  L '
 'line 22  (21, 22)\\n  R line 22  (21, 23)\\n  L line 26  (25, 26)\\n  R line 26  None\\n  L line 27  (26, '
 '27)\\n  R line 27  None\\n  L line 28  (27, 28)\\n  R line 28  None\\n  L line 29  (28, 29)\\n  R line 29  '
 "None\\n  L line 30  (29, 30)\\n  R line 30  None'",
 "diff_array[fake ranges long swapped] -> ok builtins.str:'Differing byte ranges:\\n  L line 1  (0, 2)\\n  R "
 'line 1  (0, 1)\\n  L line 8  (7, 9)\\n  R line 8  (7, 8)\\n  L line 15  (14, 16)\\n  R line 15  (14, '
 '15)\\n  L line 22  (21, 23)\\n  R line 22  (21, 22)\\n  L line 26  None\\n  R line 26  (25, 26)\\n  L line '
 '27  None\\n  R line 27  (26, 27)\\n  L line 28  None\\n  R line 28  (27, 28)\\n  L line 29  None\\n  R '
 "line 29  (28, 29)\\n  L line 30  None\\n  R line 30  (29, 30)'",
 "diff_array[fake shape list] -> ok builtins.str:'Differing shapes:\\n  [2, 2] != (2, 2)'",
 "diff_array[fake shape list swapped] -> ok builtins.str:'Differing shapes:\\n  (2, 2) != [2, 2]'",
 "diff_array[fake dtype str vs np] -> ok builtins.str:''",
 "diff_array[fake dtype str vs np swapped] -> ok builtins.str:''",
 "diff_array[fake dtype differs] -> ok builtins.str:'Differing dtypes:\\n  uint16 != int16'",
 "diff_array[fake dtype differs swapped] -> ok builtins.str:'Differing dtypes:\\n  int16 != uint16'",
 "diff_array[fake type code None] -> ok builtins.str:'Differing type code:\\n  L type_code  None\\n  R "
 "type_code  IU2'",
 "diff_array[fake type code None swapped] -> ok builtins.str:'Differing type code:\\n  L type_code  IU2\\n  "
 "R type_code  None'",
 "diff_array[fake url types] -> ok builtins.str:'Differing urls:\\n  L url  1\\n  R url  1'",
 "diff_array[fake url types swapped] -> ok builtins.str:'Differing urls:\\n  L url  1\\n  R url  1'",
 "diff_array[fake rpc] -> ok builtins.str:'Differing chunksizes:\\n  L records_per_chunk  1\\n  R "
 "records_per_chunk  2'",
 "diff_array[fake rpc swapped] -> ok builtins.str:'Differing chunksizes:\\n  L records_per_chunk  2\\n  R "
 "records_per_chunk  1'",
 "diff_array[fake shared fs] -> ok builtins.str:''",
 "diff_array[same object] -> ok builtins.str:''",
 "diff_array[np|np] -> ok builtins.str:'  L int8  0 1\\n  R int32  0 1 2 ... 8 9'",
 "diff_data[np|np] -> ok builtins.str:'Differing data:\\n    L int8  0 1\\n    R int32  0 1 2 ... 8 9'",
 "assert_identical[np|np] -> raised builtins.TypeError:TypeError('can only compare Group and Variable and "
 "Array objects') cause=builtins.NoneType:None context=NoneType suppress=False",
 "diff_array[np|np same] -> ok builtins.str:'  L float64  0.0 0.1 0.2 ... 0.9 1.0\\n  R float64  0.0 0.1 0.2 "
 "... 0.9 1.0'",
 "diff_data[np|np same] -> ok builtins.str:'Differing data:\\n    L float64  0.0 0.1 0.2 ... 0.9 1.0\\n    R "
 "float64  0.0 0.1 0.2 ... 0.9 1.0'",
 "assert_identical[np|np same] -> raised builtins.TypeError:TypeError('can only compare Group and Variable "
 "and Array objects') cause=builtins.NoneType:None context=NoneType suppress=False",
 "diff_array[np 2d|np] -> ok builtins.str:'  L float32  0.0 1.0 2.0 3.0 4.0 5.0\\n  R datetime64[ms]  "
 "2011-04-27T00:00:00.000 2011-04-27T00:00:01.500 NaT'",
 "diff_data[np 2d|np] -> ok builtins.str:'Differing data:\\n    L float32  0.0 1.0 2.0 3.0 4.0 5.0\\n    R "
 "datetime64[ms]  2011-04-27T00:00:00.000 2011-04-27T00:00:01.500 NaT'",
 "assert_identical[np 2d|np] -> raised builtins.TypeError:TypeError('can only compare Group and Variable and "
 "Array objects') cause=builtins.NoneType:None context=NoneType suppress=False",
 "diff_array[np|list] -> ok builtins.str:'  L int8  0 1\\n  R int64  1 2'",
 'diff_data[np|list] -> ok builtins.str:"Differing data types:\\n  L <class \'numpy.ndarray\'>\\n  R <class '
 '\'list\'>"',
 'assert_identical[np|list] -> raised builtins.AssertionError:AssertionError("types mismatch: <class '
 '\'numpy.ndarray\'> != <class \'list\'>") cause=builtins.NoneType:None context=NoneType suppress=False',
 "diff_array[list|np] -> ok builtins.str:'  L int64  1 2\\n  R int8  0 1'",
 'diff_data[list|np] -> ok builtins.str:"Differing data types:\\n  L <class \'list\'>\\n  R <class '
 '\'numpy.ndarray\'>"',
 'assert_identical[list|np] -> raised builtins.AssertionError:AssertionError("types mismatch: <class '
 '\'list\'> != <class \'numpy.ndarray\'>") cause=builtins.NoneType:None context=NoneType suppress=False',
 "diff_array[np|Array] -> ok builtins.str:'  L int8  0 1\\n  R Array(shape=(4, 3), dtype=int16, rpc=2)\\n    "
 "url: memory:///path/to/file'",
 'diff_data[np|Array] -> ok builtins.str:"Differing data types:\\n  L <class \'numpy.ndarray\'>\\n  R <class '
 '\'ceos_alos2.array.Array\'>"',
 'assert_identical[np|Array] -> raised builtins.AssertionError:AssertionError("types mismatch: <class '
 '\'numpy.ndarray\'> != <class \'ceos_alos2.array.Array\'>") cause=builtins.NoneType:None context=NoneType '
 'suppress=False',
 'diff_array[Array|np] -> raised builtins.AttributeError:AttributeError("\'numpy.ndarray\' object has no '
 'attribute \'fs\'") cause=builtins.NoneType:None context=NoneType suppress=False',
 'diff_data[Array|np] -> ok builtins.str:"Differing data types:\\n  L <class \'ceos_alos2.array.Array\'>\\n  '
 'R <class \'numpy.ndarray\'>"',
 'assert_identical[Array|np] -> raised builtins.AssertionError:AssertionError("types mismatch: <class '
 '\'ceos_alos2.array.Array\'> != <class \'numpy.ndarray\'>") cause=builtins.NoneType:None context=NoneType '
 'suppress=False',
 'diff_array[Array|None] -> raised builtins.AttributeError:AttributeError("\'NoneType\' object has no '
 'attribute \'fs\'") cause=builtins.NoneType:None context=NoneType suppress=False',
 'diff_data[Array|None] -> ok builtins.str:"Differing data types:\\n  L <class '
 '\'ceos_alos2.array.Array\'>\\n  R <class \'NoneType\'>"',
 'assert_identical[Array|None] -> raised builtins.AssertionError:AssertionError("types mismatch: <class '
 '\'ceos_alos2.array.Array\'> != <class \'NoneType\'>") cause=builtins.NoneType:None context=NoneType '
 'suppress=False',
 'diff_array[None|Array] -> raised builtins.AttributeError:AttributeError("\'NoneType\' object has no '
 'attribute \'dtype\'") cause=builtins.NoneType:None context=NoneType suppress=False',
 'diff_data[None|Array] -> ok builtins.str:"Differing data types:\\n  L <class \'NoneType\'>\\n  R <class '
 '\'ceos_alos2.array.Array\'>"',
 'assert_identical[None|Array] -> raised builtins.AssertionError:AssertionError("types mismatch: <class '
 '\'NoneType\'> != <class \'ceos_alos2.array.Array\'>") cause=builtins.NoneType:None context=NoneType '
 'suppress=False',
 'diff_array[None|None] -> raised builtins.AttributeError:AttributeError("\'NoneType\' object has no '
 'attribute \'dtype\'") cause=builtins.NoneType:None context=NoneType suppress=False',
 'diff_data[None|None] -> raised builtins.AttributeError:AttributeError("\'NoneType\' object has no '
 'attribute \'dtype\'") cause=builtins.NoneType:None context=NoneType suppress=False',
 "assert_identical[None|None] -> raised builtins.TypeError:TypeError('can only compare Group and Variable "
 "and Array objects') cause=builtins.NoneType:None context=NoneType suppress=False",
 'diff_array[object|np] -> raised builtins.AttributeError:AttributeError("\'int\' object has no attribute '
 '\'dtype\'") cause=builtins.NoneType:None context=NoneType suppress=False',
 'diff_data[object|np] -> raised builtins.AttributeError:AttributeError("\'int\' object has no attribute '
 '\'dtype\'") cause=builtins.NoneType:None context=NoneType suppress=False',
 "assert_identical[object|np] -> raised builtins.TypeError:TypeError('can only compare Group and Variable "
 "and Array objects') cause=builtins.NoneType:None context=NoneType suppress=False",
 'diff_array[np|object] -> raised builtins.AttributeError:AttributeError("\'int\' object has no attribute '
 '\'dtype\'") cause=builtins.NoneType:None context=NoneType suppress=False',
 'diff_data[np|object] -> raised builtins.AttributeError:AttributeError("\'int\' object has no attribute '
 '\'dtype\'") cause=builtins.NoneType:None context=NoneType suppress=False',
 "assert_identical[np|object] -> raised builtins.TypeError:TypeError('can only compare Group and Variable "
 "and Array objects') cause=builtins.NoneType:None context=NoneType suppress=False",
 'diff_array[Array|Variable] -> raised builtins.AttributeError:AttributeError("\'Variable\' object has no '
 'attribute \'fs\'") cause=builtins.NoneType:None context=NoneType suppress=False',
 'diff_data[Array|Variable] -> ok builtins.str:"Differing data types:\\n  L <class '
 '\'ceos_alos2.array.Array\'>\\n  R <class \'ceos_alos2.hierarchy.Variable\'>"',
 'assert_identical[Array|Variable] -> raised builtins.AssertionError:AssertionError("types mismatch: <class '
 '\'ceos_alos2.array.Array\'> != <class \'ceos_alos2.hierarchy.Variable\'>") cause=builtins.NoneType:None '
 'context=NoneType suppress=False',
 "diff_array[fake|Array] -> ok builtins.str:'Differing filesystem:\\n  L protocol  fake\\n  R protocol  "
 'memory\\n  L path  root\\n  R path  /path/to\\nDiffering urls:\\n  L url  image\\n  R url  '
 'file\\nDiffering byte ranges:\\n  L line 1  (0, 4)\\n  R line 1  (5, 10)\\n  L line 2  (4, 8)\\n  R line '
 '2  (15, 20)\\n  L line 3  None\\n  R line 3  (25, 30)\\n  L line 4  None\\n  R line 4  (35, '
 '40)\\nDiffering shapes:\\n  (2, 2) != (4, 3)\\nDiffering dtypes:\\n  uint16 != int16\\nDiffering '
 "chunksizes:\\n  L records_per_chunk  1\\n  R records_per_chunk  2'",
 "diff_data[fake|Array] -> ok builtins.str:'Differing data:\\n  Differing filesystem:\\n    L protocol  "
 'fake\\n    R protocol  memory\\n    L path  root\\n    R path  /path/to\\n  Differing urls:\\n    L url  '
 'image\\n    R url  file\\n  Differing byte ranges:\\n    L line 1  (0, 4)\\n    R line 1  (5, 10)\\n    L '
 'line 2  (4, 8)\\n    R line 2  (15, 20)\\n    L line 3  None\\n    R line 3  (25, 30)\\n    L line 4  '
 'None\\n    R line 4  (35, 40)\\n  Differing shapes:\\n    (2, 2) != (4, 3)\\n  Differing dtypes:\\n    '
 "uint16 != int16\\n  Differing chunksizes:\\n    L records_per_chunk  1\\n    R records_per_chunk  2'",
 "assert_identical[fake|Array] -> raised builtins.AssertionError:AssertionError('Differing filesystem:\\n  L "
 'protocol  fake\\n  R protocol  memory\\n  L path  root\\n  R path  /path/to\\nDiffering urls:\\n  L url  '
 'image\\n  R url  file\\nDiffering byte ranges:\\n  L line 1  (0, 4)\\n  R line 1  (5, 10)\\n  L line 2  '
 '(4, 8)\\n  R line 2  (15, 20)\\n  L line 3  None\\n  R line 3  (25, 30)\\n  L line 4  None\\n  R line 4  '
 '(35, 40)\\nDiffering shapes:\\n  (2, 2) != (4, 3)\\nDiffering dtypes:\\n  uint16 != int16\\nDiffering '
 "chunksizes:\\n  L records_per_chunk  1\\n  R records_per_chunk  2') cause=builtins.NoneType:None "
 'context=NoneType suppress=False',
 "diff_array[Array|fake] -> ok builtins.str:'Differing filesystem:\\n  L protocol  memory\\n  R protocol  "
 'fake\\n  L path  /path/to\\n  R path  root\\nDiffering urls:\\n  L url  file\\n  R url  image\\nDiffering '
 'byte ranges:\\n  L line 1  (5, 10)\\n  R line 1  (0, 4)\\n  L line 2  (15, 20)\\n  R line 2  (4, 8)\\n  L '
 'line 3  (25, 30)\\n  R line 3  None\\n  L line 4  (35, 40)\\n  R line 4  None\\nDiffering shapes:\\n  (4, '
 '3) != (2, 2)\\nDiffering dtypes:\\n  int16 != uint16\\nDiffering chunksizes:\\n  L records_per_chunk  '
 "2\\n  R records_per_chunk  1'",
 "diff_data[Array|fake] -> ok builtins.str:'Differing data:\\n  Differing filesystem:\\n    L protocol  "
 'memory\\n    R protocol  fake\\n    L path  /path/to\\n    R path  root\\n  Differing urls:\\n    L url  '
 'file\\n    R url  image\\n  Differing byte ranges:\\n    L line 1  (5, 10)\\n    R line 1  (0, 4)\\n    L '
 'line 2  (15, 20)\\n    R line 2  (4, 8)\\n    L line 3  (25, 30)\\n    R line 3  None\\n    L line 4  (35, '
 '40)\\n    R line 4  None\\n  Differing shapes:\\n    (4, 3) != (2, 2)\\n  Differing dtypes:\\n    int16 != '
 "uint16\\n  Differing chunksizes:\\n    L records_per_chunk  2\\n    R records_per_chunk  1'",
 "assert_identical[Array|fake] -> raised builtins.AssertionError:AssertionError('Differing filesystem:\\n  L "
 'protocol  memory\\n  R protocol  fake\\n  L path  /path/to\\n  R path  root\\nDiffering urls:\\n  L url  '
 'file\\n  R url  image\\nDiffering byte ranges:\\n  L line 1  (5, 10)\\n  R line 1  (0, 4)\\n  L line 2  '
 '(15, 20)\\n  R line 2  (4, 8)\\n  L line 3  (25, 30)\\n  R line 3  None\\n  L line 4  (35, 40)\\n  R line '
 '4  None\\nDiffering shapes:\\n  (4, 3) != (2, 2)\\nDiffering dtypes:\\n  int16 != uint16\\nDiffering '
 "chunksizes:\\n  L records_per_chunk  2\\n  R records_per_chunk  1') cause=builtins.NoneType:None "
 'context=NoneType suppress=False',
 'diff_array[left incomplete] -> raised builtins.AttributeError:AttributeError("\'Array\' object has no '
 'attribute \'type_code\'") cause=builtins.NoneType:None context=NoneType suppress=False',
 'diff_array[right incomplete] -> raised builtins.AttributeError:AttributeError("\'Array\' object has no '
 'attribute \'type_code\'") cause=builtins.NoneType:None context=NoneType suppress=False',
 'diff_array[left fs None] -> raised builtins.AttributeError:AttributeError("\'NoneType\' object has no '
 'attribute \'fs\'") cause=builtins.NoneType:None context=NoneType suppress=False',
 'diff_array[right fs None] -> raised builtins.AttributeError:AttributeError("\'NoneType\' object has no '
 'attribute \'fs\'") cause=builtins.NoneType:None context=NoneType suppress=False',
 "diff_array[both fs None] -> ok builtins.str:''",
 "diff_array keywords -> ok builtins.str:'Differing urls:\\n  L url  file\\n  R url  file2'",
 "diff_mapping -> raised builtins.ValueError:ValueError('operands could not be broadcast together with "
 "shapes (10,) (9,) ') cause=builtins.NoneType:None context=NoneType suppress=False"]  # @@EXPECTED@@


def test_equivalence():
    observed = observe()
    assert len(observed) == len(EXPECTED)
    for actual, expected in zip(observed, EXPECTED):
        assert actual == expected
    assert observed == EXPECTED


if __name__ == "__main__":
    if "--record" in sys.argv:
        print(repr(observe()))
    else:
        test_equivalence()
        print(f"OK: {len(EXPECTED)} observations identical")
