"""Equivalence check for refactoring 3 (``compute_selected_ranges`` / ``groupby_chunks``).

Run as a script (``python equiv.py``) or through pytest. ``python equiv.py --record``
prints the observations of the code that is currently importable; the ``EXPECTED``
table below was recorded that way from the UNCHANGED code (HEAD).
"""

import pprint
import sys

import fsspec
import numpy as np

from ceos_alos2 import array

BYTE_RANGES = [(0, 3), (5, 8), (16, 19), (22, 25), (30, 33), (33, 36), (40, 43)]


class MyInt(int):
    pass


class Indexable:
    """sequence-like without being a list"""

    def __init__(self, items):
        self.items = items

    def __len__(self):
        return len(self.items)

    def __iter__(self):
        return iter(self.items)


def describe_exception(e):
    chain = []
    while e is not None:
        chain.append(f"{type(e).__name__}: {e}")
        e = e.__cause__ or e.__context__
    return chain


def typed(value):
    """repr including the types of containers and numbers"""
    if isinstance(value, dict):
        items = ", ".join(f"{typed(k)}: {typed(v)}" for k, v in value.items())
        return f"{type(value).__name__}{{{items}}}"
    if isinstance(value, (list, tuple)):
        items = ", ".join(typed(v) for v in value)
        return f"{type(value).__name__}({items})"
    return f"{type(value).__name__}:{value!r}"


def call(func, *args, **kwargs):
    try:
        result = func(*args, **kwargs)
    except BaseException as e:  # noqa: B902
        return {"raises": describe_exception(e)}
    return typed(result)


def gen(items):
    yield from items


INDEXERS = {
    "int-0": 0,
    "int-2": 2,
    "int-last": 6,
    "int-negative": -1,
    "int-negative-first": -7,
    "int-too-large": 7,
    "int-too-small": -8,
    "bool-true": True,
    "bool-false": False,
    "int-subclass": MyInt(3),
    "np-int": np.int64(2),
    "np-bool": np.True_,
    "float": 1.0,
    "none": None,
    "str": "1",
    "ellipsis": ...,
    "slice-all": slice(None),
    "slice-0:1": slice(0, 1),
    "slice-2:": slice(2, None),
    "slice-:2": slice(None, 2),
    "slice-::2": slice(None, None, 2),
    "slice-1:6:3": slice(1, 6, 3),
    "slice--1::-2": slice(-1, None, -2),
    "slice-::-1": slice(None, None, -1),
    "slice-empty": slice(3, 3),
    "slice-reversed-empty": slice(1, 4, -1),
    "slice-beyond": slice(5, 100),
    "slice-far-beyond": slice(50, 100),
    "slice-negative-beyond": slice(-100, 2),
    "slice-np-bounds": slice(np.int64(1), np.int64(3)),
    "slice-step-0": slice(None, None, 0),
    "slice-float": slice(0.5, 2),
    "list-empty": [],
    "list-single": [4],
    "list-single-negative": [-2],
    "list-single-out-of-range": [11],
    "list-two": [0, 2],
    "list-negative": [0, -1],
    "list-unsorted": [5, 1, 3],
    "list-duplicates": [2, 2, 2, 0],
    "list-out-of-range": [0, 9],
    "list-np-ints": [np.int64(1), np.int64(4)],
    "list-bools": [True, False, True],
    "list-floats": [0.0, 1.0],
    "list-single-float": [1.0],
    "list-mixed-slice": [slice(0, 2), 3],
    "list-single-slice": [slice(1, 3)],
    "list-nested": [[0, 1]],
    "list-none": [None, 1],
    "tuple": (1, 3),
    "tuple-empty": (),
    "range": range(0, 7, 3),
    "generator": lambda: gen([6, 0]),
    "np-array": np.array([0, 3, 5]),
    "np-array-negative": np.array([-1, -7]),
    "np-array-bool": np.array([True, False, True, False, False, False, True]),
    "np-array-2d": np.array([[0, 1], [2, 3]]),
    "np-array-0d": np.array(2),
    "set": {4},
    "dict": {1: "a", 5: "b"},
    "string-digits": "13",
    "bytes": b"\x01\x02",
}


def selected_ranges():
    observations = {}
    for name, indexer in INDEXERS.items():
        if callable(indexer):
            indexer = indexer()
        observations[name] = call(array.compute_selected_ranges, BYTE_RANGES, indexer)
    return observations


def selected_ranges_other_containers():
    ranges = BYTE_RANGES[:4]
    return {
        "empty-all": call(array.compute_selected_ranges, [], slice(None)),
        "empty-int": call(array.compute_selected_ranges, [], 0),
        "empty-list": call(array.compute_selected_ranges, [], []),
        "tuple-of-ranges": call(array.compute_selected_ranges, tuple(ranges), slice(1, 3)),
        "array-of-ranges": call(array.compute_selected_ranges, np.array(ranges), [0, -1]),
        "sized-iterable": call(array.compute_selected_ranges, Indexable(ranges), 2),
        "dict-of-ranges": call(array.compute_selected_ranges, dict(ranges), slice(None, 2)),
        "string": call(array.compute_selected_ranges, "abcd", [3, 0]),
        "generator": call(array.compute_selected_ranges, gen(ranges), 0),
        "none": call(array.compute_selected_ranges, None, 0),
        "int": call(array.compute_selected_ranges, 4, slice(None)),
        "ranges-of-3": call(array.compute_selected_ranges, [(0, 1, 2), (3, 4, 5)], 1),
        # the error for the indexer comes first
        "bad-indexer-and-unsized": call(array.compute_selected_ranges, gen(ranges), None),
        "sized-not-iterable-bad-indexer": call(array.compute_selected_ranges, NoIter(), 1.5),
        "sized-not-iterable": call(array.compute_selected_ranges, NoIter(), 1),
        "keyword-arguments": call(
            array.compute_selected_ranges, indexer=slice(None, None, 3), byte_ranges=ranges
        ),
    }


class NoIter:
    def __len__(self):
        return 3

    __iter__ = None


def grouped():
    numbered = list(enumerate(BYTE_RANGES))
    observations = {}
    for chunksize in (1, 2, 3, 4, 7, 100, -1, -2, 0, 2.0, 0.5, True, np.int64(3), None, "2"):
        observations[f"all-{chunksize!r}"] = call(array.groupby_chunks, numbered, chunksize)

    inputs = {
        "empty": [],
        "single": [(5, (1, 2))],
        "unsorted": [numbered[i] for i in (5, 1, 4, 0, 6)],
        "duplicates": [numbered[i] for i in (2, 2, 3, 2, 0, 3)],
        "reversed": numbered[::-1],
        "negative-rows": [(-1, (0, 1)), (-2, (1, 2)), (-3, (2, 3)), (0, (3, 4))],
        "generator": lambda: gen(numbered[1:5]),
        "tuple": tuple(numbered[:3]),
        "lists": [[0, (1, 2)], [1, (3, 4)], [2, (5, 6)]],
        "np-rows": [(np.int64(i), r) for i, r in numbered[:4]],
        "float-rows": [(0.0, (0, 1)), (1.5, (1, 2)), (2.0, (2, 3))],
        "bool-rows": [(True, (0, 1)), (False, (1, 2)), (2, (2, 3))],
        "array-input": np.arange(12).reshape(6, 2),
        "values-not-ranges": [(0, "a"), (1, None), (2, 3.5)],
        "triples": [(0, 1, 2), (1, 2, 3)],
        "triple-after-bad-row": [(0, (0, 1)), (1, 2, 3), ("x", (1, 2))],
        "bad-row-after-triple": [(0, 1, 2), ("x", (1, 2))],
        "singles": [(0,), (1,)],
        "empty-items": [(), ()],
        "strings": ["ab", "cd"],
        "ints": [1, 2],
        "none-items": [None],
        "str-rows": [("a", (0, 1))],
        "unhashable-key": [(np.array([0, 1]), (0, 1))],
        "dict-items": {0: (1, 2), 3: (4, 5)}.items(),
        "dict-input": {0: (1, 2), 3: (4, 5)},
        "not-iterable": None,
        "int-input": 3,
    }
    for name, byte_ranges in inputs.items():
        for chunksize in (1, 2, 3):
            if callable(byte_ranges):
                value = byte_ranges()
            else:
                value = byte_ranges
            observations[f"{name}-{chunksize}"] = call(array.groupby_chunks, value, chunksize)

    observations["keyword-arguments"] = call(
        array.groupby_chunks, chunksize=2, byte_ranges=numbered[2:5]
    )
    observations["keyword-chunksize"] = call(array.groupby_chunks, numbered[2:5], chunksize=4)
    return observations


def fresh_objects():
    # results do not share containers with the inputs or between calls
    numbered = list(enumerate(BYTE_RANGES))
    first = array.groupby_chunks(numbered, 2)
    second = array.groupby_chunks(numbered, 2)
    selected = array.compute_selected_ranges(BYTE_RANGES, slice(None))
    return {
        "groups-distinct": all(first[k] is not second[k] for k in first),
        "ranges-shared": all(a is b for a, b in zip(first[0], BYTE_RANGES[:2])),
        "selected-is-new-list": selected is not BYTE_RANGES,
        "selected-items-shared": all(item[1] is r for item, r in zip(selected, BYTE_RANGES)),
        "input-unchanged": numbered == list(enumerate(BYTE_RANGES)),
    }


def through_array():
    # the two functions as used by `Array.__getitem__`
    fs = fsspec.filesystem("dir", path="/eq3", fs=fsspec.filesystem("memory"))
    data = np.arange(35, dtype="uint16").reshape(7, 5) * 3
    gap = b"\x00" * 6
    content = b"".join(gap + row.astype(">u2").tobytes() for row in data)
    byte_ranges = [(6 + 16 * i, 16 + 16 * i) for i in range(7)]
    with fs.open("image", mode="wb") as f:
        f.write(content)

    observations = {}
    for chunksize in (1, 2, 3, 7):
        arr = array.Array(
            fs=fs,
            url="image",
            byte_ranges=byte_ranges,
            shape=data.shape,
            dtype="uint16",
            type_code="IU2",
            records_per_chunk=chunksize,
        )
        for name in ("int-2", "int-negative", "bool-true", "slice-1:6:3", "slice--1::-2",
                     "list-unsorted", "list-duplicates", "slice-empty", "int-too-large",
                     "np-int", "range", "np-array"):  # fmt: skip
            try:
                result = arr[(INDEXERS[name], slice(1, 4))]
            except Exception as e:
                observations[f"{name}-{chunksize}"] = {"raises": describe_exception(e)}
            else:
                observations[f"{name}-{chunksize}"] = (result.shape, repr(result.tolist()))
    return observations


CASES = {
    "compute_selected_ranges": selected_ranges,
    "compute_selected_ranges-containers": selected_ranges_other_containers,
    "groupby_chunks": grouped,
    "fresh-objects": fresh_objects,
    "through-array": through_array,
}


def collect():
    return {name: case() for name, case in CASES.items()}


# BEGIN EXPECTED
EXPECTED = {'compute_selected_ranges': {'int-0': 'list(tuple(int:0, tuple(int:0, int:3)))',
                             'int-2': 'list(tuple(int:2, tuple(int:16, int:19)))',
                             'int-last': 'list(tuple(int:6, tuple(int:40, int:43)))',
                             'int-negative': 'list(tuple(int:6, tuple(int:40, int:43)))',
                             'int-negative-first': 'list(tuple(int:0, tuple(int:0, int:3)))',
                             'int-too-large': {'raises': ['IndexError: list index out of range',
                                                          'TypeError: list indices must be '
                                                          'integers or slices, not list']},
                             'int-too-small': {'raises': ['IndexError: list index out of range',
                                                          'TypeError: list indices must be '
                                                          'integers or slices, not list']},
                             'bool-true': 'list(tuple(int:1, tuple(int:5, int:8)))',
                             'bool-false': 'list(tuple(int:0, tuple(int:0, int:3)))',
                             'int-subclass': 'list(tuple(int:3, tuple(int:22, int:25)))',
                             'np-int': {'raises': ["TypeError: 'numpy.int64' object is not "
                                                   'iterable']},
                             'np-bool': {'raises': ["TypeError: 'numpy.bool' object is not "
                                                    'iterable']},
                             'float': {'raises': ["TypeError: 'float' object is not iterable"]},
                             'none': {'raises': ["TypeError: 'NoneType' object is not iterable"]},
                             'str': {'raises': ['TypeError: list indices must be integers or '
                                                'slices, not str',
                                                'TypeError: list indices must be integers or '
                                                'slices, not list']},
                             'ellipsis': {'raises': ["TypeError: 'ellipsis' object is not "
                                                     'iterable']},
                             'slice-all': 'list(tuple(int:0, tuple(int:0, int:3)), tuple(int:1, '
                                          'tuple(int:5, int:8)), tuple(int:2, tuple(int:16, '
                                          'int:19)), tuple(int:3, tuple(int:22, int:25)), '
                                          'tuple(int:4, tuple(int:30, int:33)), tuple(int:5, '
                                          'tuple(int:33, int:36)), tuple(int:6, tuple(int:40, '
                                          'int:43)))',
                             'slice-0:1': 'list(tuple(int:0, tuple(int:0, int:3)))',
                             'slice-2:': 'list(tuple(int:2, tuple(int:16, int:19)), tuple(int:3, '
                                         'tuple(int:22, int:25)), tuple(int:4, tuple(int:30, '
                                         'int:33)), tuple(int:5, tuple(int:33, int:36)), '
                                         'tuple(int:6, tuple(int:40, int:43)))',
                             'slice-:2': 'list(tuple(int:0, tuple(int:0, int:3)), tuple(int:1, '
                                         'tuple(int:5, int:8)))',
                             'slice-::2': 'list(tuple(int:0, tuple(int:0, int:3)), tuple(int:2, '
                                          'tuple(int:16, int:19)), tuple(int:4, tuple(int:30, '
                                          'int:33)), tuple(int:6, tuple(int:40, int:43)))',
                             'slice-1:6:3': 'list(tuple(int:1, tuple(int:5, int:8)), tuple(int:4, '
                                            'tuple(int:30, int:33)))',
                             'slice--1::-2': 'list(tuple(int:6, tuple(int:40, int:43)), '
                                             'tuple(int:4, tuple(int:30, int:33)), tuple(int:2, '
                                             'tuple(int:16, int:19)), tuple(int:0, tuple(int:0, '
                                             'int:3)))',
                             'slice-::-1': 'list(tuple(int:6, tuple(int:40, int:43)), tuple(int:5, '
                                           'tuple(int:33, int:36)), tuple(int:4, tuple(int:30, '
                                           'int:33)), tuple(int:3, tuple(int:22, int:25)), '
                                           'tuple(int:2, tuple(int:16, int:19)), tuple(int:1, '
                                           'tuple(int:5, int:8)), tuple(int:0, tuple(int:0, '
                                           'int:3)))',
                             'slice-empty': 'list()',
                             'slice-reversed-empty': 'list()',
                             'slice-beyond': 'list(tuple(int:5, tuple(int:33, int:36)), '
                                             'tuple(int:6, tuple(int:40, int:43)))',
                             'slice-far-beyond': 'list()',
                             'slice-negative-beyond': 'list(tuple(int:0, tuple(int:0, int:3)), '
                                                      'tuple(int:1, tuple(int:5, int:8)))',
                             'slice-np-bounds': 'list(tuple(int:1, tuple(int:5, int:8)), '
                                                'tuple(int:2, tuple(int:16, int:19)))',
                             'slice-step-0': {'raises': ['ValueError: slice step cannot be zero']},
                             'slice-float': {'raises': ['TypeError: slice indices must be integers '
                                                        'or None or have an __index__ method']},
                             'list-empty': 'list()',
                             'list-single': 'list(tuple(int:4, tuple(int:30, int:33)))',
                             'list-single-negative': 'list(tuple(int:5, tuple(int:33, int:36)))',
                             'list-single-out-of-range': {'raises': ['IndexError: list index out '
                                                                     'of range',
                                                                     'TypeError: list indices must '
                                                                     'be integers or slices, not '
                                                                     'list']},
                             'list-two': 'list(tuple(int:0, tuple(int:0, int:3)), tuple(int:2, '
                                         'tuple(int:16, int:19)))',
                             'list-negative': 'list(tuple(int:0, tuple(int:0, int:3)), '
                                              'tuple(int:6, tuple(int:40, int:43)))',
                             'list-unsorted': 'list(tuple(int:5, tuple(int:33, int:36)), '
                                              'tuple(int:1, tuple(int:5, int:8)), tuple(int:3, '
                                              'tuple(int:22, int:25)))',
                             'list-duplicates': 'list(tuple(int:2, tuple(int:16, int:19)), '
                                                'tuple(int:2, tuple(int:16, int:19)), tuple(int:2, '
                                                'tuple(int:16, int:19)), tuple(int:0, tuple(int:0, '
                                                'int:3)))',
                             'list-out-of-range': {'raises': ['IndexError: list index out of range',
                                                              'TypeError: list indices must be '
                                                              'integers or slices, not list']},
                             'list-np-ints': 'list(tuple(int:1, tuple(int:5, int:8)), tuple(int:4, '
                                             'tuple(int:30, int:33)))',
                             'list-bools': 'list(tuple(int:1, tuple(int:5, int:8)), tuple(int:0, '
                                           'tuple(int:0, int:3)), tuple(int:1, tuple(int:5, '
                                           'int:8)))',
                             'list-floats': {'raises': ['TypeError: list indices must be integers '
                                                        'or slices, not float',
                                                        'TypeError: list indices must be integers '
                                                        'or slices, not list']},
                             'list-single-float': {'raises': ['TypeError: list indices must be '
                                                              'integers or slices, not float',
                                                              'TypeError: list indices must be '
                                                              'integers or slices, not list']},
                             'list-mixed-slice': 'list(list(tuple(int:0, tuple(int:0, int:3)), '
                                                 'tuple(int:1, tuple(int:5, int:8))), tuple(int:3, '
                                                 'tuple(int:22, int:25)))',
                             'list-single-slice': 'list(list(tuple(int:1, tuple(int:5, int:8)), '
                                                  'tuple(int:2, tuple(int:16, int:19))))',
                             'list-nested': {'raises': ['TypeError: list indices must be integers '
                                                        'or slices, not list',
                                                        'TypeError: list indices must be integers '
                                                        'or slices, not list']},
                             'list-none': {'raises': ['TypeError: list indices must be integers or '
                                                      'slices, not NoneType',
                                                      'TypeError: list indices must be integers or '
                                                      'slices, not list']},
                             'tuple': 'list(tuple(int:1, tuple(int:5, int:8)), tuple(int:3, '
                                      'tuple(int:22, int:25)))',
                             'tuple-empty': 'list()',
                             'range': 'list(tuple(int:0, tuple(int:0, int:3)), tuple(int:3, '
                                      'tuple(int:22, int:25)), tuple(int:6, tuple(int:40, '
                                      'int:43)))',
                             'generator': 'list(tuple(int:6, tuple(int:40, int:43)), tuple(int:0, '
                                          'tuple(int:0, int:3)))',
                             'np-array': 'list(tuple(int:0, tuple(int:0, int:3)), tuple(int:3, '
                                         'tuple(int:22, int:25)), tuple(int:5, tuple(int:33, '
                                         'int:36)))',
                             'np-array-negative': 'list(tuple(int:6, tuple(int:40, int:43)), '
                                                  'tuple(int:0, tuple(int:0, int:3)))',
                             'np-array-bool': {'raises': ['TypeError: list indices must be '
                                                          'integers or slices, not numpy.bool',
                                                          'TypeError: list indices must be '
                                                          'integers or slices, not list']},
                             'np-array-2d': {'raises': ['TypeError: only integer scalar arrays can '
                                                        'be converted to a scalar index',
                                                        'TypeError: list indices must be integers '
                                                        'or slices, not list']},
                             'np-array-0d': {'raises': ['TypeError: iteration over a 0-d array']},
                             'set': 'list(tuple(int:4, tuple(int:30, int:33)))',
                             'dict': 'list(tuple(int:1, tuple(int:5, int:8)), tuple(int:5, '
                                     'tuple(int:33, int:36)))',
                             'string-digits': {'raises': ['TypeError: list indices must be '
                                                          'integers or slices, not str',
                                                          'TypeError: list indices must be '
                                                          'integers or slices, not list']},
                             'bytes': 'list(tuple(int:1, tuple(int:5, int:8)), tuple(int:2, '
                                      'tuple(int:16, int:19)))'},
 'compute_selected_ranges-containers': {'empty-all': 'list()',
                                        'empty-int': {'raises': ['IndexError: list index out of '
                                                                 'range',
                                                                 'TypeError: list indices must be '
                                                                 'integers or slices, not list']},
                                        'empty-list': 'list()',
                                        'tuple-of-ranges': 'list(tuple(int:1, tuple(int:5, '
                                                           'int:8)), tuple(int:2, tuple(int:16, '
                                                           'int:19)))',
                                        'array-of-ranges': 'list(tuple(int:0, ndarray:array([0, '
                                                           '3])), tuple(int:3, ndarray:array([22, '
                                                           '25])))',
                                        'sized-iterable': 'list(tuple(int:2, tuple(int:16, '
                                                          'int:19)))',
                                        'dict-of-ranges': 'list(tuple(int:0, int:0), tuple(int:1, '
                                                          'int:5))',
                                        'string': "list(tuple(int:3, str:'d'), tuple(int:0, "
                                                  "str:'a'))",
                                        'generator': {'raises': ['TypeError: object of type '
                                                                 "'generator' has no len()"]},
                                        'none': {'raises': ["TypeError: object of type 'NoneType' "
                                                            'has no len()']},
                                        'int': {'raises': ["TypeError: object of type 'int' has no "
                                                           'len()']},
                                        'ranges-of-3': 'list(tuple(int:1, tuple(int:3, int:4, '
                                                       'int:5)))',
                                        'bad-indexer-and-unsized': {'raises': ['TypeError: object '
                                                                               'of type '
                                                                               "'generator' has no "
                                                                               'len()']},
                                        'sized-not-iterable-bad-indexer': {'raises': ['TypeError: '
                                                                                      "'float' "
                                                                                      'object is '
                                                                                      'not '
                                                                                      'iterable']},
                                        'sized-not-iterable': {'raises': ["TypeError: 'NoIter' "
                                                                          'object is not '
                                                                          'iterable']},
                                        'keyword-arguments': 'list(tuple(int:0, tuple(int:0, '
                                                             'int:3)), tuple(int:3, tuple(int:22, '
                                                             'int:25)))'},
 'groupby_chunks': {'all-1': 'dict{int:0: list(tuple(int:0, int:3)), int:1: list(tuple(int:5, '
                             'int:8)), int:2: list(tuple(int:16, int:19)), int:3: '
                             'list(tuple(int:22, int:25)), int:4: list(tuple(int:30, int:33)), '
                             'int:5: list(tuple(int:33, int:36)), int:6: list(tuple(int:40, '
                             'int:43))}',
                    'all-2': 'dict{int:0: list(tuple(int:0, int:3), tuple(int:5, int:8)), int:1: '
                             'list(tuple(int:16, int:19), tuple(int:22, int:25)), int:2: '
                             'list(tuple(int:30, int:33), tuple(int:33, int:36)), int:3: '
                             'list(tuple(int:40, int:43))}',
                    'all-3': 'dict{int:0: list(tuple(int:0, int:3), tuple(int:5, int:8), '
                             'tuple(int:16, int:19)), int:1: list(tuple(int:22, int:25), '
                             'tuple(int:30, int:33), tuple(int:33, int:36)), int:2: '
                             'list(tuple(int:40, int:43))}',
                    'all-4': 'dict{int:0: list(tuple(int:0, int:3), tuple(int:5, int:8), '
                             'tuple(int:16, int:19), tuple(int:22, int:25)), int:1: '
                             'list(tuple(int:30, int:33), tuple(int:33, int:36), tuple(int:40, '
                             'int:43))}',
                    'all-7': 'dict{int:0: list(tuple(int:0, int:3), tuple(int:5, int:8), '
                             'tuple(int:16, int:19), tuple(int:22, int:25), tuple(int:30, int:33), '
                             'tuple(int:33, int:36), tuple(int:40, int:43))}',
                    'all-100': 'dict{int:0: list(tuple(int:0, int:3), tuple(int:5, int:8), '
                               'tuple(int:16, int:19), tuple(int:22, int:25), tuple(int:30, '
                               'int:33), tuple(int:33, int:36), tuple(int:40, int:43))}',
                    'all--1': 'dict{int:0: list(tuple(int:0, int:3)), int:-1: list(tuple(int:5, '
                              'int:8)), int:-2: list(tuple(int:16, int:19)), int:-3: '
                              'list(tuple(int:22, int:25)), int:-4: list(tuple(int:30, int:33)), '
                              'int:-5: list(tuple(int:33, int:36)), int:-6: list(tuple(int:40, '
                              'int:43))}',
                    'all--2': 'dict{int:0: list(tuple(int:0, int:3)), int:-1: list(tuple(int:5, '
                              'int:8), tuple(int:16, int:19)), int:-2: list(tuple(int:22, int:25), '
                              'tuple(int:30, int:33)), int:-3: list(tuple(int:33, int:36), '
                              'tuple(int:40, int:43))}',
                    'all-0': {'raises': ['ZeroDivisionError: integer division or modulo by zero']},
                    'all-2.0': 'dict{float:0.0: list(tuple(int:0, int:3), tuple(int:5, int:8)), '
                               'float:1.0: list(tuple(int:16, int:19), tuple(int:22, int:25)), '
                               'float:2.0: list(tuple(int:30, int:33), tuple(int:33, int:36)), '
                               'float:3.0: list(tuple(int:40, int:43))}',
                    'all-0.5': 'dict{float:0.0: list(tuple(int:0, int:3)), float:2.0: '
                               'list(tuple(int:5, int:8)), float:4.0: list(tuple(int:16, int:19)), '
                               'float:6.0: list(tuple(int:22, int:25)), float:8.0: '
                               'list(tuple(int:30, int:33)), float:10.0: list(tuple(int:33, '
                               'int:36)), float:12.0: list(tuple(int:40, int:43))}',
                    'all-True': 'dict{int:0: list(tuple(int:0, int:3)), int:1: list(tuple(int:5, '
                                'int:8)), int:2: list(tuple(int:16, int:19)), int:3: '
                                'list(tuple(int:22, int:25)), int:4: list(tuple(int:30, int:33)), '
                                'int:5: list(tuple(int:33, int:36)), int:6: list(tuple(int:40, '
                                'int:43))}',
                    'all-np.int64(3)': 'dict{int64:np.int64(0): list(tuple(int:0, int:3), '
                                       'tuple(int:5, int:8), tuple(int:16, int:19)), '
                                       'int64:np.int64(1): list(tuple(int:22, int:25), '
                                       'tuple(int:30, int:33), tuple(int:33, int:36)), '
                                       'int64:np.int64(2): list(tuple(int:40, int:43))}',
                    'all-None': {'raises': ["TypeError: unsupported operand type(s) for //: 'int' "
                                            "and 'NoneType'"]},
                    "all-'2'": {'raises': ["TypeError: unsupported operand type(s) for //: 'int' "
                                           "and 'str'"]},
                    'empty-1': 'dict{}',
                    'empty-2': 'dict{}',
                    'empty-3': 'dict{}',
                    'single-1': 'dict{int:5: list(tuple(int:1, int:2))}',
                    'single-2': 'dict{int:2: list(tuple(int:1, int:2))}',
                    'single-3': 'dict{int:1: list(tuple(int:1, int:2))}',
                    'unsorted-1': 'dict{int:5: list(tuple(int:33, int:36)), int:1: '
                                  'list(tuple(int:5, int:8)), int:4: list(tuple(int:30, int:33)), '
                                  'int:0: list(tuple(int:0, int:3)), int:6: list(tuple(int:40, '
                                  'int:43))}',
                    'unsorted-2': 'dict{int:2: list(tuple(int:33, int:36), tuple(int:30, int:33)), '
                                  'int:0: list(tuple(int:5, int:8), tuple(int:0, int:3)), int:3: '
                                  'list(tuple(int:40, int:43))}',
                    'unsorted-3': 'dict{int:1: list(tuple(int:33, int:36), tuple(int:30, int:33)), '
                                  'int:0: list(tuple(int:5, int:8), tuple(int:0, int:3)), int:2: '
                                  'list(tuple(int:40, int:43))}',
                    'duplicates-1': 'dict{int:2: list(tuple(int:16, int:19), tuple(int:16, '
                                    'int:19), tuple(int:16, int:19)), int:3: list(tuple(int:22, '
                                    'int:25), tuple(int:22, int:25)), int:0: list(tuple(int:0, '
                                    'int:3))}',
                    'duplicates-2': 'dict{int:1: list(tuple(int:16, int:19), tuple(int:16, '
                                    'int:19), tuple(int:22, int:25), tuple(int:16, int:19), '
                                    'tuple(int:22, int:25)), int:0: list(tuple(int:0, int:3))}',
                    'duplicates-3': 'dict{int:0: list(tuple(int:16, int:19), tuple(int:16, '
                                    'int:19), tuple(int:16, int:19), tuple(int:0, int:3)), int:1: '
                                    'list(tuple(int:22, int:25), tuple(int:22, int:25))}',
                    'reversed-1': 'dict{int:6: list(tuple(int:40, int:43)), int:5: '
                                  'list(tuple(int:33, int:36)), int:4: list(tuple(int:30, '
                                  'int:33)), int:3: list(tuple(int:22, int:25)), int:2: '
                                  'list(tuple(int:16, int:19)), int:1: list(tuple(int:5, int:8)), '
                                  'int:0: list(tuple(int:0, int:3))}',
                    'reversed-2': 'dict{int:3: list(tuple(int:40, int:43)), int:2: '
                                  'list(tuple(int:33, int:36), tuple(int:30, int:33)), int:1: '
                                  'list(tuple(int:22, int:25), tuple(int:16, int:19)), int:0: '
                                  'list(tuple(int:5, int:8), tuple(int:0, int:3))}',
                    'reversed-3': 'dict{int:2: list(tuple(int:40, int:43)), int:1: '
                                  'list(tuple(int:33, int:36), tuple(int:30, int:33), '
                                  'tuple(int:22, int:25)), int:0: list(tuple(int:16, int:19), '
                                  'tuple(int:5, int:8), tuple(int:0, int:3))}',
                    'negative-rows-1': 'dict{int:-1: list(tuple(int:0, int:1)), int:-2: '
                                       'list(tuple(int:1, int:2)), int:-3: list(tuple(int:2, '
                                       'int:3)), int:0: list(tuple(int:3, int:4))}',
                    'negative-rows-2': 'dict{int:-1: list(tuple(int:0, int:1), tuple(int:1, '
                                       'int:2)), int:-2: list(tuple(int:2, int:3)), int:0: '
                                       'list(tuple(int:3, int:4))}',
                    'negative-rows-3': 'dict{int:-1: list(tuple(int:0, int:1), tuple(int:1, '
                                       'int:2), tuple(int:2, int:3)), int:0: list(tuple(int:3, '
                                       'int:4))}',
                    'generator-1': 'dict{int:1: list(tuple(int:5, int:8)), int:2: '
                                   'list(tuple(int:16, int:19)), int:3: list(tuple(int:22, '
                                   'int:25)), int:4: list(tuple(int:30, int:33))}',
                    'generator-2': 'dict{int:0: list(tuple(int:5, int:8)), int:1: '
                                   'list(tuple(int:16, int:19), tuple(int:22, int:25)), int:2: '
                                   'list(tuple(int:30, int:33))}',
                    'generator-3': 'dict{int:0: list(tuple(int:5, int:8), tuple(int:16, int:19)), '
                                   'int:1: list(tuple(int:22, int:25), tuple(int:30, int:33))}',
                    'tuple-1': 'dict{int:0: list(tuple(int:0, int:3)), int:1: list(tuple(int:5, '
                               'int:8)), int:2: list(tuple(int:16, int:19))}',
                    'tuple-2': 'dict{int:0: list(tuple(int:0, int:3), tuple(int:5, int:8)), int:1: '
                               'list(tuple(int:16, int:19))}',
                    'tuple-3': 'dict{int:0: list(tuple(int:0, int:3), tuple(int:5, int:8), '
                               'tuple(int:16, int:19))}',
                    'lists-1': 'dict{int:0: list(tuple(int:1, int:2)), int:1: list(tuple(int:3, '
                               'int:4)), int:2: list(tuple(int:5, int:6))}',
                    'lists-2': 'dict{int:0: list(tuple(int:1, int:2), tuple(int:3, int:4)), int:1: '
                               'list(tuple(int:5, int:6))}',
                    'lists-3': 'dict{int:0: list(tuple(int:1, int:2), tuple(int:3, int:4), '
                               'tuple(int:5, int:6))}',
                    'np-rows-1': 'dict{int64:np.int64(0): list(tuple(int:0, int:3)), '
                                 'int64:np.int64(1): list(tuple(int:5, int:8)), int64:np.int64(2): '
                                 'list(tuple(int:16, int:19)), int64:np.int64(3): '
                                 'list(tuple(int:22, int:25))}',
                    'np-rows-2': 'dict{int64:np.int64(0): list(tuple(int:0, int:3), tuple(int:5, '
                                 'int:8)), int64:np.int64(1): list(tuple(int:16, int:19), '
                                 'tuple(int:22, int:25))}',
                    'np-rows-3': 'dict{int64:np.int64(0): list(tuple(int:0, int:3), tuple(int:5, '
                                 'int:8), tuple(int:16, int:19)), int64:np.int64(1): '
                                 'list(tuple(int:22, int:25))}',
                    'float-rows-1': 'dict{float:0.0: list(tuple(int:0, int:1)), float:1.0: '
                                    'list(tuple(int:1, int:2)), float:2.0: list(tuple(int:2, '
                                    'int:3))}',
                    'float-rows-2': 'dict{float:0.0: list(tuple(int:0, int:1), tuple(int:1, '
                                    'int:2)), float:1.0: list(tuple(int:2, int:3))}',
                    'float-rows-3': 'dict{float:0.0: list(tuple(int:0, int:1), tuple(int:1, '
                                    'int:2), tuple(int:2, int:3))}',
                    'bool-rows-1': 'dict{int:1: list(tuple(int:0, int:1)), int:0: '
                                   'list(tuple(int:1, int:2)), int:2: list(tuple(int:2, int:3))}',
                    'bool-rows-2': 'dict{int:0: list(tuple(int:0, int:1), tuple(int:1, int:2)), '
                                   'int:1: list(tuple(int:2, int:3))}',
                    'bool-rows-3': 'dict{int:0: list(tuple(int:0, int:1), tuple(int:1, int:2), '
                                   'tuple(int:2, int:3))}',
                    'array-input-1': 'dict{int64:np.int64(0): list(int64:np.int64(1)), '
                                     'int64:np.int64(2): list(int64:np.int64(3)), '
                                     'int64:np.int64(4): list(int64:np.int64(5)), '
                                     'int64:np.int64(6): list(int64:np.int64(7)), '
                                     'int64:np.int64(8): list(int64:np.int64(9)), '
                                     'int64:np.int64(10): list(int64:np.int64(11))}',
                    'array-input-2': 'dict{int64:np.int64(0): list(int64:np.int64(1)), '
                                     'int64:np.int64(1): list(int64:np.int64(3)), '
                                     'int64:np.int64(2): list(int64:np.int64(5)), '
                                     'int64:np.int64(3): list(int64:np.int64(7)), '
                                     'int64:np.int64(4): list(int64:np.int64(9)), '
                                     'int64:np.int64(5): list(int64:np.int64(11))}',
                    'array-input-3': 'dict{int64:np.int64(0): list(int64:np.int64(1), '
                                     'int64:np.int64(3)), int64:np.int64(1): '
                                     'list(int64:np.int64(5)), int64:np.int64(2): '
                                     'list(int64:np.int64(7), int64:np.int64(9)), '
                                     'int64:np.int64(3): list(int64:np.int64(11))}',
                    'values-not-ranges-1': "dict{int:0: list(str:'a'), int:1: list(NoneType:None), "
                                           'int:2: list(float:3.5)}',
                    'values-not-ranges-2': "dict{int:0: list(str:'a', NoneType:None), int:1: "
                                           'list(float:3.5)}',
                    'values-not-ranges-3': "dict{int:0: list(str:'a', NoneType:None, float:3.5)}",
                    'triples-1': {'raises': ['ValueError: too many values to unpack (expected 2)']},
                    'triples-2': {'raises': ['ValueError: too many values to unpack (expected 2)']},
                    'triples-3': {'raises': ['ValueError: too many values to unpack (expected 2)']},
                    'triple-after-bad-row-1': {'raises': ['TypeError: unsupported operand type(s) '
                                                          "for //: 'str' and 'int'"]},
                    'triple-after-bad-row-2': {'raises': ['TypeError: unsupported operand type(s) '
                                                          "for //: 'str' and 'int'"]},
                    'triple-after-bad-row-3': {'raises': ['TypeError: unsupported operand type(s) '
                                                          "for //: 'str' and 'int'"]},
                    'bad-row-after-triple-1': {'raises': ['TypeError: unsupported operand type(s) '
                                                          "for //: 'str' and 'int'"]},
                    'bad-row-after-triple-2': {'raises': ['TypeError: unsupported operand type(s) '
                                                          "for //: 'str' and 'int'"]},
                    'bad-row-after-triple-3': {'raises': ['TypeError: unsupported operand type(s) '
                                                          "for //: 'str' and 'int'"]},
                    'singles-1': {'raises': ['ValueError: not enough values to unpack (expected 2, '
                                             'got 1)']},
                    'singles-2': {'raises': ['ValueError: not enough values to unpack (expected 2, '
                                             'got 1)']},
                    'singles-3': {'raises': ['ValueError: not enough values to unpack (expected 2, '
                                             'got 1)']},
                    'empty-items-1': {'raises': ['IndexError: tuple index out of range']},
                    'empty-items-2': {'raises': ['IndexError: tuple index out of range']},
                    'empty-items-3': {'raises': ['IndexError: tuple index out of range']},
                    'strings-1': {'raises': ["TypeError: unsupported operand type(s) for //: 'str' "
                                             "and 'int'"]},
                    'strings-2': {'raises': ["TypeError: unsupported operand type(s) for //: 'str' "
                                             "and 'int'"]},
                    'strings-3': {'raises': ["TypeError: unsupported operand type(s) for //: 'str' "
                                             "and 'int'"]},
                    'ints-1': {'raises': ["TypeError: 'int' object is not subscriptable"]},
                    'ints-2': {'raises': ["TypeError: 'int' object is not subscriptable"]},
                    'ints-3': {'raises': ["TypeError: 'int' object is not subscriptable"]},
                    'none-items-1': {'raises': ["TypeError: 'NoneType' object is not "
                                                'subscriptable']},
                    'none-items-2': {'raises': ["TypeError: 'NoneType' object is not "
                                                'subscriptable']},
                    'none-items-3': {'raises': ["TypeError: 'NoneType' object is not "
                                                'subscriptable']},
                    'str-rows-1': {'raises': ['TypeError: unsupported operand type(s) for //: '
                                              "'str' and 'int'"]},
                    'str-rows-2': {'raises': ['TypeError: unsupported operand type(s) for //: '
                                              "'str' and 'int'"]},
                    'str-rows-3': {'raises': ['TypeError: unsupported operand type(s) for //: '
                                              "'str' and 'int'"]},
                    'unhashable-key-1': {'raises': ["TypeError: unhashable type: 'numpy.ndarray'"]},
                    'unhashable-key-2': {'raises': ["TypeError: unhashable type: 'numpy.ndarray'"]},
                    'unhashable-key-3': {'raises': ["TypeError: unhashable type: 'numpy.ndarray'"]},
                    'dict-items-1': 'dict{int:0: list(tuple(int:1, int:2)), int:3: '
                                    'list(tuple(int:4, int:5))}',
                    'dict-items-2': 'dict{int:0: list(tuple(int:1, int:2)), int:1: '
                                    'list(tuple(int:4, int:5))}',
                    'dict-items-3': 'dict{int:0: list(tuple(int:1, int:2)), int:1: '
                                    'list(tuple(int:4, int:5))}',
                    'dict-input-1': {'raises': ["TypeError: 'int' object is not subscriptable"]},
                    'dict-input-2': {'raises': ["TypeError: 'int' object is not subscriptable"]},
                    'dict-input-3': {'raises': ["TypeError: 'int' object is not subscriptable"]},
                    'not-iterable-1': {'raises': ["TypeError: 'NoneType' object is not iterable"]},
                    'not-iterable-2': {'raises': ["TypeError: 'NoneType' object is not iterable"]},
                    'not-iterable-3': {'raises': ["TypeError: 'NoneType' object is not iterable"]},
                    'int-input-1': {'raises': ["TypeError: 'int' object is not iterable"]},
                    'int-input-2': {'raises': ["TypeError: 'int' object is not iterable"]},
                    'int-input-3': {'raises': ["TypeError: 'int' object is not iterable"]},
                    'keyword-arguments': 'dict{int:1: list(tuple(int:16, int:19), tuple(int:22, '
                                         'int:25)), int:2: list(tuple(int:30, int:33))}',
                    'keyword-chunksize': 'dict{int:0: list(tuple(int:16, int:19), tuple(int:22, '
                                         'int:25)), int:1: list(tuple(int:30, int:33))}'},
 'fresh-objects': {'groups-distinct': True,
                   'ranges-shared': True,
                   'selected-is-new-list': True,
                   'selected-items-shared': True,
                   'input-unchanged': True},
 'through-array': {'int-2-1': ((3,), '[33, 36, 39]'),
                   'int-negative-1': ((3,), '[93, 96, 99]'),
                   'bool-true-1': ((3,), '[18, 21, 24]'),
                   'slice-1:6:3-1': ((2, 3), '[[18, 21, 24], [63, 66, 69]]'),
                   'slice--1::-2-1': ((4, 3),
                                      '[[93, 96, 99], [63, 66, 69], [33, 36, 39], [3, 6, 9]]'),
                   'list-unsorted-1': ((3, 3), '[[78, 81, 84], [18, 21, 24], [48, 51, 54]]'),
                   'list-duplicates-1': ((4, 3),
                                         '[[33, 36, 39], [33, 36, 39], [33, 36, 39], [3, 6, 9]]'),
                   'slice-empty-1': ((0, 3), '[]'),
                   'int-too-large-1': {'raises': ['IndexError: list index out of range',
                                                  'TypeError: list indices must be integers or '
                                                  'slices, not list']},
                   'np-int-1': {'raises': ["TypeError: 'numpy.int64' object is not iterable"]},
                   'range-1': ((3, 3), '[[3, 6, 9], [48, 51, 54], [93, 96, 99]]'),
                   'np-array-1': ((3, 3), '[[3, 6, 9], [48, 51, 54], [78, 81, 84]]'),
                   'int-2-2': ((3,), '[33, 36, 39]'),
                   'int-negative-2': ((3,), '[93, 96, 99]'),
                   'bool-true-2': ((3,), '[18, 21, 24]'),
                   'slice-1:6:3-2': ((2, 3), '[[18, 21, 24], [63, 66, 69]]'),
                   'slice--1::-2-2': ((4, 3),
                                      '[[93, 96, 99], [63, 66, 69], [33, 36, 39], [3, 6, 9]]'),
                   'list-unsorted-2': ((3, 3), '[[78, 81, 84], [18, 21, 24], [48, 51, 54]]'),
                   'list-duplicates-2': ((4, 3),
                                         '[[33, 36, 39], [33, 36, 39], [33, 36, 39], [3, 6, 9]]'),
                   'slice-empty-2': ((0, 3), '[]'),
                   'int-too-large-2': {'raises': ['IndexError: list index out of range',
                                                  'TypeError: list indices must be integers or '
                                                  'slices, not list']},
                   'np-int-2': {'raises': ["TypeError: 'numpy.int64' object is not iterable"]},
                   'range-2': ((3, 3), '[[3, 6, 9], [48, 51, 54], [93, 96, 99]]'),
                   'np-array-2': ((3, 3), '[[3, 6, 9], [48, 51, 54], [78, 81, 84]]'),
                   'int-2-3': ((3,), '[33, 36, 39]'),
                   'int-negative-3': ((3,), '[93, 96, 99]'),
                   'bool-true-3': ((3,), '[18, 21, 24]'),
                   'slice-1:6:3-3': ((2, 3), '[[18, 21, 24], [63, 66, 69]]'),
                   'slice--1::-2-3': ((4, 3),
                                      '[[93, 96, 99], [63, 66, 69], [33, 36, 39], [3, 6, 9]]'),
                   'list-unsorted-3': ((3, 3), '[[78, 81, 84], [48, 51, 54], [18, 21, 24]]'),
                   'list-duplicates-3': ((4, 3),
                                         '[[33, 36, 39], [33, 36, 39], [33, 36, 39], [3, 6, 9]]'),
                   'slice-empty-3': ((0, 3), '[]'),
                   'int-too-large-3': {'raises': ['IndexError: list index out of range',
                                                  'TypeError: list indices must be integers or '
                                                  'slices, not list']},
                   'np-int-3': {'raises': ["TypeError: 'numpy.int64' object is not iterable"]},
                   'range-3': ((3, 3), '[[3, 6, 9], [48, 51, 54], [93, 96, 99]]'),
                   'np-array-3': ((3, 3), '[[3, 6, 9], [48, 51, 54], [78, 81, 84]]'),
                   'int-2-7': ((3,), '[33, 36, 39]'),
                   'int-negative-7': ((3,), '[93, 96, 99]'),
                   'bool-true-7': ((3,), '[18, 21, 24]'),
                   'slice-1:6:3-7': ((2, 3), '[[18, 21, 24], [63, 66, 69]]'),
                   'slice--1::-2-7': ((4, 3),
                                      '[[93, 96, 99], [63, 66, 69], [33, 36, 39], [3, 6, 9]]'),
                   'list-unsorted-7': ((3, 3), '[[78, 81, 84], [18, 21, 24], [48, 51, 54]]'),
                   'list-duplicates-7': ((4, 3),
                                         '[[33, 36, 39], [33, 36, 39], [33, 36, 39], [3, 6, 9]]'),
                   'slice-empty-7': ((0, 3), '[]'),
                   'int-too-large-7': {'raises': ['IndexError: list index out of range',
                                                  'TypeError: list indices must be integers or '
                                                  'slices, not list']},
                   'np-int-7': {'raises': ["TypeError: 'numpy.int64' object is not iterable"]},
                   'range-7': ((3, 3), '[[3, 6, 9], [48, 51, 54], [93, 96, 99]]'),
                   'np-array-7': ((3, 3), '[[3, 6, 9], [48, 51, 54], [78, 81, 84]]')}}
# END EXPECTED


def test_equiv():
    actual = collect()
    assert list(actual) == list(EXPECTED)
    for section, observations in actual.items():
        assert list(observations) == list(EXPECTED[section]), section
        for name, observation in observations.items():
            expected = EXPECTED[section][name]
            assert observation == expected, (section, name, observation, expected)


def test_names_still_importable():
    for name in ("cons", "first", "get", "groupby", "partition_all", "second", "parse_bytes"):
        assert hasattr(array, name), name


if __name__ == "__main__":
    if "--record" in sys.argv:
        pprint.pprint(collect(), width=100, sort_dicts=False)
    else:
        test_equiv()
        test_names_still_importable()
        n = sum(len(section) for section in EXPECTED.values())
        print(f"OK: {n} observations identical to the recorded behaviour")
